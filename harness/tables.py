"""Harness tables registered through the public extension point `Connection.tables[name] = Table`.

One accessor CLASS per column (as BeanTable.column / SubqueryTable.column do).  Never share one accessor class
between columns of equal datatype: EvalNode.__eq__ compares the class and its __slots__ only, and the compiler
merges GROUP BY / ORDER BY expressions with targets that compare equal.
"""
import datetime
import decimal

from beanquery import query_compile
from beanquery import tables as bq_tables

DTYPES = {
    'int': int, 'dec': decimal.Decimal, 'Decimal': decimal.Decimal, 'str': str, 'date': datetime.date,
    'bool': bool, 'obj': object, 'object': object, 'set': set, 'list': list, 'dict': dict,
}


def _column_class(table, name, index, dtype):
    def __init__(self):
        query_compile.EvalColumn.__init__(self, dtype)

    def __call__(self, row):
        return row[index]
    return type('Col_%s_%s' % (table, name), (query_compile.EvalColumn,),
                {'__slots__': (), '__init__': __init__, '__call__': __call__})


class HarnessTable(bq_tables.Table):
    """typed columns over a list of tuples; iteration order = list order"""

    def __init__(self, name, cols, rows):
        self.name = name
        self.colspec = [(n, DTYPES[t] if isinstance(t, str) else t) for n, t in cols]
        self.columns = {n: _column_class(name, n, i, t)() for i, (n, t) in enumerate(self.colspec)}
        self.rows = [tuple(r) for r in rows]

    def __iter__(self):
        return iter(self.rows)


def connection(*tables):
    import beanquery
    conn = beanquery.Connection()
    for t in tables:
        conn.tables[t.name] = t
    return conn
