"""Run TLC (model checking, simulation, trace validation) and parse what it printed.

A TLC run here is always: `tlc -workers N -metadir <private dir> -noGenerateSpecTE [-coverage 1]
<Module>.tla -config <cfg>` under an outer timeout.  The private metadir lives in the caller's work
directory, which is removed when the check ends.

Parsed:
  * "N states generated, M distinct states found"  -> generated (we call these transitions) / distinct
  * "Error: Invariant X is violated" / "Error: Action property" / any other "Error:" line
  * the counterexample behaviour ("State k: <Action ...>" blocks) as text
  * every PrintT(ToJson(..)) line -> decoded JSON object (TLC prints a TLA+ string literal holding JSON)
  * -coverage 1 per-action counts  <Name line ..>: distinct:generated
"""
import collections
import json
import os
import re
import shutil
import subprocess
import threading
import time

JAR = '/opt/veriftools/tla/tla2tools.jar'
DEPS = '/opt/veriftools/tla/CommunityModules-deps.jar'
SPEC_DIR = os.path.join(os.path.dirname(os.path.dirname(os.path.abspath(__file__))), 'spec')

_STR = re.compile(r'"((?:[^"\\]|\\.)*)"')
_STATES = re.compile(r'(\d+) states generated, (\d+) distinct states found, (\d+) states left on queue')
_COV = re.compile(r'^<(\w+) line (\d+), col \d+ to line \d+, col \d+ of module (\w+)>: (\d+):(\d+)')
_DEPTH = re.compile(r'The depth of the complete state graph search is (\d+)')
_SIM = re.compile(r'The number of states generated: (\d+)')


class TLCError(Exception):
    """machinery failure (crash, timeout, parse error in the spec...) -> exit 2"""


class TLCKilled(TLCError):
    """the JVM was killed by a signal (OOM killer)"""


class _Sink:
    """list-like adapter: PrintT values are handed to a callback instead of being kept"""
    def __init__(self, fn):
        self.fn = fn
        self.count = 0

    def append(self, x):
        self.count += 1
        self.fn(x)


class TLCResult:
    def __init__(self):
        self.generated = 0
        self.distinct = 0
        self.queue = 0
        self.depth = 0
        self.errors = []          # "Error: ..." lines
        self.violated = []        # names of violated invariants / properties
        self.behaviour = ''       # counterexample text
        self.printed = []         # decoded PrintT JSON values
        self.nprinted = 0
        self.coverage = {}        # action name -> (distinct, generated)
        self.wall = 0.0
        self.cmd = ''
        self.stdout_tail = ''
        self.returncode = None
        self.post_failed = False

    @property
    def ok(self):
        return not self.errors and not self.violated and not self.post_failed

    def summary(self):
        return dict(cmd=self.cmd, generated=self.generated, distinct=self.distinct, depth=self.depth,
                    violated=self.violated, wall_s=round(self.wall, 2),
                    coverage={k: list(v) for k, v in self.coverage.items()})


def _decode_printed(line, out, junk):
    s = line.strip()
    if not s.startswith('"'):
        return False
    # one or more TLA+ string literals on the line (several workers may share a line)
    pos = 0
    found = False
    for m in _STR.finditer(s):
        raw = m.group(0)
        try:
            inner = json.loads(raw)
        except ValueError:
            junk.append(raw[:200])
            continue
        if inner[:1] in '{[':
            try:
                val = json.loads(inner)
            except ValueError:
                junk.append(inner[:200])
                continue
            out.append(val)
            found = True
        pos = m.end()
    return found


def run(module, cfg, workdir, **kw):
    """Run TLC; when the JVM is killed from outside (rc -9 / 137: the kernel's OOM killer on an overloaded box) and no
    PrintT value has been handed to a callback yet, try once more with a smaller heap and fewer workers."""
    delivered = [0]
    cb = kw.get('on_json')
    if cb is not None:
        def counting(x, _cb=cb):
            delivered[0] += 1
            _cb(x)
        kw['on_json'] = counting
    try:
        return _run(module, cfg, workdir, **kw)
    except TLCKilled:
        if delivered[0]:
            raise
        time.sleep(20)
        kw['workers'] = max(1, min(int(kw.get('workers', 16)), 6))
        kw['jvm'] = tuple(kw.get('jvm', ())) + ('-Xmx3g',)
        return _run(module, cfg, workdir, **kw)


def _run(module, cfg, workdir, workers=16, timeout=600, coverage=False, simulate=None, depth=None,
         seed=None, env=None, deadlock=None, extra=(), jvm=(), dfs=False, spec_dir=None, on_json=None):
    """Run TLC on spec/<module>.tla with spec/<cfg>.  Returns TLCResult.  Raises TLCError on machinery failure."""
    spec_dir = spec_dir or SPEC_DIR
    os.makedirs(workdir, exist_ok=True)
    meta = os.path.join(workdir, 'meta-%s-%d' % (os.path.basename(cfg), int(time.time() * 1000) % 10 ** 9))
    cmd = ['java', '-XX:+UseParallelGC', '-Xmx6g', '-Xss32m']
    if dfs:
        cmd.append('-Dtlc2.tool.queue.IStateQueue=StateDeque')
    cmd += list(jvm)
    cmd += ['-cp', JAR + ':' + DEPS, 'tlc2.TLC', '-workers', str(workers), '-metadir', meta, '-noGenerateSpecTE']
    if coverage:
        cmd += ['-coverage', '1']
    if simulate:
        cmd += ['-simulate', simulate]
    if depth:
        cmd += ['-depth', str(depth)]
    if seed is not None:
        cmd += ['-seed', str(seed)]
    if deadlock is False:
        cmd += ['-deadlock']
    cmd += list(extra)
    cmd += ['-config', cfg, module + '.tla' if not module.endswith('.tla') else module]
    e = dict(os.environ)
    if env:
        e.update({k: str(v) for k, v in env.items()})
    res = TLCResult()
    res.cmd = ' '.join(cmd[cmd.index('tlc2.TLC'):])
    t0 = time.time()
    junk = []
    in_beh = False
    beh = []
    tail = collections.deque(maxlen=80)
    sink = res.printed if on_json is None else _Sink(on_json)
    timed_out = False
    p = subprocess.Popen(cmd, cwd=spec_dir, env=e, stdout=subprocess.PIPE, stderr=subprocess.STDOUT, text=True,
                         errors='replace', bufsize=1 << 20)
    timer = threading.Timer(timeout, p.kill)
    timer.start()
    try:
        for line in p.stdout:
            line = line.rstrip('\n')
            if line.startswith('"'):
                _decode_printed(line, sink, junk)
                continue
            tail.append(line)
            m = _STATES.search(line)
            if m:
                res.generated, res.distinct, res.queue = int(m.group(1)), int(m.group(2)), int(m.group(3))
                in_beh = False
                continue
            m = _SIM.search(line)
            if m:
                res.generated = max(res.generated, int(m.group(1)))
            m = _DEPTH.search(line)
            if m:
                res.depth = int(m.group(1))
            m = _COV.match(line)
            if m:
                name = m.group(1)
                d, g = int(m.group(4)), int(m.group(5))
                pd, pg = res.coverage.get(name, (0, 0))
                res.coverage[name] = (pd + d, pg + g)
                continue
            if line.startswith('Error:'):
                in_beh = True
                mm = re.match(r'Error: Invariant (\S+) is violated', line)
                if mm:
                    res.violated.append(mm.group(1))
                elif re.match(r'Error: Action property (\S+)', line):
                    res.violated.append(re.match(r'Error: Action property (\S+)', line).group(1))
                elif 'Temporal properties were violated' in line:
                    res.violated.append('TemporalProperty')
                elif 'The behavior up to this point is' in line or 'The following behavior constitutes' in line:
                    pass
                elif 'ostcondition' in line or 'POSTCONDITION' in line:
                    res.post_failed = True
                    res.errors.append(line)
                elif 'Deadlock reached' in line:
                    res.violated.append('Deadlock')
                else:
                    res.errors.append(line)
            if in_beh:
                if line.startswith('The coverage statistics'):
                    in_beh = False
                elif len(beh) < 400:
                    beh.append(line)
        p.wait()
    finally:
        timed_out = not timer.is_alive() and p.returncode is not None and p.returncode < 0
        timer.cancel()
        res.wall = time.time() - t0
        shutil.rmtree(meta, ignore_errors=True)
    if timed_out:
        raise TLCError('TLC timed out after %ss: %s' % (timeout, res.cmd))
    res.returncode = p.returncode
    res.nprinted = sink.count if isinstance(sink, _Sink) else len(res.printed)
    lines = list(tail)
    res.behaviour = '\n'.join(beh[:400])
    res.stdout_tail = '\n'.join(lines[-60:])
    if junk:
        raise TLCError('unparsable PrintT output (%d fragments), e.g. %r' % (len(junk), junk[:2]))
    # machinery failures: parse/semantic errors, JVM crashes, evaluation errors that are not property violations
    hard = [x for x in res.errors if not x.startswith('Error: The behavior') and 'Postcondition' not in x
            and 'postcondition' not in x.lower()]
    if res.violated:
        # "Error: Evaluating invariant ... failed" etc. are hard errors even next to a violation
        hard = [x for x in hard if 'violated' not in x and 'The error occurred' not in x]
    if hard and not res.violated:
        raise TLCError('TLC failed: %s\n--- tail ---\n%s' % (hard[:3], res.stdout_tail))
    if p.returncode in (-9, 137) and not res.violated:
        raise TLCKilled('TLC was killed (rc=%s): %s' % (p.returncode, res.cmd))
    if not res.generated and not res.violated and p.returncode != 0:
        raise TLCError('TLC produced no state count (rc=%s)\n%s' % (p.returncode, res.stdout_tail))
    return res


def sany(path):
    p = subprocess.run(['java', '-cp', JAR + ':' + DEPS, 'tla2sany.SANY', path], cwd=os.path.dirname(path) or '.',
                       stdout=subprocess.PIPE, stderr=subprocess.STDOUT, text=True)
    bad = p.returncode != 0 or 'error' in p.stdout.lower().replace('semantic errors:\n\n', '')
    return (not bad), p.stdout
