"""The projection between the specification's abstract vocabulary (spec/BQLValues.tla, BQLExpr.tla, BQLSelect.tla)
and Python / beanquery objects.  Used by both conformance directions.

abstract value  : [t, n, d, s]  (JSON array; t in null bool int dec str date list ood) -- lists: {"t":"list","l":[..]}
                  or the record form {"t":..,"n":..,"d":..,"s":..,"l":[..]} inside expressions
abstract expr   : {"k":"const","v":V} {"k":"col","n":..} {"k":"un","op":..,"a":E} {"k":"bin","op":..,"a":E,"b":E}
                  {"k":"between","a":E,"lo":E,"hi":E} {"k":"and"|"or","args":[E..]} {"k":"call","f":..,"args":[E..]}
                  {"k":"agg","f":..,"a":E|"*"}   (BQLSelect)
"""
import datetime
import decimal
import fractions

from beanquery.parser import ast

D = decimal.Decimal
LIM = 30000
TOL = fractions.Fraction(1, 10 ** 20)


class OutOfDomain(Exception):
    pass


# ---- values ------------------------------------------------------------------------------------------
def val_fields(v):
    """(t, n, d, s, l) from either encoding"""
    if isinstance(v, dict):
        return v['t'], v.get('n', 0), v.get('d', 1), v.get('s', ''), v.get('l', [])
    return v[0], v[1], v[2], v[3], []


def to_py(v):
    t, n, d, s, l = val_fields(v)
    if t == 'null':
        return None
    if t == 'bool':
        return bool(n)
    if t == 'int':
        return int(n)
    if t == 'dec':
        return dec_of(n, d)
    if t == 'str':
        return s
    if t == 'date':
        return datetime.date.fromordinal(n)
    if t == 'list':
        return [to_py(x) for x in l]
    raise OutOfDomain(t)


def _nonelike(base):
    """a value of type `base` whose equality with None is TRUE (as beancount's Position with zero units has it): in a column
    of datatype object such values are ordinary non-NULL values -- BQL's NULL is the identity `is None`, not equality"""
    class NoneLike(base):
        __slots__ = ()

        def __eq__(self, other):
            return True if other is None else base.__eq__(self, other)

        def __ne__(self, other):
            return False if other is None else base.__ne__(self, other)

        __hash__ = base.__hash__
    NoneLike.__name__ = NoneLike.__qualname__ = base.__name__
    return NoneLike


_NONELIKE = {int: _nonelike(int), D: _nonelike(D), str: _nonelike(str), datetime.date: _nonelike(datetime.date)}


def to_py_object(v):
    """realisation of an abstract value inside a column of datatype object: the same value, of a subclass with an unusual
    equality (bools and NULL stay as they are)"""
    x = to_py(v)
    cls = _NONELIKE.get(type(x))
    if cls is None:
        return x
    if cls is _NONELIKE[datetime.date]:
        return cls(x.year, x.month, x.day)
    return cls(x)


def dec_of(n, d):
    """exact Decimal for n/d when d = 2^a 5^b, else the 28-digit quotient"""
    with decimal.localcontext() as c:
        c.prec = 60
        return D(n) / D(d)


def from_py(x):
    """Python value -> [t, n, d, s]; Decimals become the small rational they approximate (else ood)."""
    if x is None:
        return ['null', 0, 1, '']
    if x is True or x is False:
        return ['bool', int(x), 1, '']
    if isinstance(x, int):
        return ['int', x, 1, ''] if abs(x) <= LIM else ['ood', 0, 1, '']
    if isinstance(x, D):
        if not x.is_finite():
            return ['ood', 0, 1, '']
        f = fractions.Fraction(x)
        g = f.limit_denominator(LIM)
        if abs(g.numerator) > LIM or abs(f - g) > TOL * max(1, abs(f)) or not _terminating(g.denominator):
            return ['ood', 0, 1, '']
        if f != g:
            return ['ood', 0, 1, '']            # an inexact 28-digit result: outside the exact-rational model
        return ['dec', g.numerator, g.denominator, '']
    if isinstance(x, str):
        return ['str', 0, 1, x]
    if isinstance(x, datetime.date):
        return ['date', x.toordinal(), 1, '']
    if type(x).__name__ == 'Inventory':
        # the inventory realisation of an int (see int_as_inventory): empty = 0, one costless USD position = its number
        pos = list(x)
        if not pos:
            return ['int', 0, 1, '']
        if len(pos) == 1 and pos[0].cost is None and pos[0].units.currency == 'USD' and pos[0].units.number == int(pos[0].units.number):
            return from_py(int(pos[0].units.number))
    return ['other:' + type(x).__name__, 0, 1, '']


def int_as_inventory(n):
    """an int realised as a beancount Inventory of n USD (NULL stays NULL): sum / first / last / count over such a column are
    the int aggregates under the projection above, while the cells are mutable objects that outlive the statement"""
    if n is None:
        return None
    from beancount.core import inventory, amount
    inv = inventory.Inventory()
    inv.add_amount(amount.Amount(D(n), 'USD'))
    return inv


def _terminating(d):
    for p in (2, 5):
        while d % p == 0:
            d //= p
    return d == 1


def same_value(spec, got):
    """spec value [t,n,d,s] vs observed Python value; returns (ok, skipped)"""
    t = spec[0]
    if t == 'ood':
        return True, True
    g = from_py(got)
    if g[0] == 'ood':
        return True, True
    if t == 'dec':
        # exact type and rational value (the observed Decimal approximates n/d to 28 digits)
        return (g[0] == 'dec' and g[1] == spec[1] and g[2] == spec[2]), False
    return g == list(spec[:4]), False


PYTYPE = {'int': int, 'dec': D, 'str': str, 'date': datetime.date, 'bool': bool, 'obj': object, 'list': list,
          'null': type(None)}


# ---- expressions -> beanquery AST ---------------------------------------------------------------------
UN = {'neg': ast.Neg, 'not': ast.Not, 'isnull': ast.IsNull, 'isnotnull': ast.IsNotNull}
BIN = {'mul': ast.Mul, 'div': ast.Div, 'mod': ast.Mod, 'add': ast.Add, 'sub': ast.Sub, 'eq': ast.Equal,
       'ne': ast.NotEqual, 'gt': ast.Greater, 'ge': ast.GreaterEq, 'lt': ast.Less, 'le': ast.LessEq,
       'match': ast.Match, 'notmatch': ast.NotMatch, 'in': ast.In, 'notin': ast.NotIn}


def is_star(a):
    return a == '*' or (isinstance(a, dict) and a.get('k') == 'star')


def expr_ast(e):
    k = e['k']
    if k == 'const':
        return ast.Constant(to_py(e['v']))
    if k == 'col':
        return ast.Column(e['n'])
    if k == 'un':
        return UN[e['op']](expr_ast(e['a']))
    if k == 'bin':
        return BIN[e['op']](expr_ast(e['a']), expr_ast(e['b']))
    if k == 'between':
        return ast.Between(expr_ast(e['a']), expr_ast(e['lo']), expr_ast(e['hi']))
    if k == 'and':
        return ast.And([expr_ast(x) for x in e['args']])
    if k == 'or':
        return ast.Or([expr_ast(x) for x in e['args']])
    if k == 'call':
        return ast.Function(e['f'], [expr_ast(x) for x in e['args']])
    if k == 'agg':
        return ast.Function(e['f'], [ast.Asterisk()] if is_star(e['a']) else [expr_ast(e['a'])])
    if k == 'ph':
        return ast.Placeholder(e['n'])
    if k == 'insub':
        from harness import selectq
        return (ast.NotIn if e['neg'] else ast.In)(expr_ast(e['a']), selectq.query_ast(e['q'], e.get('table', 'g')))
    raise ValueError(k)


# ---- expressions -> BQL text (fully parenthesised: the text route only has to denote the same AST) ------
BINTXT = {'mul': '*', 'div': '/', 'mod': '%', 'add': '+', 'sub': '-', 'eq': '=', 'ne': '!=', 'gt': '>', 'ge': '>=',
          'lt': '<', 'le': '<=', 'match': '~', 'notmatch': '!~', 'in': 'IN', 'notin': 'NOT IN'}


def const_text(v):
    t, n, d, s, l = val_fields(v)
    if t == 'null':
        return 'NULL'
    if t == 'bool':
        return 'TRUE' if n else 'FALSE'
    if t == 'int':
        return str(n)
    if t == 'dec':
        x = dec_of(n, d)
        txt = format(x, 'f')
        if '.' not in txt:
            txt += '.0'
        return txt
    if t == 'str':
        if "'" in s:
            raise OutOfDomain('quote')
        return "'%s'" % s
    if t == 'date':
        return datetime.date.fromordinal(n).isoformat()
    if t == 'list':
        if not l:
            raise OutOfDomain('empty list literal is not expressible')
        return '(' + ', '.join(const_text(x) for x in l) + (',)' if len(l) == 1 else ')')
    raise OutOfDomain(t)


def expr_text(e):
    k = e['k']
    if k == 'const':
        t = const_text(e['v'])
        return '(%s)' % t if t.startswith('-') else t
    if k == 'col':
        return e['n']
    if k == 'un':
        a = expr_text(e['a'])
        return {'neg': '(- %s)', 'not': '(NOT %s)', 'isnull': '(%s IS NULL)', 'isnotnull': '(%s IS NOT NULL)'}[e['op']] % a
    if k == 'bin':
        return '(%s %s %s)' % (expr_text(e['a']), BINTXT[e['op']], expr_text(e['b']))
    if k == 'between':
        return '(%s BETWEEN %s AND %s)' % (expr_text(e['a']), expr_text(e['lo']), expr_text(e['hi']))
    if k in ('and', 'or'):
        return '(' + (' %s ' % k.upper()).join(expr_text(x) for x in e['args']) + ')'
    if k == 'call':
        return '%s(%s)' % (e['f'], ', '.join(expr_text(x) for x in e['args']))
    if k == 'agg':
        return '%s(%s)' % (e['f'], '*' if is_star(e['a']) else expr_text(e['a']))
    if k == 'insub':
        from harness import selectq
        return '(%s %s (%s))' % (expr_text(e['a']), 'NOT IN' if e['neg'] else 'IN', selectq.query_text(e['q'], e.get('table', 'g')))
    raise ValueError(k)


def expr_key(e):
    """short structural signature (operator skeleton) used for distinct / non-trivial accounting"""
    k = e['k']
    if k == 'const':
        return 'c:' + val_fields(e['v'])[0]
    if k == 'col':
        return '$' + e['n']
    if k == 'un':
        return '%s(%s)' % (e['op'], expr_key(e['a']))
    if k == 'bin':
        return '%s(%s,%s)' % (e['op'], expr_key(e['a']), expr_key(e['b']))
    if k == 'between':
        return 'between(%s,%s,%s)' % (expr_key(e['a']), expr_key(e['lo']), expr_key(e['hi']))
    if k in ('and', 'or'):
        return '%s(%s)' % (k, ','.join(expr_key(x) for x in e['args']))
    if k == 'call':
        return '%s(%s)' % (e['f'], ','.join(expr_key(x) for x in e['args']))
    if k == 'agg':
        return '%s[%s]' % (e['f'], '*' if is_star(e['a']) else expr_key(e['a']))
    if k == 'insub':
        from harness import selectq
        return '%s(%s,{%s})' % ('notin' if e['neg'] else 'in', expr_key(e['a']), selectq.q_key(e['q']))
    return k


def select_ast(targets, table, where=None, group_by=None, order_by=None, pivot_by=None, limit=None, distinct=None):
    """targets: list of (expr_ast, alias) or '*'"""
    tg = ast.Asterisk() if targets == '*' else [ast.Target(e, n) for e, n in targets]
    frm = ast.Table(table) if isinstance(table, str) else table
    return ast.Select(tg, frm, where, group_by, order_by, pivot_by, limit, distinct)
