"""Shared by C12 and C20: abstract ledgers / programs of spec/Balance.tla <-> real Beancount ledgers and BQL statements,
and the projection of Amount / Position / Inventory values into the specification's vocabulary.

Vocabulary (spec/Inventory.tla):  position = [[currency, [cost number, cost currency, cost date ordinal, label]], number]
with [0, "", 0, ""] for "no cost"; inventory = list of positions, one per lot key, sorted.  Numbers are exact
rationals here (fractions.Fraction) and integers in minor units in trace files.
"""
import datetime
import decimal
import json
from fractions import Fraction

NOCOST = [0, '', 0, '']
D = decimal.Decimal
META = {'filename': '<verif>', 'lineno': 0}


# ---- projection: code -> vocabulary ------------------------------------------------------------------------
def frac(x):
    return Fraction(x) if not isinstance(x, Fraction) else x


def costkey(cost):
    if cost is None:
        return (Fraction(0), '', 0, '')
    return (frac(cost.number), cost.currency, cost.date.toordinal() if cost.date else 0, cost.label or '')


def proj_position(pos):
    """Position / Posting -> ((currency, costkey), Fraction)"""
    return ((pos.units.currency, costkey(pos.cost)), frac(pos.units.number))


def proj_amount(amt):
    return ((amt.currency, costkey(None)), frac(amt.number))


def proj_inventory(inv):
    """Inventory -> {lot key: Fraction}; None -> None.  Duplicate keys or zero lots are kept visible."""
    if inv is None:
        return None
    out = {}
    for pos in inv:
        k, n = proj_position(pos)
        if k in out:
            out[('DUPLICATE',) + k] = n
        else:
            out[k] = n
    return out


def proj_any(v):
    from beancount.core import amount, inventory, position
    if isinstance(v, inventory.Inventory):
        return proj_inventory(v)
    if isinstance(v, position.Position):
        k, n = proj_position(v)
        return {k: n} if n != 0 else {}
    if isinstance(v, amount.Amount):
        k, n = proj_amount(v)
        return {k: n} if n != 0 else {}
    if v is None:
        return None
    raise TypeError('cannot project %r' % (v,))


def spec_inventory(positions, scale=1):
    """inventory emitted by TLC (list of [[cur, [cn, cc, cd, cl]], n]) -> {lot key: Fraction}; units are scaled"""
    out = {}
    for (cur, cost), n in positions:
        out[(cur, (Fraction(cost[0]), cost[1], cost[2], cost[3]))] = Fraction(n, scale)
    return out


def show_inv(d):
    if d is None:
        return None
    return sorted([[k[0], [str(k[1][0]), k[1][1], k[1][2], k[1][3]] if len(k) == 2 else list(map(str, k)), str(n)]
                  for k, n in d.items()], key=json.dumps)


class OutOfDomain(Exception):
    pass


def scaled_int(x, sc):
    v = frac(x) * sc
    if v.denominator != 1:
        raise OutOfDomain('not integral at scale %d: %s' % (sc, x))
    v = int(v)
    if abs(v) >= 2 ** 31 - 1:
        raise OutOfDomain('|%d| >= 2^31' % v)
    return v


def places(x):
    """decimal places needed to write the rational x exactly (OutOfDomain when it has no finite expansion)"""
    f = frac(x)
    d = f.denominator
    k = 0
    while d % 10 == 0:
        d //= 10
        k += 1
    k2 = k5 = 0
    while d % 2 == 0:
        d //= 2
        k2 += 1
    while d % 5 == 0:
        d //= 5
        k5 += 1
    if d != 1:
        raise OutOfDomain('no finite decimal expansion: %s' % f)
    return k + max(k2, k5)


def inv_places(d):
    return max([0] + [max(places(n), places(k[-1][0])) for k, n in d.items()])


def json_inventory(d, sc):
    """{lot key: Fraction} -> sorted [[cur, [cn, cc, cd, cl]], n] with integers at scale sc (trace files)"""
    out = []
    for k, n in d.items():
        if len(k) != 2:
            raise OutOfDomain('duplicate lot key in an inventory')
        cur, c = k
        out.append([[cur, [scaled_int(c[0], sc), c[1], c[2], c[3]]], scaled_int(n, sc)])
    out.sort(key=json.dumps)
    return out


def json_position(kn, sc):
    (cur, c), n = kn
    return [[cur, [scaled_int(c[0], sc), c[1], c[2], c[3]]], scaled_int(n, sc)]


# ---- abstract ledger -> Beancount entries --------------------------------------------------------------------
def mk_cost(c, cost_scale=1):
    from beancount.core import position
    if list(c) == NOCOST:
        return None
    return position.Cost(D(c[0]) / cost_scale, c[1], datetime.date.fromordinal(c[2]) if c[2] else None, c[3] or None)


def account_of(sel, grp):
    return 'Assets:%s:G%d' % ('Sel' if sel else 'Oth', grp)


def build_entries(ledger, mask, grp=None, prices=(), rng=None, scale=1, start=datetime.date(2021, 1, 4)):
    """Posting i (1-based, ledger order) carries meta pid = i, account Assets:Sel|Oth:G<grp>; consecutive postings are
    packed into transactions of 1..3 postings (seeded); dates never decrease.  Units are divided by `scale`."""
    from beancount.core import amount, data
    entries = []
    for b, q, d, r in sorted(prices):
        entries.append(data.Price(dict(META), datetime.date.fromordinal(d), b, amount.Amount(D(r), q)))
    date = start
    i = 0
    n = len(ledger)
    while i < n:
        size = 1 if rng is None else rng.choice((1, 1, 2, 3))
        posts = []
        for j in range(i, min(n, i + size)):
            (cur, cost), num = ledger[j]
            posts.append(data.Posting(account_of(mask[j], grp[j] if grp else 1), amount.Amount(D(num) / scale, cur),
                                      mk_cost(cost), None, None, {'pid': j + 1}))
        entries.append(data.Transaction(dict(META, lineno=i + 1), date, '*', None, 'generated %d' % (i + 1),
                                        frozenset(), frozenset(), posts))
        i += len(posts)
        if rng is None or rng.random() < 0.7:
            date += datetime.timedelta(days=1 if rng is None else rng.choice((1, 1, 2, 40)))
    return entries


_OPTS = None


def options():
    global _OPTS
    if _OPTS is None:
        from beancount.parser import options as bopts
        _OPTS = dict(bopts.OPTIONS_DEFAULTS)
    return dict(_OPTS)


def connect(entries):
    import beanquery
    return beanquery.connect('beancount:', entries=entries, errors=[], options=options())


# ---- abstract program -> BQL ---------------------------------------------------------------------------------
PID = "any_meta('pid')"
SUB_BAL = "SELECT any_meta('pid') FROM #postings WHERE NOT empty(balance)"
SUB_MASK = "SELECT any_meta('pid') FROM #postings WHERE account ~ ':Sel'"
MASKS = ("account ~ ':Sel'", "root(account, 2) = 'Assets:Sel'", "NOT account ~ ':Oth'")


def statement(prog, tid=0, rng=None, style=None):
    """BQL statement for an abstract program.  style: dict(mask=index | mask_text=.., split=n conjuncts moved to FROM,
    param='none'|'named'|'positional', table=bool) -- chosen by rng when not given.  Returns (text, params, columns,
    parts) where columns describes the targets ('pid' | 'B' | 'S' | 'P' | 'A') and parts = (targets, from, where) feeds
    select()."""
    style = dict(style or {})
    if rng is not None:
        style.setdefault('mask', rng.randrange(len(MASKS)))
        style.setdefault('split', rng.randint(0, len(prog['where'])))
        style.setdefault('param', rng.choice(('none', 'none', 'named', 'positional')))
        style.setdefault('table', rng.random() < 0.5)
    mask = style.get('mask_text') or MASKS[style.get('mask', 0)]
    param = style.get('param', 'none')
    params = None
    sub = SUB_BAL if prog['subbal'] else SUB_MASK.replace(MASKS[0], style.get('mask_text') or MASKS[0])
    has_p = 'P' in prog['where'] or 'P' in prog['targets']
    if param == 'named' and has_p:
        pause = 'pause(%(tid)s)'
        params = {'tid': tid}
    elif param == 'positional' and has_p:
        pause = 'pause(%s)'        # only the first textual occurrence is parameterised
        params = (tid,)
    else:
        pause = 'pause(%d)' % tid
    used = [False]

    def pz():
        if param == 'positional' and has_p:
            if used[0]:
                return 'pause(%d)' % tid
            used[0] = True
        return pause
    conj = []
    for a in prog['where']:
        conj.append({'M': mask, 'BT': '(empty(balance) OR NOT empty(balance))', 'BN': 'NOT empty(balance)',
                     'S': '(%s IN (%s) OR TRUE)' % (PID, sub)}.get(a) or pz())
    cols = []
    tg = []
    if prog.get('agg'):
        for a in prog['targets']:
            if a != 'A':
                raise ValueError('aggregate programs have the single target A')
            tg.append(('sum(position)', 's'))
            cols.append('A')
    else:
        tg.append((PID, 'pid'))
        cols.append('pid')
        for n, a in enumerate(prog['targets']):
            if a == 'B':
                tg.append(('balance', 'b%d' % n))
            elif a == 'S':
                tg.append(('%s IN (%s)' % (PID, sub), 's%d' % n))
            elif a == 'P':
                tg.append((pz(), 'p%d' % n))
            else:
                raise ValueError(a)
            cols.append(a)
    split = min(style.get('split', 0), len(conj))
    from_ = conj[:split] if split else ('#postings' if style.get('table') else None)
    parts = (tg, from_, conj[split:])
    return select_text(*parts), params, cols, parts


def select_text(targets, from_=None, where=(), group_by=None):
    text = 'SELECT ' + ', '.join('%s AS %s' % t for t in targets)
    if isinstance(from_, list):
        text += ' FROM ' + ' AND '.join(from_)
    elif isinstance(from_, str):
        text += ' FROM ' + from_
    elif from_ is not None:
        text += ' FROM (%s)' % select_text(*from_)
    if where:
        text += ' WHERE ' + ' AND '.join(where)
    if group_by:
        text += ' GROUP BY ' + ', '.join(group_by)
    return text


_FRAG = {}


def fragment(expr):
    """AST of one expression.  TatSu needs 20-300 ms per statement (parenthesised subqueries are the worst), so the
    statements of the semantic legs are ASSEMBLED from the parsed fragments (Cursor.execute accepts ASTs; every target
    is aliased because an assembled node has no source text); a sample is also submitted as text."""
    from beanquery import parser
    if expr == 'pause(%s)':
        # the compiler numbers positional placeholders by source position: keep the parse info, renew the node
        if expr not in _FRAG:
            _FRAG[expr] = parser.parse('SELECT pause(%s) AS x').targets[0].expression.operands[0].parseinfo
        return parser.ast.Function('pause', [parser.ast.Placeholder('', parseinfo=_FRAG[expr])])
    if expr == 'pause(%(tid)s)':
        return parser.ast.Function('pause', [parser.ast.Placeholder('tid')])
    if expr not in _FRAG:
        _FRAG[expr] = parser.parse('SELECT %s AS x' % expr).targets[0].expression
    return _FRAG[expr]


def select(targets, from_=None, where=(), group_by=None):
    from beanquery import parser
    ast = parser.ast

    def conj(xs):
        nodes = [fragment(x) for x in xs]
        return None if not nodes else nodes[0] if len(nodes) == 1 else ast.And(nodes)
    tg = [ast.Target(fragment(e), name) for e, name in targets]
    if isinstance(from_, list):
        fc = ast.From(expression=conj(from_))
    elif isinstance(from_, str):
        fc = ast.Table(from_.lstrip('#'))
    elif from_ is not None:
        fc = select(*from_)
    else:
        fc = None
    gb = ast.GroupBy([ast.Column(g) for g in group_by], None) if group_by else None
    return ast.Select(tg, fc, conj(where), gb, None, None, None, None)


_PARSED = {}


def parsed(text):
    from beanquery import parser
    if text not in _PARSED:
        _PARSED[text] = parser.parse(text)
    return _PARSED[text]


def run_program(conn, prog, tid=0, rng=None, style=None, as_text=False):
    """execute the program's statement; returns rows in the specification's shape:
    non-aggregate: [rowid, [balance values as {key: Fraction}], [S values as 0/1/2]]; aggregate: [0, [sum], []]"""
    text, params, cols, parts = statement(prog, tid, rng, style)
    cur = conn.execute(text if as_text else select(*parts), params)
    return project_rows(cur.fetchall(), cols), text


def run_select(conn, targets, from_=None, where=(), group_by=None, as_text=False):
    return conn.execute(select_text(targets, from_, where, group_by) if as_text
                        else select(targets, from_, where, group_by)).fetchall()


def project_rows(raw, cols):
    rows = []
    for r in raw:
        if cols == ['A']:
            rows.append([0, [proj_inventory(r[0])], []])
            continue
        vals, svals = [], []
        for v, c in zip(r, cols):
            if c == 'B':
                vals.append(proj_inventory(v))
            elif c == 'S':
                svals.append(2 if v is None else (1 if v else 0))
        rows.append([r[0], vals, svals])
    return rows


def expected_rows(spec_rows, prog, scale=1):
    """rows emitted by TLC ([rowid, [inventory...], sval]) in the same shape as project_rows"""
    ns = sum(1 for a in prog['targets'] if a == 'S')
    out = []
    for rowid, vals, sval in spec_rows:
        out.append([rowid, [spec_inventory(v, scale) for v in vals], [] if prog.get('agg') else [sval] * ns])
    return out


def rows_to_trace(rows, sc):
    """projected rows -> the `rows` field of serial / end trace lines (S values are not part of the trace)"""
    return [[r[0], [json_inventory(v, sc) if v is not None else [[['NULL', NOCOST], 1]] for v in r[1]]] for r in rows]


def prog_to_trace(prog, ledger_positions=None, sc=1):
    p = {'ledger': ledger_positions if ledger_positions is not None else prog['ledger'],
         'mask': [bool(m) for m in prog['mask']], 'where': list(prog['where']), 'targets': list(prog['targets']),
         'subbal': bool(prog['subbal']), 'agg': bool(prog.get('agg', False))}
    return p


def rows_scale(rows):
    k = 0
    for r in rows:
        for v in r[1]:
            if v:
                k = max(k, inv_places(v))
    return k


def shape_key(prog):
    return 'where=%s:targets=%s%s' % (','.join(prog['where']) or '-', ','.join(prog['targets']) or '-',
                                      '' if prog['subbal'] or 'S' not in list(prog['where']) + list(prog['targets']) else ':plain-subquery')


def interposed_between_references(prog):
    """the program evaluates a balance-consulting subquery scan after one reference to balance and before another
    one in the same row: the one shape on which the process-wide one-entry cache double counts in a single thread"""
    if not prog['subbal']:
        return False
    seq = list(prog['where']) + list(prog['targets'])
    seen_b = False
    after_s = False
    for a in seq:
        if a in ('B', 'BT', 'BN'):
            if after_s:
                return True
            seen_b = True
        elif a == 'S' and seen_b:
            after_s = True
    # a reference after the subquery in a LATER row is harmless (the subquery runs once); but where = [.., S], with the
    # first reference of row 1 before it, is covered above
    return False
