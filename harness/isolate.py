"""C20 only: abstract jobs of spec/Isolate.tla <-> real connections, statements, parameter containers and pause points.

A job (vocabulary of Isolate.tla) is
  {conn, ledger: [{u, posts: [v..], ty}..], tab: 'e'|'p'|'x', ty, star, targets: [{k, i}..], where: [{k, i}..], lo, hi, lit,
   wpause, ppause, parse, sub: [c..], via: 'cursor'|'conn', fetch: [n..]}
via: the statement is handed to `conn.cursor().execute(..)` (a cursor the thread made) or to the connection's own
`conn.execute(..)` shortcut; fetch: [] the thread takes description and rows as soon as execute() has returned,
otherwise the DELIVERY steps -- before each the thread hands the turn over (execute() has returned, nothing of the library
is running), then reads `description` and fetches n rows (1: fetchone() or fetchmany(1), n: fetchmany(n), 0: fetchall()).
Target atom {k: 'fn', i: 0, op: 'add'|'first', a, b} is a FUNCTION CALL over columns a and b with a run-time pause point
between the evaluation of its operands -- realised by the library's own functions date_add(date, int), round(int, int),
maxwidth(str, int); WHERE atoms 'flo' / 'fhi' are the tests of 'lo' / 'hi' written as date_diff(<value>, <key>) <= 0 / >= 0
with the value (literal or query parameter) as FIRST operand and the pause point inside the second.  sub: the statement
selects FROM (SELECT <column sub[0]> AS n<sub[0]>, ... FROM #table) and its atoms mean the names n<c>.
A connection is realised either as a Beancount ledger (tables #entries / #postings and, for tab 'x', the typed tables
#transactions / #prices / #events / #notes / #balances / #documents / #commodities: directive type ty; the abstract
columns are realised by real columns -- id, date, narration, payee, tags, links, lineno, account, number, currency,
amount.number, comment, ... -- whose values are decoded back to the identity of the directive / posting they show) or
as harness tables #e / #p / #x<ty> with integer columns k, a, b.

Pause points (all reached through public extension points, nothing inside the library is touched):
  run time      pause(tid) / ypoint()     BQL functions evaluated per row (pass_row=True: never folded)
  compile time  cpause(tid) / cyield()    PURE BQL functions of constants: the compiler folds them, i.e. calls them in the
                                          middle of the compilation, at their place in the statement
                wildcard_columns          property of the harness tables, asked by the compiler for SELECT *
                parameters[...]           __getitem__ of the mapping / sequence passed as query parameters
  parse time    job['parse'] = k > 0      the statement is submitted as TEXT and the thread is descheduled at k places
                                          INSIDE beanquery.parser.parse(): a sys.monitoring callback (nothing in the
                                          library is touched) counts the calls of the parser's rule methods, semantic
                                          actions and node constructors and hands the turn over at k of them, chosen
                                          by the case's `pick`
Python only drives, projects and compares: expected rows come from TLC (Gen_Isolate) or are judged by TLC (Trace_Isolate).
"""
import datetime
import decimal
import os
import sys
import threading

from harness import sched
from harness import tables as ht

BASE = datetime.date(2020, 1, 1).toordinal()
FOREIGN = -1       # a value that does not belong to any directive of the case
NULL = -2
_flags = threading.local()
_reg_lock = threading.Lock()


def _hand_over(arg=None):
    s = getattr(sched._local, 'sched', None)
    if s is not None:
        s.pause(getattr(sched._local, 'tid', None) if arg is None else arg)


def _hand_over_deep():
    """_hand_over() for a thread that may be deep inside the parser.  Once it has given up the turn the thread makes NO
    Python-level call until it is back in the library's frames (C calls and returns only, the turn is polled): another
    thread may lower the interpreter's recursion limit below this thread's depth meanwhile, and the RecursionError that
    follows belongs to the library's next call, not to the scheduler half-way through releasing its lock."""
    import time
    s = getattr(sched._local, 'sched', None)
    if s is None:
        return
    tid = getattr(sched._local, 'tid', None)
    acquire, release, sleep, now = s.cv.acquire, s.cv.release, time.sleep, time.monotonic
    discard = s.waiting.discard
    diverged, failure = sched.ScheduleDiverged, sched.MachineryError
    acquire()
    try:
        if s.holder != tid:
            s._fail('thread %s reached a pause point inside the parser without holding the turn (holder %s)' % (tid, s.holder))
            raise s.error
        s.holder = None
        s.waiting.add(tid)
        s._grant_next()
    except BaseException:
        release()
        raise
    while True:          # the lock is held here
        if s.holder == tid:
            discard(tid)
            release()
            return
        err, div, late = s.error, s.diverged, now() > s.deadline
        release()
        if err is not None:
            raise err
        if div:
            raise diverged(div)
        if late:
            raise failure('scheduler: a thread paused inside the parser waited too long for its turn')
        sleep(0.0005)
        acquire()


def register():
    """cpause(int) / cyield(): pure, hence folded = called while the statement is compiled; ypoint(): per row"""
    from beanquery import query_compile, query_env
    sched.register()
    with _reg_lock:
        if any(getattr(f, '_verif_iso', False) for f in query_compile.FUNCTIONS.get('cpause', [])):
            return

        @query_env.function([int], int, name='cpause')
        def cpause(tid):
            _hand_over(tid)
            return tid

        @query_env.function([], int, name='cyield')
        def cyield():
            _hand_over()
            return 0

        @query_env.function([], int, pass_row=True, name='ypoint')
        def ypoint(row):
            _hand_over()
            return 0
        for name in ('cpause', 'cyield', 'ypoint'):
            query_compile.FUNCTIONS[name][-1]._verif_iso = True


# ---- parameter containers and tables with pause points -------------------------------------------------------------
class PausingDict(dict):
    def __getitem__(self, key):
        value = dict.__getitem__(self, key)
        _hand_over()
        return value


class PausingTuple(tuple):
    def __getitem__(self, key):
        value = tuple.__getitem__(self, key)
        _hand_over()
        return value


class HookTable(ht.HarnessTable):
    """harness table; the compiler asks `wildcard_columns` for SELECT *: a pause point for the threads that want one"""

    @property
    def wildcard_columns(self):
        if getattr(_flags, 'wpause', False):
            _hand_over()
        return tuple(n for n, _ in self.colspec[:3])


# the harness tables: integer columns k, a, b (the abstract columns) and, outside SELECT *, the same values as dates
HOOK_COLS = [('k', 'int'), ('a', 'int'), ('b', 'int'), ('kd', 'date'), ('ad', 'date'), ('bd', 'date')]
DAY0 = '2020-01-01'        # BASE as a BQL literal


def hook_rows(rows):
    return [tuple(r) + tuple(datetime.date.fromordinal(BASE + v) for v in r) for r in rows]


# ---- abstract tables (the same definition as TableRows in Isolate.tla; used to BUILD the data, never to judge) --------
def table_rows(ledger, tab, ty=0):
    if tab == 'e':
        return [(d['u'], d['u'], d['u']) for d in ledger]
    if tab == 'x':
        return [(d['u'], d['u'], d['u']) for d in ledger if d.get('ty', 0) == ty]
    return [(v, d['u'], v) for d in ledger for v in d['posts']]


def mixed(ledger):
    return any(d.get('ty', 0) for d in ledger)


# ---- realisation: Beancount ledger ------------------------------------------------------------------------------------
def build_entries(ledger):
    from beancount.core import amount, data
    entries = []
    for d in ledger:
        u = d['u']
        ty = d.get('ty', 0)
        if ty:
            meta = {'filename': '<verif>', 'lineno': u}
            day = datetime.date.fromordinal(BASE + u)
            amt = amount.Amount(decimal.Decimal(u), 'USD')
            one = lambda c: frozenset(['%s%d' % (c, u)])      # noqa
            entries.append({
                1: lambda: data.Price(meta, day, 'C%d' % u, amt),
                2: lambda: data.Event(meta, day, 't%d' % u, 'n%d' % u),
                3: lambda: data.Note(meta, day, 'Assets:A%d' % u, 'n%d' % u, one('t'), one('l')),
                4: lambda: data.Balance(meta, day, 'Assets:A%d' % u, amt, None, None),
                5: lambda: data.Document(meta, day, 'Assets:A%d' % u, 'n%d' % u, one('t'), one('l')),
                6: lambda: data.Commodity(meta, day, 'C%d' % u),
            }[ty]())
            continue
        posts = [data.Posting('Assets:A%d' % v, amount.Amount(decimal.Decimal(v), 'USD'), None, None, None,
                              {'filename': '<verif>', 'lineno': v}) for v in d['posts']]
        entries.append(data.Transaction({'filename': '<verif>', 'lineno': u}, datetime.date.fromordinal(BASE + u), '*',
                                        'p%d' % u, 'n%d' % u, frozenset(['t%d' % u]), frozenset(['l%d' % u]), posts))
    return entries


def _one(s):
    return next(iter(s)) if s else None


def _tail(prefix):
    def f(v, idmap):
        if v is None:
            return NULL
        v = _one(v) if isinstance(v, (set, frozenset)) else v
        if not isinstance(v, str) or not v.startswith(prefix):
            return FOREIGN
        try:
            return int(v[len(prefix):])
        except ValueError:
            return FOREIGN
    return f


def _num(v, idmap):
    if v is None:
        return NULL
    if isinstance(v, datetime.date):
        return v.toordinal() - BASE
    try:
        return int(v) if int(v) == v else FOREIGN
    except (TypeError, ValueError, ArithmeticError):
        return FOREIGN


def _id(v, idmap):
    return NULL if v is None else idmap.get(v, FOREIGN)


def _units(v, idmap):
    if v is None:
        return NULL
    return _num(getattr(v, 'units', v).number, idmap)


def _desc(v, idmap):
    # description = "payee | narration"
    return NULL if v is None else _tail('p')(v.split(' | ')[0], idmap)


# (expression, decoder) of every real column whose value identifies ...
# The directive columns are the SAME accessor objects in both tables (PostingsTable.columns starts as a copy of
# EntriesTable.columns): one list for both, so that concurrent scans of different tables meet in one accessor.
DIRECTIVE_COLS = [       # ... the directive (both tables)
    ('id', _id), ('narration', _tail('n')), ('date', _num), ('payee', _tail('p')), ('links', _tail('l')),
    ('tags', _tail('t')), ('description', _desc),
]
E_OWN_COLS = [('lineno', _num)] + DIRECTIVE_COLS[3:] + DIRECTIVE_COLS[:3]
POSTING_COLS = [         # ... the posting (postings table)
    ('account', _tail('Assets:A')), ('number', _num), ('lineno', _num), ('units(position)', _units), ('position', _units),
    ("meta('lineno')", _num), ('leaf(account)', _tail('A')), ('weight', _units), ("any_meta('lineno')", _num),
]
KEY_COL = ('lineno', _num)       # int on both tables: the directive's / the posting's own number
# a ledger with directives of several types: the #entries columns that every directive has
MIXED_COLS = [('id', _id), ('date', _num), ('lineno', _num)]
# the typed tables (tab 'x'): directive type -> table name, columns identifying the directive; the key column is `date`
TYPED_TABLE = {0: 'transactions', 1: 'prices', 2: 'events', 3: 'notes', 4: 'balances', 5: 'documents', 6: 'commodities'}
_LINENO = ("meta['lineno']", _num)
TYPED_COLS = {
    0: [('narration', _tail('n')), ('payee', _tail('p')), ('tags', _tail('t')), ('links', _tail('l')), ('date', _num), _LINENO],
    1: [('currency', _tail('C')), ('amount.number', _num), ('number(amount)', _num), ('date', _num), _LINENO],
    2: [('type', _tail('t')), ('description', _tail('n')), ('date', _num), _LINENO],
    3: [('account', _tail('Assets:A')), ('comment', _tail('n')), ('tags', _tail('t')), ('links', _tail('l')), ('date', _num),
        _LINENO],
    4: [('account', _tail('Assets:A')), ('amount.number', _num), ('date', _num), _LINENO],
    5: [('account', _tail('Assets:A')), ('filename', _tail('n')), ('tags', _tail('t')), ('links', _tail('l')), ('date', _num),
        _LINENO],
    6: [('name', _tail('C')), ('date', _num), _LINENO],
}
TYPED_KEY = ('date', _num)       # compared with DATE values: day BASE + key


def ledger_column(tab, i, pick, ty=0, mixed_ledger=False):
    """abstract column i of table tab -> (BQL expression, decoder); pick: an integer choosing among the real columns"""
    if tab == 'x':
        cols = TYPED_COLS[ty]
        return TYPED_KEY if i == 1 else cols[(pick + i) % len(cols)]
    if i == 1:
        return KEY_COL
    if tab == 'e' and mixed_ledger:
        return MIXED_COLS[(pick + i) % len(MIXED_COLS)]
    if i == 2:
        return DIRECTIVE_COLS[pick % len(DIRECTIVE_COLS)]
    own = E_OWN_COLS if tab == 'e' else POSTING_COLS
    return own[pick % len(own)]


# ---- a case: jobs + style -> connections, statements, parameters -------------------------------------------------------
class Case:
    """jobs: list of abstract jobs; the style is a function of the integer `pick` (stored in replay files):
       kinds {conn: 'ledger'|'tables'}, the real column standing for each abstract column (ONE per case and column class:
       all the threads of a case meet in the same accessors), params 'named'|'positional', anon (pause points without
       the thread id in the text), submit 'ast'|'text'|'shared-ast' (a job with parse > 0 is always submitted as text)"""

    def __init__(self, jobs, pick):
        import random
        for j in jobs:
            j.setdefault('sub', [])        # replay files written before FROM-subqueries existed
            j.setdefault('via', 'cursor')  # ... before the delivery steps existed
            j.setdefault('fetch', [])
        self.descs = {}                    # {tid: [description read at each delivery step, as target kinds]}
        self.jobs = jobs
        self.pick = pick
        r = random.Random(pick)
        need_tables = {j['conn'] for j in jobs if j['star'] or j['wpause']}
        self.kinds = {}
        for c in sorted({j['conn'] for j in jobs}):
            self.kinds[c] = 'tables' if c in need_tables or r.random() < 0.125 else 'ledger'
        self.params = r.choice(('named', 'positional'))
        self.anon = r.random() < 0.34
        self.opform = (pick // 3) % 3 == 0      # calls written with binary operators (+, -) instead of functions
        x = r.random()
        self.submit = 'text' if x < 0.05 else 'shared-ast' if x < 0.3 else 'ast'
        self.conns = {}
        self.idmap = {}
        self._shared = {}
        self._build()

    def _build(self):
        import beanquery
        from beancount.core import compare
        from beancount.parser import options as bopts
        ledgers = {}
        for j in self.jobs:
            ledgers.setdefault(j['conn'], j['ledger'])
        for c, ledger in ledgers.items():
            entries = build_entries(ledger)
            for d, e in zip(ledger, entries):
                self.idmap[compare.hash_entry(e)] = d['u']
            if self.kinds[c] == 'ledger':
                self.conns[c] = beanquery.connect('beancount:', entries=entries, errors=[],
                                                  options=dict(bopts.OPTIONS_DEFAULTS))
            else:
                typed = sorted({j['ty'] for j in self.jobs if j['conn'] == c and j['tab'] == 'x'})
                self.conns[c] = ht.connection(HookTable('e', HOOK_COLS, hook_rows(table_rows(ledger, 'e'))),
                                              HookTable('p', HOOK_COLS, hook_rows(table_rows(ledger, 'p'))),
                                              *[HookTable('x%d' % ty, HOOK_COLS, hook_rows(table_rows(ledger, 'x', ty)))
                                                for ty in typed])

    def column(self, job, i):
        if self.kinds[job['conn']] == 'tables':
            return 'kab'[i - 1], _num
        return ledger_column(job['tab'], i, self.pick, job.get('ty', 0), mixed(job['ledger']))

    def views(self, job):
        """-> (as_int, as_date): abstract column / name c -> expression (text, builder) showing its value as an int / as
        the day BASE + value: what the operands of the function calls are made of"""
        tables = self.kinds[job['conn']] == 'tables'
        if job['sub']:            # the names of a subquery that has calls above it are integers (see statement())
            return (lambda c: X('n%d' % c)), (lambda c: fcall('date_add', X(DAY0), X('n%d' % c)))
        if tables:
            return (lambda c: X('kab'[c - 1])), (lambda c: X(('kd', 'ad', 'bd')[c - 1]))
        if job['tab'] == 'p':     # row <<v, u, v>>: lineno shows the posting, date the directive
            return ((lambda c: fcall('date_diff', X('date'), X(DAY0)) if c == 2 else X('lineno')),
                    (lambda c: X('date') if c == 2 else fcall('date_add', X(DAY0), X('lineno'))))
        if job['tab'] == 'x':     # typed tables: every abstract column shows the directive; `date` is what they all have
            return (lambda c: fcall('date_diff', X('date'), X(DAY0))), (lambda c: X('date'))
        return (lambda c: X('lineno')), (lambda c: X('date'))

    def call(self, job, a, pause):
        """target atom fn -> (expression, decoder): the library's own functions, the pause point inside the SECOND operand"""
        as_int, as_date = self.views(job)
        if a['op'] == 'add' and self.opform:      # the binary operator: left operand, (pause point, right operand), apply
            return plus(as_int(a['a']), paren(plus(pause, as_int(a['b'])))), _num
        if a['op'] == 'add':
            return fcall('date_add', as_date(a['a']), plus(pause, as_int(a['b']))), _num
        plain = (self.kinds[job['conn']] == 'ledger' and not job['sub'] and job['tab'] in 'ep' and a['a'] == 2
                 and not mixed(job['ledger']))
        if plain and (self.pick // 7) % 2:
            name, dec = (('narration', _tail('n')), ('payee', _tail('p')))[(self.pick // 14) % 2]
            return fcall('maxwidth', X(name), plus(pause, as_int(a['b']))), dec       # the width is at least 10
        return fcall('round', as_int(a['a']), plus(pause, as_int(a['b']))), _num      # round(int, digits > 0) = int

    def statement(self, job, tid):
        """-> (text, parameters, decoders: one per output column or None for a pause target, value of the pause
        targets, build: a callable assembling a FRESH syntax tree of the same statement)"""
        from beanquery.parser import ast
        tables = self.kinds[job['conn']] == 'tables'
        rp = 'ypoint()' if self.anon else 'pause(%d)' % tid
        cp = 'cyield()' if self.anon else 'cpause(%d)' % tid
        val = 0 if self.anon else tid
        pause0 = X('ypoint()') if self.anon else X('(pause(%d) - %d)' % (tid, tid))      # a pause point worth 0
        atoms = list(job['targets']) + list(job['where'])
        calls = any(a['k'] in ('fn', 'flo', 'fhi') for a in atoms)
        sub = job['sub']
        # a FROM-subquery: (SELECT <column c> AS n<c>, ...); the columns as integers when function calls work on the names
        if sub and calls:
            as_int = Case.views(self, dict(job, sub=[]))[0]
            inner = {c: (as_int(c), _num) for c in sub}
        elif sub:
            inner = {c: (X(self.column(job, c)[0]), self.column(job, c)[1]) for c in sub}
        column = (lambda c: (X('n%d' % c), inner[c][1])) if sub else (lambda c: (X(self.column(job, c)[0]), self.column(job, c)[1]))
        decs = []
        tgs = []          # (expression, name)
        if job['star']:
            decs = [inner[c][1] for c in sub] if sub else [_num, _num, _num]
        else:
            for n, a in enumerate(job['targets']):
                if a['k'] == 'col':
                    expr, dec = column(a['i'])
                    tgs.append((expr, 'c%d' % n))
                    decs.append(dec)
                elif a['k'] == 'fn':
                    expr, dec = self.call(job, a, pause0)
                    tgs.append((expr, 'f%d' % n))
                    decs.append(dec)
                else:
                    tgs.append((X(rp if a['k'] == 'rp' else cp), '%s%d' % ('p' if a['k'] == 'rp' else 'q', n)))
                    decs.append(None)
        key = column(1)[0] if (not sub or 1 in sub) else None
        # the key of a typed table is its date column: bounds are dates there
        dated = job['tab'] == 'x' and not tables and not (sub and calls)
        day = lambda v: datetime.date.fromordinal(BASE + v)      # noqa
        kv = day if dated else (lambda v: v)
        conj = []         # (text, builder)
        names = []
        values = {}
        for a in job['where']:
            if a['k'] in ('lo', 'hi', 'flo', 'fhi'):
                which = a['k'][-2:]
                value = (kv if a['k'][0] != 'f' else (lambda v: v) if self.opform else day)(job[which])
                values[which] = value
                if job['lit']:
                    rhs, mk = str(value), (lambda v=value: ast.Constant(v))
                elif self.params == 'named':
                    rhs, mk = '%%(%s)s' % which, (lambda k=which: ast.Placeholder(k))
                else:
                    rhs, mk = '%s', (lambda n=len(names): ast.Placeholder('', parseinfo=_positional_info(n)))
                names.append(which)
                if a['k'] in ('lo', 'hi'):
                    cls = ast.GreaterEq if a['k'] == 'lo' else ast.LessEq
                    conj.append(('%s %s %s' % (key[0], '>=' if a['k'] == 'lo' else '<=', rhs),
                                 lambda cls=cls, mk=mk: cls(key[1](), mk())))
                else:
                    # date_diff(<value>, <the key as a date, a pause point inside>) <= 0 / >= 0
                    as_int, as_date = self.views(job)
                    cls = ast.LessEq if a['k'] == 'flo' else ast.GreaterEq
                    if self.opform:     # <value> - (<pause point> + <the key as an integer>) <= 0 / >= 0
                        ki = plus(pause0, as_int(1))
                        conj.append(('%s - (%s) %s 0' % (rhs, ki[0], '<=' if a['k'] == 'flo' else '>='),
                                     lambda cls=cls, mk=mk, ki=ki: cls(ast.Sub(mk(), ki[1]()), ast.Constant(0))))
                        continue
                    kd = as_date(1)
                    kd = fcall('date_add', kd, pause0) if '(' not in kd[0] else fcall('date_add', X(DAY0), plus(pause0, as_int(1)))
                    conj.append(('date_diff(%s, %s) %s 0' % (rhs, kd[0], '<=' if a['k'] == 'flo' else '>='),
                                 lambda cls=cls, mk=mk, kd=kd: cls(ast.Function('date_diff', [mk(), kd[1]()]), ast.Constant(0))))
            else:
                f = rp if a['k'] == 'rp' else cp
                conj.append(('%s = %d' % (f, val), lambda f=f: ast.Equal(fragment(f), ast.Constant(val))))
        if job['tab'] == 'x':
            table = 'x%d' % job['ty'] if tables else TYPED_TABLE[job['ty']]
        else:
            table = ('e' if job['tab'] == 'e' else 'p') if tables else ('entries' if job['tab'] == 'e' else 'postings')
        source = '#' + table
        if sub:
            source = '(SELECT %s FROM #%s)' % (', '.join('%s AS n%d' % (inner[c][0][0], c) for c in sub), table)
        text = 'SELECT %s FROM %s' % (', '.join('%s AS %s' % (e[0], n) for e, n in tgs) if tgs else '*', source)
        if conj:
            text += ' WHERE ' + ' AND '.join(c[0] for c in conj)
        params = None
        if not job['lit'] and names:
            if self.params == 'named':
                params = (PausingDict if job['ppause'] else dict)(
                    {k: values.get(k, kv(job[k])) for k in ('lo', 'hi')})
            else:
                params = (PausingTuple if job['ppause'] else tuple)(values[k] for k in names)

        def build():
            targets = [ast.Target(e[1](), name) for e, name in tgs] if tgs else ast.Asterisk()
            nodes = [c[1]() for c in conj]
            where = None if not nodes else nodes[0] if len(nodes) == 1 else ast.And(nodes)
            source = ast.Table(table)
            if sub:
                source = ast.Select([ast.Target(inner[c][0][1](), 'n%d' % c) for c in sub], source, None, None, None, None,
                                    None, None)
            return ast.Select(targets, source, where, None, None, None, None, None)
        return text, params, decs, val, build

    def runner(self, tid):
        """the callable thread `tid` runs: execute on its connection, fetch, project"""
        job = self.jobs[tid - 1]
        text, params, decs, val, build = self.statement(job, tid)
        conn = self.conns[job['conn']]
        nparse = job.get('parse', 0)
        places = []
        if nparse:
            # submitted as text; the places inside the parser where the thread is descheduled: a function of the pick
            import random
            stmt = text
            ncalls = parser_calls(text)
            r = random.Random(self.pick * 31 + tid)
            places = sorted(r.sample(range(1, ncalls + 1), nparse)) if ncalls >= nparse else [1] * nparse
        elif self.submit == 'text':
            stmt = text
        elif self.submit == 'shared-ast':
            stmt = self._shared.setdefault(text, build())      # threads with the same text share ONE syntax tree
        else:
            stmt = build()

        fetch = list(job['fetch'])
        one = (self.pick // 5) % 2 == 0       # a step of one row: fetchone() / fetchmany(1)

        def run():
            _flags.wpause = bool(job['wpause'])
            pauses = _ptl.state = ParserPauses(places) if nparse else None
            self.descs.pop(tid, None)
            descs = []
            try:
                if job['via'] == 'conn':
                    cur = conn.execute(stmt, params)       # the connection's shortcut: it returns the cursor with the results
                else:
                    cur = conn.cursor()
                    cur.execute(stmt, params)
                if pauses:
                    # an execution that did not go through parse() has its pause points here: the property does not say
                    # that a text is parsed anew every time, and the rows must not depend on where a thread waits
                    _ptl.state = None
                    pauses.flush()
                if not fetch:
                    descs.append(describe(cur.description, job))
                    raw = cur.fetchall()
                else:
                    raw = []
                    for n in fetch:
                        _hand_over()       # execute() has returned / between two fetches: other threads run now
                        descs.append(describe(cur.description, job))
                        if n == 0:
                            raw.extend(cur.fetchall())
                        elif n == 1 and one:
                            row = cur.fetchone()
                            if row is not None:
                                raw.append(row)
                        else:
                            raw.extend(cur.fetchmany(n))
            finally:
                _ptl.state = None
                _flags.wpause = False
                self.descs[tid] = descs
            return project(raw, decs, val, self.idmap)
        return run, text, params

    def describe(self):
        return {'kinds': {str(k): v for k, v in self.kinds.items()}, 'params': self.params, 'anon': self.anon,
                'submit': self.submit, 'pick': self.pick, 'calls': 'operators' if self.opform else 'functions',
                'as_text': [t for t, j in enumerate(self.jobs, 1) if j.get('parse')],
                'one_row_step': 'fetchone()' if (self.pick // 5) % 2 == 0 else 'fetchmany(1)'}


# ---- pause points inside the parser ------------------------------------------------------------------------------------
# sys.monitoring (PEP 669, CPython 3.12): a PY_START event on the code objects of beanquery/parser/*.py only -- the
# generated rule methods, the semantic actions, the syntax tree constructors -- and nowhere else, so that an execution
# costs what it costs without; nothing in the library is touched.  The callback acts only in a thread that carries a
# ParserPauses object (thread-local), i.e. in a scheduled thread executing a statement submitted as text.
_MON = {}
_ptl = threading.local()


class ParserPauses:
    """From the moment the thread enters beanquery.parser.parse() the function calls made in the parser's own modules
    are counted and the turn is handed over at the calls numbered `places`; what is left of them when parse() returns
    is handed over there (the number of pause points of a run does not depend on the parser's internals)."""

    def __init__(self, places):
        self.places = list(places)
        self.inside = False
        self.used = False
        self.count = 0
        self.done = 0

    def flush(self):
        while self.done < len(self.places):
            self.done += 1
            _hand_over()


def _headroom(frames=120):
    """is the stack of this thread at least `frames` away from the recursion limit?  (a statement nested too deep for the
    parser ends in RecursionError; the hand-over must not be what raises it, half-way through the scheduler)"""
    try:
        sys._getframe(max(sys.getrecursionlimit() - frames, 1))
    except ValueError:        # "call stack is not deep enough"
        return True
    return False


def _on_start(code, offset):
    st = getattr(_ptl, 'state', None)
    if st is None:
        return
    if code is _MON['parse']:
        if not st.used:
            st.used = st.inside = True
        return
    if st.inside:
        st.count += 1
        while st.done < len(st.places) and st.places[st.done] <= st.count:
            if not _headroom():
                return        # too close to the interpreter's recursion limit to run the scheduler here: taken at a later call
            st.done += 1
            _hand_over_deep()


def _on_return(code, offset, retval):
    st = getattr(_ptl, 'state', None)
    if st is not None and st.inside and code is _MON['parse']:
        st.flush()
        st.inside = False


def monitor_parser():
    """install the callbacks (idempotent)"""
    import types
    from beanquery import parser
    with _reg_lock:
        if _MON:
            return
        mon = sys.monitoring
        tool = next((i for i in (mon.PROFILER_ID, 3, 4, mon.OPTIMIZER_ID) if mon.get_tool(i) is None), None)
        if tool is None:
            from harness.core import MachineryError
            raise MachineryError('no free sys.monitoring tool id for the pause points inside the parser')
        mon.use_tool_id(tool, 'verif-c20')
        where = os.path.dirname(os.path.abspath(parser.__file__)) + os.sep
        codes = set()

        def add(code):
            if isinstance(code, types.CodeType) and code not in codes and code.co_filename.startswith(where):
                codes.add(code)
                for c in code.co_consts:
                    add(c)

        def walk(obj, depth=0):
            while hasattr(obj, '__wrapped__'):            # the rule methods are wrapped by tatsu's decorator
                obj = obj.__wrapped__
            if isinstance(obj, (staticmethod, classmethod)):
                obj = obj.__func__
            if isinstance(obj, property):
                obj = obj.fget
            if isinstance(obj, types.FunctionType):
                add(obj.__code__)
            elif isinstance(obj, type) and depth == 0 and getattr(obj, '__module__', '').startswith(parser.__name__):
                for member in vars(obj).values():
                    walk(member, 1)
        for module in (parser, parser.parser, parser.ast):
            for obj in list(vars(module).values()):
                walk(obj)
        mon.register_callback(tool, mon.events.PY_START, _on_start)
        mon.register_callback(tool, mon.events.PY_RETURN, _on_return)
        for code in codes:
            mon.set_local_events(tool, code, mon.events.PY_START)
        mon.set_local_events(tool, parser.parse.__code__, mon.events.PY_START | mon.events.PY_RETURN)
        _MON.update(parse=parser.parse.__code__, tool=tool, codes=len(codes))


_CALLS = {}


def parser_calls(text):
    """the number of function calls the parser makes for `text` (measured once per text, in the calling thread)"""
    from beanquery import parser
    if text not in _CALLS:
        monitor_parser()
        st = _ptl.state = ParserPauses([])
        try:
            parser.parse(text)
        except Exception:     # noqa  (the execution will report it)
            pass
        finally:
            _ptl.state = None
        _CALLS[text] = st.count
    return _CALLS[text]


_FRAG = {}
_parse_lock = threading.Lock()


def fragment(expr):
    """syntax tree of one expression.  TatSu needs 20-100 ms per statement, so the statements are ASSEMBLED from parsed
    fragments (Cursor.execute accepts syntax trees; every target is aliased because an assembled node has no source
    text); one case in 16 is submitted as text."""
    from beanquery import parser
    with _parse_lock:
        if expr not in _FRAG:
            _FRAG[expr] = parser.parse('SELECT %s AS x' % expr).targets[0].expression
        return _FRAG[expr]


def _positional_info(n):
    """the compiler numbers positional placeholders by source position: parse info of a real placeholder, moved"""
    from beanquery import parser
    with _parse_lock:
        if '%s' not in _FRAG:
            _FRAG['%s'] = parser.parse('SELECT x WHERE a = %s').where_clause.right.parseinfo
        pi = _FRAG['%s']
    return pi._replace(pos=pi.pos + 10 * n, endpos=pi.endpos + 10 * n)


def X(text):
    """an expression: (text, builder of a FRESH-enough syntax tree -- parsed fragments are shared, as before)"""
    return text, (lambda: fragment(text))


def fcall(name, *operands):
    from beanquery.parser import ast
    return ('%s(%s)' % (name, ', '.join(o[0] for o in operands)),
            lambda: ast.Function(name, [o[1]() for o in operands]))


def plus(x, y):
    from beanquery.parser import ast
    return '%s + %s' % (x[0], y[0]), (lambda: ast.Add(x[1](), y[1]()))


def paren(x):
    return '(%s)' % x[0], x[1]


class PauseValue(Exception):
    pass


_KINDS = {'c': 'col', 'f': 'fn', 'p': 'rp', 'q': 'cp'}
_STAR_NAMES = ('k', 'a', 'b', 'n1', 'n2', 'n3')


def describe(description, job):
    """Cursor.description -> the target kinds of Isolate.tla (DescOf): the statements name their targets c<n> (column),
    f<n> (call), p<n> / q<n> (pause points); the columns of SELECT * are the table's (k, a, b / the subquery's n<c>)"""
    import re
    if description is None:
        return ['none']
    out = []
    for c in description:
        name = getattr(c, 'name', None)
        if job['star'] and name in _STAR_NAMES:
            out.append('col')
        elif isinstance(name, str) and re.fullmatch(r'[cfpq]\d+', name) and not job['star']:
            out.append(_KINDS[name[0]])
        else:
            out.append('other:%s' % (name,))
    return out


class SerialFailure:
    """what a statement run alone gave instead of rows"""

    def __init__(self, ex):
        self.ex = ex

    def __repr__(self):
        return 'raised %r' % (self.ex,)

    def __eq__(self, other):
        return False

    def __ne__(self, other):
        return True


def project(raw, decs, val, idmap):
    rows = []
    for r in raw:
        if len(r) != len(decs):
            raise PauseValue('row of %d values for %d targets' % (len(r), len(decs)))
        out = []
        for v, dec in zip(r, decs):
            if dec is None:
                if v != val:
                    raise PauseValue('a pause target shows %r instead of %r' % (v, val))
            else:
                out.append(dec(v, idmap))
        rows.append(out)
    return rows


def run_case(case, order=None, rng=None, timeout=60.0):
    """-> (scheduler, results {tid: rows}, exceptions {tid: exc}, texts {tid: (text, parameters)})"""
    register()
    s = sched.Scheduler(order=order, rng=rng, timeout=timeout)
    fns, texts = {}, {}
    for tid in range(1, len(case.jobs) + 1):
        fns[tid], text, params = case.runner(tid)
        texts[tid] = text if params is None else '%s  <- %r' % (text, dict(params) if isinstance(params, dict) else tuple(params))
    results, excs = s.run(fns)
    return s, results, excs, texts


def run_serial(case):
    """every job alone, one after the other, on the same connections"""
    register()
    out = {}
    for tid in range(1, len(case.jobs) + 1):
        try:
            out[tid] = case.runner(tid)[0]()
        except Exception as ex:     # noqa  (an observation about the code: the caller compares it with the expected rows)
            out[tid] = SerialFailure(ex)
    return out


def conn_mode(jobs):
    conns = [j['conn'] for j in jobs]
    if len(set(conns)) == 1:
        return 'shared'
    ledgers = {}
    for j in jobs:
        ledgers[j['conn']] = j['ledger']
    vals = list(ledgers.values())
    part = 'mixed' if len(set(conns)) < len(conns) else 'separate'
    return part + ('-same' if all(v == vals[0] for v in vals) else '-diff')


def shape(job):
    def atoms(xs):
        return ','.join(a['k'] + (str(a['i']) if a['k'] == 'col' else ':%s%d%d' % (a['op'], a['a'], a['b']) if a['k'] == 'fn' else '')
                        for a in xs) or '-'
    how = ''
    if job.get('via', 'cursor') == 'conn' or job.get('fetch'):
        how = ':%s.execute' % ('conn' if job.get('via') == 'conn' else 'cursor')
        how += ':fetch=' + ','.join(map(str, job['fetch'])) if job.get('fetch') else ''
    return '%s%s:%s:where=%s%s%s%s' % (job['tab'] + (str(job['ty']) if job['tab'] == 'x' else ''),
                                       ':sub' + ''.join(map(str, job['sub'])) if job.get('sub') else '',
                                       '*' if job['star'] else atoms(job['targets']), atoms(job['where']),
                                       '' if job['lit'] else ':params', ':text' if job.get('parse') else '', how)
