"""C16 projection: Python values -> abstract values of spec/Render.tla, and rendered text / CSV -> layout records.

Nothing here decides anything: values are projected (lengths, digit counts, canonical strings), output is parsed into
[off, lp, n, rp, dot] cells by the geometry of the rule line the output itself contains, cells are re-read into
canonical strings.  All judging is done by TLC (Trace_Render) or by comparison with TLC-emitted layouts (Gen_Render).
"""
import csv
import datetime
import io
import re
from decimal import Decimal

LINE_TERMINATORS = '\n\r\x0b\x0c\x1c\x1d\x1e\x85\u2028\u2029'

BOX = {'ascii': dict(v='|', h='-', tl='+', tm='+', tr='+', ml='+', mm='+', mr='+', bl='+', bm='+', br='+'),
       'unicode': dict(v='│', h='─', tl='┌', tm='┬', tr='┐', ml='├', mm='┼',
                       mr='┤', bl='└', bm='┴', br='┘')}


def cphex(s):
    """a string as fixed-width code points: equality and prefixes survive, TLC never sees an exotic character"""
    return ''.join('%06x' % ord(ch) for ch in s)


def in_domain_text(s):
    return not any(ch in LINE_TERMINATORS for ch in s)


# ---- abstract input values ----------------------------------------------------------------------------------
def dec_parts(d):
    """(sign, integer digits, fraction digits) of a Decimal with exponent <= 0, as shown in positional notation"""
    t = d.as_tuple()
    digs = ''.join(map(str, t.digits))
    e = t.exponent
    if e < 0:
        digs = digs.rjust(-e + 1, '0')
        return t.sign, digs[:e], digs[e:]
    return t.sign, digs, ''


def dec_canon(d):
    s, i, f = dec_parts(d)
    return ('-' if s else '') + i + ('.' + f if f else '')


def scaled(d):
    """Decimal -> (integer, scale) with value = integer / 10**scale"""
    t = d.as_tuple()
    n = int(''.join(map(str, t.digits)))
    if t.sign:
        n = -n
    if t.exponent > 0:
        return n * 10 ** t.exponent, 0
    return n, -t.exponent


def dctx_precision(dcontext, currency):
    cc = dcontext.ccontexts.get(currency)
    if cc is None:
        return -1
    from beancount.core.display_context import Precision
    p = cc.get_fractional(Precision.MOST_COMMON)
    return -1 if p is None else p


def abs_units(number, currency, dcontext, pfx=''):
    n, sc = scaled(number)
    return {pfx + 'c': currency, pfx + 'cl': len(currency), pfx + 'num': n if abs(n) < 10 ** 9 else 0, pfx + 'sc': sc,
            pfx + 'p': dctx_precision(dcontext, currency), pfx + 'ood': int(abs(n) >= 10 ** 9 or sc > 9)}


def abs_pos(units, cost, dcontext, as_cost=False):
    """one position (or amount: cost None; or Cost shown on its own: as_cost)"""
    p = abs_units(units.number, units.currency, dcontext)
    p.update({'k': 0, 'kc': '', 'kcl': 0, 'knum': 0, 'ksc': 0, 'kp': -1, 'kood': 0, 'hd': 0, 'date': '', 'hl': 0,
              'label': ''})
    if as_cost:
        if units.date is not None:
            p['hd'], p['date'] = 1, units.date.isoformat()
        if units.label is not None:
            p['hl'], p['label'] = 1, cphex(units.label)
    elif cost is not None:
        p['k'] = 1
        p.update(abs_units(cost.number, cost.currency, dcontext, 'k'))
    return p


def absval(t, v, dcontext=None):
    """Python value of a column of (spec) type t -> abstract value"""
    if v is None:
        return {'k': 'null'}
    if t in ('str', 'obj'):
        s = str(v)
        if not in_domain_text(s) or s != s.strip(' '):
            return {'k': 'ood'}
        return {'k': 'str', 'n': len(s), 'x': cphex(s)}
    if t == 'int':
        s = str(v)
        return {'k': 'int', 's': int(s.startswith('-')), 'i': len(s.lstrip('-')), 'x': s}
    if t == 'dec':
        tup = v.as_tuple()
        if not isinstance(tup.exponent, int):
            return {'k': 'ood'}
        if tup.exponent > 0:
            return {'k': 'decE', 'n': len(str(v)), 'x': str(v)}
        s, i, f = dec_parts(v)
        return {'k': 'dec', 's': s, 'i': len(i), 'f': len(f), 'x': dec_canon(v)}
    if t == 'date':
        return {'k': 'date', 'x': v.isoformat()}
    if t == 'bool':
        return {'k': 'bool', 'n': int(bool(v)), 'x': 'TRUE' if v else 'FALSE'}
    if t == 'set':
        items = sorted(v)
        if not all(isinstance(x, str) and in_domain_text(x) for x in items):
            return {'k': 'ood'}
        return {'k': 'set', 'items': [len(x) for x in items], 'x': [cphex(x) for x in items]}
    if t == 'amount':
        return {'k': 'amt', 'pos': [abs_pos(v, None, dcontext)]}
    if t == 'cost':
        return {'k': 'amt', 'pos': [abs_pos(v, None, dcontext, as_cost=True)]}
    if t == 'position':
        return {'k': 'amt', 'pos': [abs_pos(v.units, v.cost, dcontext)]}
    if t == 'inventory':
        return {'k': 'amt', 'pos': [abs_pos(p.units, p.cost, dcontext) for p in v.get_positions()]}
    raise ValueError(t)


def spec_type(datatype):
    """beanquery column datatype -> type name of the specification (by the renderer the MRO selects)"""
    from beancount.core import amount, position, inventory
    if datatype is bool:
        return 'bool'
    for d in datatype.__mro__:
        if d is int:
            return 'int'
        if d is Decimal:
            return 'dec'
        if d is str:
            return 'str'
        if d is datetime.date:
            return 'date'
        if d in (set, frozenset):
            return 'set' if d is set else 'obj'
        if d is amount.Amount:
            return 'amount'
        if d is position.Cost:
            return 'cost'
        if d is position.Position:
            return 'position'
        if d is inventory.Inventory:
            return 'inventory'
        if d is dict:
            return 'obj'
    return 'obj'


# ---- parsing rendered text ----------------------------------------------------------------------------------
NUM = r'-?\d+(?:\.\d+)?'
CUR = r"[A-Z/][A-Z0-9'._/-]*"
POS_RE = re.compile(r'(?P<num>%s)(?P<g1> +)(?P<cur>%s)(?: *\{ *(?P<knum>%s) +(?P<kcur>%s) *\})?' % (NUM, CUR, NUM, CUR))
COST_RE = re.compile(r'^(?P<num>%s)(?P<g1> +)(?P<cur>%s) *(?:, (?P<date>\d{4}-\d\d-\d\d))?(?:, "(?P<label>.*)")?$'
                     % (NUM, CUR), re.S)
DEC_RE = re.compile(r'^-?\d+(?:\.\d+)?$')
INT_RE = re.compile(r'^-?\d+$')


def num_info(text, start):
    """number text -> (scaled int, fraction digits, absolute offset of the decimal point / end of the integer part)"""
    t = text.replace(',', '')
    if '.' in t:
        ip, fp = t.split('.')
        dot = start + text.index('.')
    else:
        ip, fp = t, ''
        dot = start + len(text)
    n = int(ip + fp)
    big = int(abs(n) >= 10 ** 9)
    return (0 if big else n), len(fp), dot, big


EMPTY_TOK = {'c': '', 'cl': 0, 'num': 0, 'f': 0, 'dot': -1, 'cur': -1, 'big': 0, 'k': 0, 'kc': '', 'knum': 0, 'kf': 0,
             'kdot': -1, 'kcur': -1, 'kbig': 0, 'hd': 0, 'date': '', 'hl': 0, 'label': ''}


def tokens(t, text, base, sep):
    """amount-like cell text (starting at absolute offset base) -> tokens, canonical items, junk flag"""
    toks, items = [], []
    if t == 'cost':
        body = text.rstrip(' ')
        lead = len(body) - len(body.lstrip(' '))
        m = COST_RE.match(body.lstrip(' '))
        if not m:
            return [], [cphex(body)], int(bool(body.strip(' ')))
        b = base + lead
        tk = dict(EMPTY_TOK)
        tk['num'], tk['f'], tk['dot'], tk['big'] = num_info(m.group('num'), b + m.start('num'))
        tk['c'], tk['cl'], tk['cur'] = m.group('cur'), len(m.group('cur')), b + m.start('cur')
        if m.group('date') is not None:
            tk['hd'], tk['date'] = 1, m.group('date')
        if m.group('label') is not None:
            tk['hl'], tk['label'] = 1, cphex(m.group('label'))
        return [tk], [re.sub(' +', ' ', body.strip(' '))], 0
    pos = 0
    junk = 0
    for m in POS_RE.finditer(text):
        between = text[pos:m.start()]
        if between.replace(sep, '').strip(' ' + sep):
            junk = 1
        pos = m.end()
        tk = dict(EMPTY_TOK)
        tk['num'], tk['f'], tk['dot'], tk['big'] = num_info(m.group('num'), base + m.start('num'))
        tk['c'], tk['cl'], tk['cur'] = m.group('cur'), len(m.group('cur')), base + m.start('cur')
        if m.group('knum') is not None:
            tk['k'] = 1
            tk['knum'], tk['kf'], tk['kdot'], tk['kbig'] = num_info(m.group('knum'), base + m.start('knum'))
            tk['kc'], tk['kcur'] = m.group('kcur'), base + m.start('kcur')
        toks.append(tk)
        items.append(re.sub(' +', ' ', m.group(0)).replace('{ ', '{').replace(' }', '}'))
    if text[pos:].replace(sep, '').strip(' ' + sep):
        junk = 1
    return toks, items, junk


def reread(t, text, sep, base=0):
    """cell text (padding stripped) -> (canonical re-read value y, items, tokens, junk)"""
    if t in ('amount', 'position', 'cost', 'inventory'):
        toks, items, junk = tokens(t, text, base, sep)
        return cphex(text.strip(' ')), items, toks, junk
    s = text
    y = cphex(s)
    if t == 'int':
        y = str(int(s)) if INT_RE.match(s) else '!' + cphex(s)
    elif t == 'dec':
        y = dec_canon(Decimal(s)) if DEC_RE.match(s) else s if re.match(r'^-?\d+(\.\d+)?E[+-]?\d+$', s) else '!' + cphex(s)
    elif t == 'date':
        try:
            y = datetime.date.fromisoformat(s).isoformat() if len(s) == 10 else '!' + cphex(s)
        except ValueError:
            y = '!' + cphex(s)
    elif t == 'bool':
        y = s if s in ('TRUE', 'FALSE') else '!' + cphex(s)
    if t == 'set':
        items = [cphex(x) for x in s.split(sep)] if s else []
    else:
        items = [cphex(s)]
    return y, items, [], 0


def parse_cell(t, region, off, sep):
    lp = len(region) - len(region.lstrip(' '))
    text = region.strip(' ')
    n = len(text)
    if n == 0:
        lp = 0
    rp = len(region) - lp - n
    amt = t in ('amount', 'position', 'cost', 'inventory')
    y, items, toks, junk = reread(t, region if amt else text, sep, off)
    dot = -1
    if t == 'dec' and DEC_RE.match(text):
        dot = off + lp + (text.index('.') if '.' in text else n)
    return {'off': off, 'lp': lp, 'n': n, 'rp': rp, 'dot': dot, 'y': y, 'tx': cphex(text), 'items': items, 'toks': toks,
            'junk': junk}


def parse_rule(line):
    """a rule line -> (style, boxed?, widths, where) by its own characters; style 'bad' when it is not a rule.
    where: which of top / rule / bottom the corner and tee characters belong to ('any' for ASCII and unboxed)"""
    for style, b in BOX.items():
        h = b['h']
        for where, (l, m, r) in (('top', (b['tl'], b['tm'], b['tr'])), ('rule', (b['ml'], b['mm'], b['mr'])),
                                 ('bottom', (b['bl'], b['bm'], b['br']))):
            if len(line) >= 2 and line[0] == l and line[-1] == r:
                segs = line[1:-1].split(m)
                if all(len(s) >= 2 and set(s) == {h} for s in segs):
                    return style, True, [len(s) - 2 for s in segs], ('any' if style == 'ascii' else where)
        segs = line.split('  ')
        if line and all(s and set(s) == {h} for s in segs):
            return style, False, [len(s) for s in segs], 'any'
    return 'bad', False, [], 'any'


def geometry(widths, boxed):
    frame, sepw = (2, 3) if boxed else (0, 2)
    offs, off = [], frame
    for w in widths:
        offs.append(off)
        off += w + sepw
    total = (off - sepw if widths else frame) + frame
    return offs, total


def rule_cells(widths, boxed):
    offs, _ = geometry(widths, boxed)
    return [{'off': o, 'lp': 0, 'n': w, 'rp': 0, 'dot': -1, 'y': '', 'tx': '', 'items': [], 'toks': [], 'junk': 0}
            for o, w in zip(offs, widths)]


def row_style(line, widths, boxed):
    """which frame / separator characters a header or body line carries at the places the geometry dictates"""
    offs, total = geometry(widths, boxed)
    if not boxed:
        gaps = [line[o + w:o + w + 2] for o, w in zip(offs[:-1], widths[:-1])]
        return 'plain' if all(g == '  ' for g in gaps) else 'bad'
    for style, b in BOX.items():
        v = b['v']
        ok = line[:2] == v + ' ' and line[total - 2:total] == ' ' + v
        gaps = [line[o + w:o + w + 3] for o, w in zip(offs[:-1], widths[:-1])]
        if ok and all(g == ' ' + v + ' ' for g in gaps):
            return style
    return 'bad'


def parse_text(out, types, sep):
    """rendered text -> {'ok', 'boxed', 'ws', 'lines': [...]}; kinds: top head rule body bottom"""
    res = {'ok': 1, 'boxed': False, 'ws': [], 'lines': [], 'why': ''}
    if not out.endswith('\n'):
        res['ok'], res['why'] = 0, 'no final newline'
        return res
    raw = out[:-1].split('\n')
    first = parse_rule(raw[0])
    boxed = first[0] != 'bad' and first[1]
    need = 4 if boxed else 2
    if len(raw) < need:
        res['ok'], res['why'] = 0, 'too few lines'
        return res
    ri = 2 if boxed else 1
    style, rboxed, widths, _ = parse_rule(raw[ri])
    if style == 'bad' or rboxed != boxed or len(widths) != len(types):
        res['ok'], res['why'] = 0, 'rule line not recognised'
        return res
    res['boxed'], res['ws'] = boxed, widths
    offs, total = geometry(widths, boxed)
    last = len(raw) - 1
    for k, line in enumerate(raw):
        if (boxed and k in (0, 2, last)) or (not boxed and k == 1):
            kind = 'rule' if k == ri else ('top' if k == 0 else 'bottom')
            st, bx, ws, where = parse_rule(line)
            if st == 'bad' or bx != boxed or len(ws) != len(widths) or where not in ('any', kind):
                cells, st = rule_cells(widths, boxed), 'bad'
            else:
                cells = rule_cells(ws, boxed)
            res['lines'].append({'kind': kind, 'style': st, 'w': len(line), 'cells': cells})
            continue
        kind = 'head' if k == ri - 1 else 'body'
        cells = []
        for c, (o, w) in enumerate(zip(offs, widths)):
            cells.append(parse_cell('str' if kind == 'head' else types[c], line[o:o + w], o, sep))
        res['lines'].append({'kind': kind, 'style': row_style(line, widths, boxed), 'w': len(line), 'cells': cells})
    return res


def parse_csv(out, types):
    """CSV text -> header (cphex) + per record the fields as items (same re-reading as the text cells, sep ',')"""
    rows = list(csv.reader(io.StringIO(out, newline='')))
    if not rows:
        return {'ok': 0, 'hdr': [], 'recs': [], 'nf': []}
    hdr = [cphex(x) for x in rows[0]]
    recs, nf = [], []
    for rec in rows[1:]:
        nf.append(len(rec))
        fields = []
        for c, field in enumerate(rec[:len(types)]):
            t = types[c]
            amt = t in ('amount', 'position', 'cost', 'inventory')
            y, items, toks, junk = reread(t, field if amt else field.strip(' '), ',')
            fields.append({'y': y, 'tx': cphex(field.strip(' ')), 'items': items, 'n': len(field.strip(' '))})
        recs.append(fields)
    return {'ok': 1, 'hdr': hdr, 'recs': recs, 'nf': nf}
