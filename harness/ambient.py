"""C20, thread placement: what a query returns must not depend on WHICH thread evaluates it, nor on what other threads
are in the middle of -- also for statements whose processing leans on the interpreter's ambient state.

Every other leg of C20 looks for state the LIBRARY shares between executions (caches, registries, class attributes,
cursors).  This one covers the state the INTERPRETER keeps per thread or per process and that a library can touch
without sharing any object of its own: the decimal arithmetic context (thread-local: precision, rounding, traps), the
recursion limit (process-wide), and whatever else of that kind an evaluation depends on.  The workload is chosen to be
sensitive to it:

  * inexact Decimal arithmetic (quotients without a finite expansion, products of more than 28 digits, a quantize that
    needs more digits than the context has -- an error is an outcome too), row-wise, above aggregates, with parameters,
    through functions; price conversions through an INVERTED pair (the price map divides when the connection is made);
  * statements nested deep enough to need most of / more than the interpreter's stack allowance in the parser.

The oracle is the property's own relation (a law, no expected values): the outcomes of the statements executed ONE AFTER
ANOTHER on the importing (main) thread are the reference; the same statements must have the same outcomes, digit for
digit and type for type,

  alone      each on a fresh thread of its own (connection made by the main thread / made by that thread);
  scheduled  from 2-3 threads under the turn-taking scheduler (harness/sched.py), on one shared connection or on a
             connection each, submitted as text, descheduled INSIDE beanquery.parser.parse() (the sys.monitoring pause
             points of harness/isolate.py) and at yieldpoint() row steps: every interleaving of the parse segments of
             two statements for fixed schedules, seeded random schedules for three.

The interpreter's ambient state (recursion limit, decimal context of the thread) is sampled before and after and attached
to a violation as an EXPLANATION; it is never a verdict (the property speaks of results only).
"""
import decimal
import itertools
import random
import sys
import threading

from harness import isolate as iso
from harness import sched
from harness import tables as ht

D = decimal.Decimal

ROWS = [(1, D('1000.00'), 7), (2, D('250.10'), 3), (1, D('12345.678901234567890123'), 11), (3, D('-0.07'), 9)]

LEDGER = """
2024-01-01 open Assets:Bank       USD
2024-01-01 open Assets:Wallet     ETH
2024-01-01 open Income:Salary     USD
2024-01-01 open Equity:Opening    ETH
2024-01-02 price USD 0.93 EUR
2024-01-03 price ETH 2317.77 USD
2024-01-05 * "Employer" "Salary"
  Assets:Bank        1000.00 USD
  Income:Salary     -1000.00 USD
2024-01-10 * "Opening balance of the wallet"
  Assets:Wallet      12345.678901234567890123 ETH
  Equity:Opening    -12345.678901234567890123 ETH
"""


def nest(depth, inner, opener='('):
    return opener * depth + inner + ')' * depth


# (name, table kind, text, parameters).  `{y}` is a row-step pause point (yieldpoint(), registered by c20.py) in the
# scheduled placements and the constant 0 elsewhere: the texts of one statement differ by that only.
def workload(shallow, deep):
    w = [
        ('quotient', 'amb', "SELECT k, d / 3 AS q, {y} AS z FROM #amb ORDER BY k, q", None),
        ('quotient-int', 'amb', "SELECT i / 7 AS q, safediv(d, 7) AS s FROM #amb WHERE i + {y} > 0", None),
        ('share-of-sum', 'amb', "SELECT k, sum(d) / %s AS share FROM #amb GROUP BY k ORDER BY k", (7,)),
        ('long-product', 'amb', "SELECT d * 1.000000000000000001 + {y} AS p FROM #amb", None),
        ('quantize', 'amb', "SELECT round(d / 7, 40) AS q FROM #amb", None),
        ('sub-quotient', 'amb', "SELECT k FROM #amb WHERE d / 3 IN (SELECT d / 3 FROM #amb WHERE i > 3 + {y})", None),
        ('nest-%d' % shallow, 'amb', "SELECT %s AS n, {y} AS z FROM #amb" % nest(shallow, 'i * 2'), None),
        ('nest-%d' % deep, 'amb', "SELECT %s AS n FROM #amb" % nest(deep, 'i * 2'), None),
        ('calls-%d' % deep, 'amb', "SELECT %s AS n FROM #amb" % nest(deep, 'd', 'abs('), None),
        ('inverse-price', 'ledger', "SELECT getprice('EUR', 'USD') AS p, getprice('USD', 'ETH', 2024-02-01) AS e FROM #", None),
        ('convert', 'ledger', "SELECT account, convert(position, 'ETH') AS c, {y} AS z WHERE currency = 'USD'", None),
        ('ledger-quotient', 'ledger', "SELECT account, sum(number) / 7 AS s GROUP BY account ORDER BY account", None),
    ]
    return w


class World:
    """the data, and how to connect to it"""

    def __init__(self):
        from beancount import loader
        self.entries, self.errors, self.options = loader.load_string(LEDGER)

    def connect(self, kind):
        import beanquery
        if kind == 'amb':
            return ht.connection(ht.HarnessTable('amb', [('k', 'int'), ('d', 'Decimal'), ('i', 'int')], ROWS))
        return beanquery.connect('beancount:', entries=self.entries, errors=self.errors, options=self.options)


def outcome(conn, text, params):
    """rows digit for digit and type for type (Decimal('1.0') == Decimal('1.00') == 1 would hide a difference), or the
    exception's type: an error is an outcome"""
    try:
        rows = conn.execute(text, params).fetchall()
    except RecursionError:
        return '<RecursionError>'
    except Exception as ex:   # noqa
        return '<%s>' % type(ex).__name__
    return repr(rows)


def ambient():
    c = decimal.getcontext()
    return {'recursionlimit': sys.getrecursionlimit(), 'decimal.prec': c.prec, 'decimal.rounding': c.rounding,
            'decimal.traps': sorted(t.__name__ for t, on in c.traps.items() if on), 'thread': threading.current_thread().name}


def on_fresh_thread(fn):
    box = {}

    def body():
        try:
            box['amb0'] = ambient()
            box['value'] = fn()
            box['amb1'] = ambient()
        except BaseException as ex:   # noqa
            box['value'] = '<harness: %r>' % (ex,)
    th = threading.Thread(target=body, name='verif-placement')
    th.start()
    th.join(120)
    if th.is_alive():
        from harness.core import MachineryError
        raise MachineryError('placement: a statement did not finish within 120 s on its own thread')
    return box


def scheduled_job(conn, text, params, places):
    """execute `text` in a scheduled thread, descheduled at the calls numbered `places` inside the parser; the number of
    hand-overs is len(places) whatever happens (what the parser did not reach is handed over afterwards)"""
    def job():
        pauses = iso._ptl.state = iso.ParserPauses(places)
        try:
            return outcome(conn, text, params)
        finally:
            iso._ptl.state = None
            pauses.flush()
    return job


def places_for(text, n, rng):
    """n places inside the parse of `text`: the first call, and calls spread over the parse"""
    calls = iso.parser_calls(text)
    if calls < 2 or n == 0:
        return [1] * n
    return sorted([1] + [rng.randint(2, calls) for _ in range(n - 1)])


def run(ctx, seed, limit0=None):
    """returns the numbers of the leg; violations are reported through ctx.violation.  `limit0`: the recursion limit the
    check started with -- earlier legs of the check (threads descheduled inside the parser) may have left another one
    behind; the leg starts from the application's own setting, and says so"""
    from harness.core import MachineryError
    drifted_before = None
    if limit0 is not None and sys.getrecursionlimit() != limit0:
        drifted_before = sys.getrecursionlimit()
        sys.setrecursionlimit(limit0)
    rng = random.Random(seed)
    quick = ctx.quick
    iso.monitor_parser()
    world = World()
    work = workload(8, 30)
    plain = {name: text.format(y='0') for name, _, text, _ in work}
    paused = {name: text.format(y='yieldpoint()') for name, _, text, _ in work}
    kind = {name: k for name, k, _, _ in work}
    params = {name: p for name, _, _, p in work}
    main_thread = threading.current_thread() is threading.main_thread()
    amb_start = ambient()
    counts = dict(statements=len(work), alone=0, scheduled_fixed=0, scheduled_random=0, bad=0,
                  reference_thread='main' if main_thread else threading.current_thread().name)

    # ---- the reference: one after another, on this (the importing) thread.  Twice: serial execution must agree with itself
    conns = {k: world.connect(k) for k in ('amb', 'ledger')}
    ref = {}
    for name, k, _, _ in work:
        ref[name] = outcome(conns[k], plain[name], params[name])
        ref[name + '/y'] = outcome(conns[k], paused[name], params[name])      # yieldpoint() returns 0 outside a schedule

    drift = []

    def report(name, placement, text, expected, got, extra):
        counts['bad'] += 1
        case = dict({'kind': 'placement', 'name': name, 'text': text, 'placement': placement, 'ambient_at_start': amb_start,
                     'ambient_now': ambient(), 'ambient_drift_after_earlier_runs': drift[:3]}, **extra)
        ctx.violation('placement:%s:%s' % (placement.split(' ')[0], name.split('-')[0]),
                      'a statement executed %s does not have the outcome it has when the statements are executed one after '
                      'another on the main thread' % placement, case, 'LAW', expected[:600], got[:600])

    # ---- alone on a fresh thread
    for wi, (name, k, _, _) in enumerate(work):
        # who makes the connection matters where making it computes (the price map of a ledger): both there
        for made_by in (('main', 'thread') if k == 'ledger' or not quick else (('main', 'thread')[wi % 2],)):
            if made_by == 'main':
                c = world.connect(k)
                box = on_fresh_thread(lambda: outcome(c, plain[name], params[name]))
            else:
                box = on_fresh_thread(lambda: outcome(world.connect(k), plain[name], params[name]))
            counts['alone'] += 1
            ctx.traces += 1
            ctx.case('placement:alone:%s:%s' % (name, made_by), True)
            if box.get('value') != ref[name]:
                report(name, 'alone on a fresh thread (connection made by the %s thread)' % made_by, plain[name], ref[name],
                       str(box.get('value')), {'thread_ambient_before': box.get('amb0'), 'thread_ambient_after': box.get('amb1')})

    # ---- scheduled, two threads, fixed schedules: every interleaving of the parse segments
    names = [n for n, _, _, _ in work]
    deepish = [n for n in names if n.startswith(('nest', 'calls'))]
    pairs = []
    for a in names:                       # every statement next to a deep one and next to an arithmetic one, both orders
        pairs.append((a, deepish[rng.randrange(len(deepish))]))
        pairs.append((names[rng.randrange(len(names))], a))
    if quick:
        pairs = rng.sample([p for p in pairs if p[1] in deepish and p[0] not in deepish], 5) + rng.sample(pairs, 3)

    def run_sched(chosen, places, mode, order=None, srng=None, with_y=False):
        texts = [(paused if with_y else plain)[n] for n in chosen]
        shared = {}
        jobs = {}
        for t, n in enumerate(chosen, 1):
            if mode == 'shared-connection':
                if kind[n] not in shared:
                    shared[kind[n]] = world.connect(kind[n])
                c = shared[kind[n]]
            else:
                c = world.connect(kind[n])
            jobs[t] = scheduled_job(c, texts[t - 1], params[n], places[t - 1])
        s = sched.Scheduler(order=order, rng=srng, timeout=120.0)
        try:
            results, excs = s.run(jobs)
        finally:
            # every run starts from the interpreter settings the check started with (they are the application's to set):
            # a drift left behind by one run is noted and undone, it must not decide -- or mask -- the next one
            if sys.getrecursionlimit() != amb_start['recursionlimit']:
                drift.append({'statements': list(chosen), 'recursionlimit': sys.getrecursionlimit(), 'grants': list(s.log)})
                sys.setrecursionlimit(amb_start['recursionlimit'])
        return s, results, excs, texts

    for pi, (a, b) in enumerate(pairs):
        chosen = (a, b)
        places = [places_for(plain[n], 2, rng) for n in chosen]
        segs = [len(p) + 1 for p in places]
        orders = sorted(set(itertools.permutations([1] * segs[0] + [2] * segs[1])))
        if quick:
            orders = rng.sample(orders, 4)
        for oi, order in enumerate(orders):
            mode = ('shared-connection', 'separate-connections')[(pi + oi) % 2]
            s, results, excs, texts = run_sched(chosen, places, mode, order=list(order))
            counts['scheduled_fixed'] += 1
            ctx.traces += 1
            ctx.case('placement:fixed:%s:%s:%s:%s' % (a, b, mode, ''.join(map(str, order))), len(set(order)) > 1)
            if s.diverged:
                raise MachineryError('placement: schedule %s does not fit (%s)' % (order, s.diverged))
            for t, n in enumerate(chosen, 1):
                got = repr(excs[t]) if t in excs else results.get(t)
                if got != ref[n]:
                    report(n, 'scheduled from threads (%s)' % mode, texts[t - 1], ref[n], str(got),
                           {'statements': list(chosen), 'texts': texts, 'places': places, 'order': list(order), 'thread': t,
                            'mode': mode})
                    break

    # ---- scheduled, two or three threads, seeded random schedules, row-step pause points too
    for r in range(ctx.pick(12, 400)):
        nthreads = rng.choice([2, 3, 3])
        chosen = tuple(rng.choice(names) for _ in range(nthreads))
        if r % 2 == 0:
            chosen = chosen[:-1] + (rng.choice(deepish),)
        places = [places_for(paused[n], rng.randint(1, 3), rng) for n in chosen]
        mode = ('shared-connection', 'separate-connections')[r % 2]
        sseed = rng.randrange(1 << 30)
        s, results, excs, texts = run_sched(chosen, places, mode, srng=random.Random(sseed), with_y=True)
        counts['scheduled_random'] += 1
        ctx.traces += 1
        ctx.case('placement:random:%s:%s:%s' % ('+'.join(chosen), mode, ''.join(map(str, s.log))), len(set(s.log)) > 1)
        for t, n in enumerate(chosen, 1):
            got = repr(excs[t]) if t in excs else results.get(t)
            if got != ref[n + '/y']:
                report(n, 'scheduled from threads (%s)' % mode, texts[t - 1], ref[n + '/y'], str(got),
                       {'statements': list(chosen), 'texts': texts, 'places': places, 'seed': sseed, 'grants': list(s.log),
                        'thread': t, 'mode': mode})
                break

    # ---- the reference once more, after everything: serial execution still agrees with itself
    for name, k, _, _ in work:
        again = outcome(world.connect(k), plain[name], params[name])
        ctx.case('placement:serial-again:%s' % name, True)
        if again != ref[name]:
            report(name, 'after the concurrent runs, serially again', plain[name], ref[name], again, {})
    counts['recursion_limit_left_by_earlier_legs'] = drifted_before
    counts['ambient_unchanged'] = ambient() == amb_start and not drift
    counts['runs_that_left_another_recursion_limit'] = len(drift)
    return counts
