"""Expression legs shared by C01 (values / WHERE), C04 (announced types), C05 (accept / reject), C09 (folding).

S2C: Gen_Expr emits every well-typed (or ill-typed) expression spine with the spec's type and per-row values;
     `ExprReplayer` runs them against the real code over the same base table, 40 targets per hand-built SELECT,
     and each expression again as a WHERE condition.
C2S: `random_cases` builds random deeper trees over random tables, runs them on the real code and writes ndjson
     for Trace_Expr, where TLC types, evaluates and compares.
"""
import json

import beanquery

from harness import bql
from harness import selectq
from harness import tables as ht
from harness.core import MachineryError

BATCH = 40


class ExprReplayer:
    def __init__(self, ctx, prop_focus):
        self.ctx = ctx
        self.focus = prop_focus          # 'values' | 'types' | 'verdict'
        self.table = None
        self.conn = None
        self.pending = []
        self.n_expr = 0
        self.n_cells = 0
        self.n_where = 0
        self.n_text = 0
        self.n_skipped = 0
        self.kinds = {}

    # -- table --------------------------------------------------------------------------------------
    def set_table(self, msg):
        cols = list(zip(msg['cols'], msg['types']))
        rows = [tuple((bql.to_py_object if t == 'obj' else bql.to_py)(v) for v, (_, t) in zip(r, cols)) + (i,) for i, r in enumerate(msg['table'], 1)]
        self.table = ht.HarnessTable('t', [(n, {'dec': 'Decimal', 'obj': 'object'}.get(t, t)) for n, t in cols] + [('rid', 'int')], rows)
        self.conn = ht.connection(self.table)
        self.schema = dict(cols)

    # -- S2C ------------------------------------------------------------------------------------------
    def feed(self, msg):
        if 'table' in msg:
            self.set_table(msg)
            return
        self.pending.append(msg)
        if len(self.pending) >= BATCH and self.table is not None:
            self.flush()

    def flush(self):
        if not self.pending:
            return
        if self.table is None:
            raise MachineryError('Gen_Expr did not emit the base table')
        batch, self.pending = self.pending, []
        typed = [m for m in batch if m['t'] != 'ERR']
        ill = [m for m in batch if m['t'] == 'ERR']
        if typed:
            self._run_typed(typed)
        for m in ill:
            self._run_ill(m)

    def _key(self, m):
        return 'expr:' + bql.expr_key(m['e'])

    def _run_typed(self, batch):
        ctx = self.ctx
        targets = [(bql.expr_ast(m['e']), 'c%d' % i) for i, m in enumerate(batch)]
        stmt = bql.select_ast(targets, 't')
        status, desc, rows = selectq.run_query(self.conn, stmt)
        if status != 'ok':
            # locate the offending expression(s) one by one
            for m in batch:
                self._run_one(m)
            return
        for i, m in enumerate(batch):
            self._judge(m, desc[i], [r[i] for r in rows])
        for m in batch:
            self._where(m)

    def _run_one(self, m):
        stmt = bql.select_ast([(bql.expr_ast(m['e']), 'c0')], 't')
        status, desc, rows = selectq.run_query(self.conn, stmt)
        if status == 'ok':
            self._judge(m, desc[0], [r[0] for r in rows])
            self._where(m)
            return
        ood = any(v[0] == 'ood' for v in m['vals'])
        if status == 'rejected':
            self.ctx.violation(self._key(m) + ':rejected', 'well-typed expression rejected by the compiler: %s' % desc,
                               {'e': m['e'], 'text': _text(m['e'])}, 'S2C', m['t'], 'rejected: %s' % desc)
        elif ood:
            self.n_skipped += 1
            self.ctx.skipped += 1
        else:
            self.ctx.violation(self._key(m) + ':' + type(desc).__name__,
                               'accepted expression fails at run time with %s: %s' % (type(desc).__name__, desc),
                               {'e': m['e'], 'text': _text(m['e'])}, 'S2C', m['vals'], repr(desc))
        self._count(m)

    def _count(self, m):
        self.n_expr += 1
        k = bql.expr_key(m['e'])
        self.ctx.case(k, nontrivial=True)
        top = m['e']['k'] + ':' + str(m['e'].get('op', m['e'].get('f', '')))
        self.kinds[top] = self.kinds.get(top, 0) + 1
        if self.n_expr <= 3:
            self.ctx.sample({'leg': 'S2C', 'expr': _text(m['e']), 'type': m['t'], 'spec_values': m.get('vals')})

    def _judge(self, m, col, got):
        ctx = self.ctx
        self._count(m)
        # announced type (C04 / C07): the description's datatype is the spec's declared type
        want = selectq.TYPEMAP.get(m['t'])
        if col.datatype is not want:
            ctx.violation(self._key(m) + ':dtype', 'announced datatype %s, specification says %s' % (col.datatype.__name__, m['t']),
                          {'e': m['e'], 'text': _text(m['e'])}, 'S2C', m['t'], col.datatype.__name__)
        for r, (sv, v) in enumerate(zip(m['vals'], got)):
            self.n_cells += 1
            ok, sk = bql.same_value(sv, v)
            if sk:
                self.n_skipped += 1
                ctx.skipped += 1
            elif not ok:
                ctx.violation(self._key(m), 'value of the target on base row %d' % (r + 1),
                              {'e': m['e'], 'text': _text(m['e']), 'row': r + 1}, 'S2C', sv, repr(v))
                break
            # C04: value is NULL or an instance of the announced datatype
            if v is not None and col.datatype is not object and not isinstance(v, col.datatype):
                ctx.violation(self._key(m) + ':instance', 'value %r is not an instance of the announced %s' % (v, col.datatype.__name__),
                              {'e': m['e'], 'text': _text(m['e']), 'row': r + 1}, 'S2C', m['t'], type(v).__name__)
                break
        self.ctx.traces += 1

    def _where(self, m):
        if any(v[0] == 'ood' for v in m['vals']):
            return
        want = [i for i, v in enumerate(m['vals'], 1) if v[0] != 'null' and _truthy(v)]
        stmt = bql.select_ast([(bql.expr_ast({'k': 'col', 'n': 'rid'}), 'rid')], 't', where=bql.expr_ast(m['e']))
        status, desc, rows = selectq.run_query(self.conn, stmt)
        self.n_where += 1
        if status != 'ok':
            self.ctx.violation(self._key(m) + ':where:' + status, 'expression accepted as target but not as WHERE condition: %s' % desc,
                               {'e': m['e'], 'text': _text(m['e'])}, 'S2C', want, repr(desc))
            return
        got = [r[0] for r in rows]
        if got != want:
            self.ctx.violation(self._key(m) + ':where', 'rows selected by the expression as WHERE condition',
                               {'e': m['e'], 'text': _text(m['e'])}, 'S2C', want, got)

    def _run_ill(self, m):
        """C05: an ill-typed expression must be rejected with CompilationError (never another exception, never accepted)"""
        self._count(m)
        try:
            stmt = bql.select_ast([(bql.expr_ast(m['e']), 'c0')], 't')
        except bql.OutOfDomain:
            self.ctx.skipped += 1
            return
        status, desc, rows = selectq.run_query(self.conn, stmt)
        self.ctx.traces += 1
        if status == 'rejected':
            if not isinstance(desc, beanquery.CompilationError):
                self.ctx.violation(self._key(m) + ':wrongclass', 'rejected with %s instead of CompilationError' % type(desc).__name__,
                                   {'e': m['e'], 'text': _text(m['e'])}, 'S2C', 'CompilationError', type(desc).__name__)
            return
        if status == 'ok':
            self.ctx.violation(self._key(m) + ':accepted', 'ill-typed expression accepted by the compiler',
                               {'e': m['e'], 'text': _text(m['e'])}, 'S2C', 'CompilationError', 'accepted, rows=%r' % (rows[:3],))
        else:
            self.ctx.violation(self._key(m) + ':' + type(desc).__name__, 'ill-typed expression: %s escapes instead of CompilationError: %s' % (type(desc).__name__, desc),
                               {'e': m['e'], 'text': _text(m['e'])}, 'S2C', 'CompilationError', repr(desc))

    # -- the text route (ties the hand-built ASTs to parsed text) -----------------------------------------
    def text_route(self, m):
        try:
            text = 'SELECT %s AS c0 FROM #t' % bql.expr_text(m['e'])
        except bql.OutOfDomain:
            return
        from beanquery import parser
        self.n_text += 1
        try:
            parsed = parser.parse(text)
        except Exception as ex:  # noqa
            self.ctx.violation(self._key(m) + ':text-parse', 'text form does not parse: %s' % text, {'text': text}, 'S2C', 'parses', repr(ex))
            return
        built = bql.select_ast([(bql.expr_ast(m['e']), 'c0')], 't')
        if parsed != built:
            # negative numeric literals print as unary minus applied to a literal: compare by execution instead
            s1 = selectq.run_query(self.conn, parsed)
            s2 = selectq.run_query(self.conn, built)
            if s1[0] != s2[0] or (s1[0] == 'ok' and s1[2] != s2[2]):
                self.ctx.violation(self._key(m) + ':text-route', 'text and AST submissions of the same expression differ',
                                   {'text': text}, 'S2C', repr(s2[2])[:300], repr(s1[2])[:300])


def _truthy(v):
    t = v[0]
    if t in ('bool', 'int', 'dec'):
        return v[1] != 0
    if t == 'str':
        return v[3] != ''
    return True


def _text(e):
    try:
        return bql.expr_text(e)
    except Exception:  # noqa
        return json.dumps(e)[:300]


# ---- C2S: random deeper trees over random tables -------------------------------------------------------------
class RandomExprs:
    """Type-directed random generator of abstract expressions (candidates only: the specification judges them)."""

    COLS = [('i', 'int'), ('j', 'int'), ('x', 'dec'), ('y', 'dec'), ('s', 'str'), ('u', 'str'), ('d', 'date'),
            ('f', 'date'), ('b', 'bool'), ('c', 'bool'), ('o', 'obj')]

    def __init__(self, rng):
        self.rng = rng
        self.budget = 60

    def value(self, t, nullp=0.25):
        r = self.rng
        if r.random() < nullp:
            return {'t': 'null', 'n': 0, 'd': 1, 's': '', 'l': []}
        if t == 'int':
            return {'t': 'int', 'n': r.choice([0, 1, 2, 3, -1, -4, 7, 12]), 'd': 1, 's': '', 'l': []}
        if t == 'dec':
            n, d = r.choice([(0, 1), (1, 2), (-3, 2), (9, 4), (2, 1), (-1, 4), (5, 1), (1, 8)])
            return {'t': 'dec', 'n': n, 'd': d, 's': '', 'l': []}
        if t == 'str':
            return {'t': 'str', 'n': 0, 'd': 1, 's': r.choice(['', 'a', 'ab', 'B', 'b c', 'Ab', 'abc', '7', '1.5', '-3', 'x y', 'fed']), 'l': []}
        if t == 'date':
            return {'t': 'date', 'n': r.choice([737484, 737424, 737425, 737880, 737790, 729755, 737485, 730000]), 'd': 1, 's': '', 'l': []}
        if t == 'bool':
            return {'t': 'bool', 'n': r.randint(0, 1), 'd': 1, 's': '', 'l': []}
        if t == 'obj':
            if r.random() < 0.35:
                # Python-equal but distinct BQL values next to each other (TRUE / 1, FALSE / 0)
                return r.choice([{'t': 'bool', 'n': 1, 'd': 1, 's': '', 'l': []}, {'t': 'int', 'n': 1, 'd': 1, 's': '', 'l': []},
                                 {'t': 'bool', 'n': 0, 'd': 1, 's': '', 'l': []}, {'t': 'int', 'n': 0, 'd': 1, 's': '', 'l': []}])
            return self.value(r.choice(['int', 'dec', 'str', 'date', 'bool']), 0)
        raise ValueError(t)

    def table(self, nrows):
        rows = []
        for _ in range(nrows):
            rows.append({n: self.value(t) for n, t in self.COLS})
        return rows

    def leaf(self, t):
        r = self.rng
        cols = [n for n, ct in self.COLS if ct == t]
        if cols and r.random() < 0.65:
            return {'k': 'col', 'n': r.choice(cols)}
        if t == 'obj':
            return {'k': 'col', 'n': 'o'}
        return {'k': 'const', 'v': self.value(t, 0.08)}

    def expr(self, t, depth):
        r = self.rng
        self.budget -= 1
        if depth <= 0 or r.random() < 0.12 or self.budget <= 0:
            return self.leaf(t)
        d = depth - 1
        E = self.expr
        if t == 'bool':
            k = r.random()
            if k < 0.22:
                nt = r.choice(['int', 'dec', 'str', 'date'])
                other = nt if nt in ('str', 'date') else r.choice(['int', 'dec'])
                return {'k': 'bin', 'op': r.choice(['eq', 'ne', 'lt', 'le', 'gt', 'ge']), 'a': E(nt, d), 'b': E(other, d)}
            if k < 0.42:
                n = r.choice([2, 2, 3, 4])
                return {'k': r.choice(['and', 'or']), 'args': [E(r.choice(['bool', 'bool', 'int', 'str']), d) for _ in range(n)]}
            if k < 0.55:
                return {'k': 'un', 'op': r.choice(['not', 'isnull', 'isnotnull']), 'a': E(r.choice(['bool', 'int', 'dec', 'str', 'date', 'obj']), d)}
            if k < 0.65:
                nt = r.choice(['int', 'dec', 'str', 'date'])
                if nt in ('int', 'dec'):
                    return {'k': 'between', 'a': E(nt, d), 'lo': E(r.choice(['int', 'dec']), d), 'hi': E(r.choice(['int', 'dec']), d)}
                return {'k': 'between', 'a': E(nt, d), 'lo': E(nt, d), 'hi': E(nt, d)}
            if k < 0.73:
                return {'k': 'bin', 'op': r.choice(['match', 'notmatch']), 'a': E('str', d),
                        'b': {'k': 'const', 'v': {'t': 'str', 'n': 0, 'd': 1, 's': r.choice(['a', 'B', 'b c', 'ab', '7']), 'l': []}}}
            if k < 0.81:
                nt = r.choice(['int', 'str'])
                items = [self.value(nt, 0) for _ in range(r.randint(1, 3))]
                return {'k': 'bin', 'op': r.choice(['in', 'notin']), 'a': E(nt, d), 'b': {'k': 'const', 'v': {'t': 'list', 'n': 0, 'd': 1, 's': '', 'l': items}}}
            if k < 0.87:
                return {'k': 'call', 'f': 'bool', 'args': [E(r.choice(['int', 'dec', 'str', 'obj', 'bool']), d)]}
            if k < 0.93:
                return {'k': 'call', 'f': 'coalesce', 'args': [E('bool', d) for _ in range(r.randint(1, 3))]}
            if k < 0.97:
                return {'k': 'bin', 'op': r.choice(['eq', 'lt', 'ge']), 'a': {'k': 'col', 'n': 'o'}, 'b': E(r.choice(['int', 'dec', 'str', 'date']), d)}
            return self.leaf('bool')
        if t == 'int':
            k = r.random()
            if k < 0.4:
                return {'k': 'bin', 'op': r.choice(['add', 'sub', 'mul', 'mod']), 'a': E('int', d), 'b': E('int', d)}
            if k < 0.5:
                return {'k': 'un', 'op': 'neg', 'a': E(r.choice(['int', 'bool']), d)}
            if k < 0.6:
                return {'k': 'bin', 'op': 'sub', 'a': E('date', d), 'b': E('date', d)}
            if k < 0.7:
                return {'k': 'call', 'f': r.choice(['year', 'month', 'day']), 'args': [E('date', d)]}
            if k < 0.78:
                return {'k': 'call', 'f': 'length', 'args': [E('str', d)]}
            if k < 0.86:
                return {'k': 'call', 'f': 'int', 'args': [E(r.choice(['int', 'bool', 'dec', 'str', 'obj']), d)]}
            if k < 0.92:
                return {'k': 'call', 'f': 'coalesce', 'args': [E('int', d) for _ in range(r.randint(1, 3))]}
            if k < 0.96:
                return {'k': 'call', 'f': 'date_diff', 'args': [E('date', d), E('date', d)]}
            return {'k': 'call', 'f': 'round', 'args': [E('int', d)]}
        if t == 'dec':
            k = r.random()
            if k < 0.4:
                a, b = r.choice([('dec', 'dec'), ('dec', 'int'), ('int', 'dec')])
                return {'k': 'bin', 'op': r.choice(['add', 'sub', 'mul', 'div', 'mod']), 'a': E(a, d), 'b': E(b, d)}
            if k < 0.5:
                return {'k': 'bin', 'op': 'div', 'a': E('int', d), 'b': E('int', d)}
            if k < 0.58:
                return {'k': 'un', 'op': 'neg', 'a': E('dec', d)}
            if k < 0.68:
                return {'k': 'call', 'f': r.choice(['abs', 'neg', 'round']), 'args': [E('dec', d)]}
            if k < 0.76:
                return {'k': 'call', 'f': 'safediv', 'args': [E('dec', d), E(r.choice(['dec', 'int']), d)]}
            if k < 0.84:
                return {'k': 'call', 'f': 'decimal', 'args': [E(r.choice(['int', 'bool', 'dec', 'str', 'obj']), d)]}
            if k < 0.92:
                return {'k': 'bin', 'op': r.choice(['add', 'mul', 'sub']), 'a': {'k': 'col', 'n': 'o'}, 'b': E(r.choice(['int', 'dec']), d)}
            return {'k': 'call', 'f': 'coalesce', 'args': [E('dec', d) for _ in range(r.randint(1, 3))]}
        if t == 'str':
            k = r.random()
            if k < 0.4:
                return {'k': 'call', 'f': r.choice(['upper', 'lower']), 'args': [E('str', d)]}
            if k < 0.7:
                return {'k': 'call', 'f': 'substr', 'args': [E('str', d), E('int', 0), E('int', 0)]}
            if k < 0.82:
                return {'k': 'call', 'f': 'coalesce', 'args': [E('str', d) for _ in range(r.randint(1, 3))]}
            if k < 0.94:
                return {'k': 'call', 'f': 'str', 'args': [E(r.choice(['obj', 'obj', 'int', 'bool', 'str']), d)]}
            return self.leaf('str')
        if t == 'date':
            k = r.random()
            if k < 0.35:
                return {'k': 'bin', 'op': r.choice(['add', 'sub']), 'a': E('date', d), 'b': E('int', d)}
            if k < 0.5:
                return {'k': 'bin', 'op': 'add', 'a': E('int', d), 'b': E('date', d)}
            if k < 0.7:
                return {'k': 'call', 'f': 'date_add', 'args': [E('date', d), E('int', d)]}
            if k < 0.8:
                return {'k': 'call', 'f': 'date', 'args': [E(r.choice(['date', 'obj']), d)]}
            if k < 0.9:
                return {'k': 'call', 'f': 'coalesce', 'args': [E('date', d) for _ in range(r.randint(1, 3))]}
            return self.leaf('date')
        return self.leaf(t)

    def mutate_illtyped(self, e):
        """occasionally break the typing on purpose so that the accept / reject agreement is exercised both ways"""
        r = self.rng
        wrong = r.choice([{'k': 'col', 'n': 's'}, {'k': 'col', 'n': 'd'}, {'k': 'col', 'n': 'b'}, {'k': 'const', 'v': self.value('int', 1.0)},
                          {'k': 'col', 'n': 'nope'}])
        return {'k': 'bin', 'op': r.choice(['add', 'lt', 'mul', 'match']), 'a': e, 'b': wrong}


def random_cases(ctx, path, ncases, maxdepth, maxrows):
    """run random expressions on the real code and log them for Trace_Expr; returns the number of lines"""
    gen = RandomExprs(ctx.rng)
    sch = {n: t for n, t in RandomExprs.COLS}
    n = 0
    cid = 0
    with open(path, 'w') as f:
        while cid < ncases:
            rows = gen.table(ctx.rng.randint(0, maxrows))
            cols = [(nm, {'dec': 'Decimal', 'obj': 'object'}.get(t, t)) for nm, t in RandomExprs.COLS] + [('rid', 'int')]
            pyrows = [tuple((bql.to_py_object if t == 'obj' else bql.to_py)(r[nm]) for nm, t in RandomExprs.COLS) + (i,) for i, r in enumerate(rows, 1)]
            conn = ht.connection(ht.HarnessTable('t', cols, pyrows))
            for _ in range(25):
                cid += 1
                t = ctx.rng.choice(['bool', 'bool', 'int', 'dec', 'str', 'date'])
                gen.budget = 60          # at most ~60 operator nodes per tree
                e = gen.expr(t, ctx.rng.randint(1, maxdepth))
                if ctx.rng.random() < 0.08:
                    e = gen.mutate_illtyped(e)
                try:
                    stmt = bql.select_ast([(bql.expr_ast(e), 'c0')], 't')
                except bql.OutOfDomain:
                    continue
                status, desc, out = selectq.run_query(conn, stmt)
                ev = {'id': cid, 'sch': sch, 'rows': rows, 'e': e, 'ok': status == 'ok', 't': 'ERR', 'vals': [], 'sel': []}
                if status == 'error':
                    # a run-time failure of an accepted statement: judged by TLC unless the spec says out of domain
                    ev['ok'] = True
                    ev['t'] = 'EXC:' + type(desc).__name__
                    ev['exc'] = '%s: %s' % (type(desc).__name__, str(desc)[:200])
                elif status == 'ok':
                    tn = [k for k, v in selectq.TYPEMAP.items() if v is desc[0].datatype]
                    ev['t'] = tn[0] if tn else desc[0].datatype.__name__
                    vals = [bql.from_py(r[0]) for r in out]
                    if any(v[0] == 'ood' or v[0].startswith('other') for v in vals):
                        ctx.skipped += 1
                        continue
                    ev['vals'] = vals
                    st2, d2, out2 = selectq.run_query(conn, bql.select_ast([(bql.expr_ast({'k': 'col', 'n': 'rid'}), 'rid')], 't',
                                                                           where=bql.expr_ast(e)))
                    ev['sel'] = [r[0] for r in out2] if st2 == 'ok' else [-1]
                else:
                    ev['ok'] = False
                    if not isinstance(desc, beanquery.CompilationError):
                        ev['t'] = 'EXC:' + type(desc).__name__
                f.write(json.dumps(ev) + '\n')
                n += 1
                ctx.case('c2s:' + bql.expr_key(e), True)
                if n <= 2:
                    ctx.sample({'leg': 'C2S', 'expr': _text(e), 'accepted': ev['ok'], 'type': ev['t'], 'values': ev['vals'][:4]})
    return n


def validate_expr_trace(ctx, path, nlines, prop_filter=None):
    """TLC judges the recorded lines; rejected lines become violations (or skipped when the spec says ood)"""
    res = ctx.tlc('Trace_Expr', 'Trace_Expr.cfg', leg='C2S', workers=1, env={'TRACE_FILE': path}, timeout=ctx.pick(900, 3600))
    with open(path) as f:
        lines = f.read().split('\n')
    nrej = 0
    for rj in res.printed:
        if not isinstance(rj, dict) or rj.get('verdict') != 'rejected':
            continue
        ev = json.loads(lines[rj['line'] - 1])
        clause = rj['clause']
        if prop_filter and not prop_filter(clause, ev):
            continue
        nrej += 1
        key = 'expr:' + bql.expr_key(ev['e']) + ':' + clause.replace(' ', '-')
        if ev.get('exc'):
            key = 'expr:' + bql.expr_key(ev['e']) + ':' + ev['exc'].split(':')[0]
        ctx.violation(key, 'recorded execution not explained by the specification: ' + clause + (' (' + ev['exc'] + ')' if ev.get('exc') else ''),
                      {'e': ev['e'], 'text': _text(ev['e']), 'rows': ev['rows'][:12], 'observed': {'ok': ev['ok'], 't': ev['t'], 'vals': ev['vals'], 'sel': ev['sel']}},
                      'C2S', rj.get('expected'), {'t': ev['t'], 'vals': ev['vals'][:12]})
    if res.post_failed or res.depth - 1 != nlines:
        raise MachineryError('Trace_Expr did not consume the trace: depth %d, lines %d, errors %s' % (res.depth, nlines, res.errors[:2]))
    ctx.traces += nlines - nrej
    ctx.leg('C2S', expr_lines=nlines, expr_rejected=nrej)
    return nrej
