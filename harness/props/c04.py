"""C04 -- type soundness: announced datatypes are truthful; accepted queries run type-safe.

MC   TypeSound on every generated expression spine (Gen_Expr: TypeOf(e) # ERR => Conforms(Eval(e, row), TypeOf(e)) on
     every base row; the declared overload tables against the semantic functions); the kind lattice laws
S2C  every well-typed spine replayed: the description's datatype is the spec's declared type and every value is NULL
     or an instance of it (ExprReplayer: dtype / instance clauses)
C2S  registry-driven: every overload of the LIVE operator and function registries (aggregates included) x conforming
     operand columns (NULLs in every position), every column of every table (harness, all Beancount-backed tables over
     the example ledger and a feature ledger, subquery tables), attribute / subscript access on every structured type,
     DISTINCT / GROUP BY / ORDER BY / min / max crossed with every column datatype -- executed through
     Connection.execute, results pushed through render_text / render_csv / numberify; each event judged by TLC
     (Trace_Types: value kind conforms to the announced datatype; no TypeError / AttributeError; renderers succeed)
"""
import datetime
import decimal
import io
import itertools
import json

from harness import exprcheck, selectq
from harness import tables as ht
from harness.core import MachineryError

D = decimal.Decimal


def sample_columns():
    from beancount.core import amount, position, inventory, data
    from dateutil.relativedelta import relativedelta
    A = amount.Amount
    cost = position.Cost(D('10'), 'USD', datetime.date(2020, 1, 1), None)
    inv = inventory.Inventory()
    inv.add_amount(A(D('1.5'), 'USD'))
    inv.add_amount(A(D('2'), 'CAD'), cost)
    cols = {
        'ci': (int, [3, 0, -2, None]),
        'cd': (D, [D('1.50'), D('0'), None, D('-2.25')]),
        'cs': (str, ['Assets:Cash', None, 'a b', '2020-01-02']),
        'cdate': (datetime.date, [datetime.date(2020, 2, 29), datetime.date(1999, 12, 31), None, datetime.date(2020, 1, 1)]),
        'cb': (bool, [True, False, None, True]),
        'co': (object, [5, 'x', None, D('1.5')]),
        'co2': (object, [A(D('12.5'), 'USD'), (1, 2), ['a'], None]),      # untyped cells holding structured values (amount-valued metadata)
        'cset': (set, [{'a', 'b'}, set(), None, {'Assets:Cash'}]),
        'clist': (list, [['a'], [], None, ['b', 'c']]),
        'cdict': (dict, [{'k': 'v'}, {}, None, {'k': 1}]),
        'camt': (A, [A(D('1.5'), 'USD'), A(D('-3'), 'CAD'), None, A(D('0'), 'USD')]),
        'cpos': (position.Position, [position.Position(A(D('2'), 'HOOL'), cost), position.Position(A(D('5'), 'USD'), None), None,
                                     position.Position(A(D('-1'), 'HOOL'), cost)]),
        'cinv': (inventory.Inventory, [inv, inventory.Inventory(), None, inv]),
        'civ': (relativedelta, [relativedelta(days=1), relativedelta(months=2), None, relativedelta(years=1)]),
    }
    return cols


def mro_names(v):
    if v is None:
        return []
    return [c.__name__ for c in type(v).__mro__ if c is not object]


def tname(t):
    return getattr(t, '__name__', str(t))


def run_event(conn, stmt, what, events, ctx, fmt=True):
    """execute, log one event per distinct (value kind) of every output column, then the render events"""
    from beanquery import query_render, numberify
    status, desc, rows = selectq.run_query(conn, stmt)
    if status == 'rejected':
        return 'rejected'
    if status == 'error':
        events.append({'what': what, 'declared': '?', 'mro': [], 'exc': type(desc).__name__, 'phase': 'run', 'msg': str(desc)[:160]})
        return 'error'
    for j, col in enumerate(desc):
        kinds = {}
        for r in rows:
            kinds[tuple(mro_names(r[j]))] = True
        for m in kinds or {(): True}:
            events.append({'what': what + ('' if len(desc) == 1 else '#%d' % j), 'declared': tname(col.datatype), 'mro': list(m), 'exc': '', 'phase': 'run'})
    if fmt:
        from beancount.core import display_context
        dctx = display_context.DisplayContext().build()
        for name, fn in (('render_text', lambda: query_render.render_text(desc, rows, dctx, io.StringIO())),
                         ('render_csv', lambda: query_render.render_csv(desc, rows, dctx, io.StringIO())),
                         ('numberify', lambda: numberify.numberify_results(desc, rows, dctx))):
            try:
                fn()
                exc = ''
            except Exception as ex:  # noqa
                exc = type(ex).__name__
                msg = str(ex)[:160]
            ev = {'what': what + ':' + name, 'declared': ','.join(tname(c.datatype) for c in desc), 'mro': [], 'exc': exc, 'phase': 'render'}
            if exc:
                ev['msg'] = msg
            events.append(ev)
    return 'ok'


def registry_leg(ctx):
    import beanquery
    from beanquery import query_compile as qc, types
    from beanquery.parser import ast
    from beancount import loader
    from beancount.scripts import example
    cols = sample_columns()
    bytype = {}
    for n, (t, vals) in cols.items():
        bytype.setdefault(t, []).append(n)
    table = ht.HarnessTable('types', [(n, t) for n, (t, v) in cols.items()], list(zip(*[v for (t, v) in cols.values()])))
    out = io.StringIO()
    example.write_example_file(datetime.date(2019, 1, 1), datetime.date(2020, 1, 1), datetime.date(2021, 1, 1), True, out)
    text = out.getvalue() + '''
2020-06-01 * "P" "with meta" #t1 ^l1
  tkey: "tv"
  Assets:US:BofA:Checking  -10.00 USD
    pkey: 42
  Expenses:Food:Restaurant  10.00 USD
2020-06-02 note Assets:US:BofA:Checking "a note"
2020-06-03 event "location" "here"
2020-06-04 document Assets:US:BofA:Checking "/tmp/none.pdf"
2020-06-05 query "q1" "SELECT 1"
2020-06-06 custom "budget" "x" 1.0 USD
'''
    entries, errors, options = loader.load_string(text)
    conn = beanquery.connect('beancount:', entries=entries, errors=errors, options=options)
    conn.tables['types'] = table
    events = []
    uncovered = 0
    anycols = ['ci', 'cs', 'cd', 'cdate', 'camt']

    def operand_choices(t):
        if t is types.Any or (isinstance(t, type(types.Any))):
            return [ast.Column(c) for c in anycols]
        if t is types.Asterisk:
            return [ast.Asterisk()]
        names = list(bytype.get(t) or [])
        if t is int:
            names.append('cb')        # a bool is an int for the function / unary operator lookup
        if not names and isinstance(t, type):
            names = [n for n, (ct, v) in cols.items() if isinstance(ct, type) and ct is not object and issubclass(ct, t) and t is not object]
        return [ast.Column(c) for c in names] if names else None

    # operators
    binmap = {}
    for node, impls in qc.OPERATORS.items():
        for impl in impls:
            intypes = getattr(impl, '__intypes__', None)
            if not intypes:
                continue
            choices = [operand_choices(t) for t in intypes]
            what = 'op:%s[%s]' % (node.__name__, ','.join(tname(t) for t in intypes))
            if any(c is None for c in choices):
                uncovered += 1
                continue
            if node in (ast.In, ast.NotIn):
                choices[0] = [ast.Column('cs')]       # membership of a str in a collection of str
            exact_binary = len(intypes) >= 2
            for combo in itertools.islice(itertools.product(*choices), 6):
                if exact_binary and any(getattr(c, 'name', '') == 'cb' for c in combo):
                    continue                           # binary operators match operand types exactly
                if issubclass(node, ast.Between):
                    e = node(*combo)
                elif len(combo) == 1:
                    e = node(combo[0])
                else:
                    e = node(*combo)
                stmt = selectq.bql.select_ast([(e, 'r')], 'types')
                st = run_event(conn, stmt, what, events, ctx)
                ctx.case(what + str([getattr(c, 'name', '*') for c in combo]), True)
                if st == 'rejected':
                    # an overload registered for these exact operand types must be accepted (Any operands may not match others)
                    if not any(t is types.Any for t in intypes):
                        events.append({'what': what + ':rejected', 'declared': '?', 'mro': [], 'exc': 'TypeError', 'phase': 'compile',
                                       'msg': 'registered overload rejected by the compiler'})
    # implicit casts: an untyped operand next to a typed one, under every binary operator, both ways round
    for node in (ast.Add, ast.Sub, ast.Mul, ast.Div, ast.Mod, ast.Equal, ast.NotEqual, ast.Less, ast.LessEq, ast.Greater, ast.GreaterEq):
        for oc in ('co', 'co2'):
            for tc in ('ci', 'cd', 'cs', 'cdate', 'cb'):
                for e in (node(ast.Column(oc), ast.Column(tc)), node(ast.Column(tc), ast.Column(oc))):
                    what = 'op:%s[untyped:%s,%s]' % (node.__name__, oc, tc)
                    run_event(conn, selectq.bql.select_ast([(e, 'r')], 'types'), what, events, ctx, fmt=False)
                    ctx.case(what + str(isinstance(e.left, ast.Column) and e.left.name), True)
    # functions (scalar and aggregate)
    strargs = ['cs', "year", "USD", "a", "Assets", "1 day", "%Y-%m-%d", "k", ":"]
    for name, impls in sorted(qc.FUNCTIONS.items()):
        for impl in impls:
            intypes = getattr(impl, '__intypes__', None)
            if intypes is None:
                continue
            choices = []
            for t in intypes:
                c = operand_choices(t)
                if t is str and c:
                    c = c + [ast.Constant(s) for s in strargs[1:]]
                if t is int and c:
                    c = c + [ast.Constant(1)]
                choices.append(c)
            what = 'fn:%s(%s)' % (name, ','.join(tname(t) for t in intypes))
            impure = not issubclass(impl, qc.EvalAggregator) and not getattr(impl, 'pure', True)
            if impure:
                # row / context functions only make sense on the Beancount tables: operands from #postings
                from beancount.core import amount as _a, position as _p, inventory as _i
                pmap = {str: [ast.Column('account'), ast.Column('currency')] + [ast.Constant(s) for s in strargs[1:4]],
                        datetime.date: [ast.Column('date')], D: [ast.Column('number')], int: [ast.Column('year')],
                        _p.Position: [ast.Column('position')], _i.Inventory: [ast.Column('balance')],
                        _a.Amount: [ast.Function('units', [ast.Column('position')])]}
                choices = [pmap.get(t) for t in intypes]
            if any(c is None for c in choices):
                uncovered += 1
                continue
            combos = list(itertools.islice(itertools.product(*choices), 40)) if choices else [()]
            ctx.rng.shuffle(combos)
            for combo in combos[:8]:
                e = ast.Function(name, list(combo))
                stmt = selectq.bql.select_ast([(e, 'r')], 'postings' if impure else 'types', limit=60 if impure else None)
                run_event(conn, stmt, what, events, ctx)
                ctx.case(what + str([getattr(c, 'name', getattr(c, 'value', '*')) for c in combo]), True)
    # every column of every table; attribute access on structured types; subscript on dict columns
    for tn, tab in conn.tables.items():
        if not tn:
            continue
        for cn, col in tab.columns.items():
            what = 'col:%s.%s' % (tn, cn)
            stmt = selectq.bql.select_ast([(ast.Column(cn), 'r')], tn, limit=400)
            run_event(conn, stmt, what, events, ctx, fmt=(tn != 'entries' or cn not in ('entry',)))
            ctx.case(what, True)
            dtype = types.ALIASES.get(col.dtype, col.dtype)
            if isinstance(dtype, type) and issubclass(dtype, types.Structure):
                for an in dtype.columns:
                    w2 = 'attr:%s.%s.%s' % (tn, cn, an)
                    stmt = selectq.bql.select_ast([(ast.Attribute(ast.Column(cn), an), 'r')], tn, limit=200)
                    run_event(conn, stmt, w2, events, ctx)
                    ctx.case(w2, True)
            if isinstance(col.dtype, type) and issubclass(col.dtype, dict):
                w2 = 'subscript:%s.%s' % (tn, cn)
                stmt = selectq.bql.select_ast([(ast.Subscript(ast.Column(cn), 'filename'), 'r')], tn, limit=200)
                run_event(conn, stmt, w2, events, ctx)
            # clauses that need hashable / orderable values, crossed with every column datatype
            mate = next((n for n, c2 in tab.columns.items() if c2.dtype in (int, str, datetime.date) and n != cn), cn)
            for clause, mk in (('distinct', lambda: selectq.bql.select_ast([(ast.Column(cn), 'r')], tn, distinct=True, limit=200)),
                               ('distinct-mixed', lambda: selectq.bql.select_ast([(ast.Column(mate), 'm'), (ast.Column(cn), 'r')], tn, distinct=True, limit=200)),
                               ('distinct-mixed2', lambda: selectq.bql.select_ast([(ast.Column(cn), 'r'), (ast.Column(mate), 'm')], tn, distinct=True, limit=200)),
                               ('orderby', lambda: selectq.bql.select_ast([(ast.Column(cn), 'r')], tn, order_by=[ast.OrderBy(ast.Column(cn), ast.Ordering.ASC)], limit=200)),
                               ('groupby', lambda: selectq.bql.select_ast([(ast.Column(cn), 'r'), (ast.Function('count', [ast.Asterisk()]), 'n')], tn,
                                                                          group_by=ast.GroupBy([1], None), limit=200)),
                               ('implicit-groupby', lambda: selectq.bql.select_ast([(ast.Column(cn), 'r'), (ast.Function('count', [ast.Asterisk()]), 'n')], tn, limit=200)),
                               ('groupby-twice', lambda: selectq.bql.select_ast([(ast.Column(cn), 'r'), (ast.Column(mate), 'm'), (ast.Function('count', [ast.Asterisk()]), 'n')], tn,
                                                                                group_by=ast.GroupBy([ast.Column('r'), 1, ast.Column('m')], None), limit=200)),
                               ('groupby-hidden', lambda: selectq.bql.select_ast([(ast.Function('count', [ast.Asterisk()]), 'n')], tn,
                                                                                 group_by=ast.GroupBy([ast.Column(cn)], None), limit=200)),
                               ('min', lambda: selectq.bql.select_ast([(ast.Function('min', [ast.Column(cn)]), 'r')], tn)),
                               ('max', lambda: selectq.bql.select_ast([(ast.Function('max', [ast.Column(cn)]), 'r')], tn)),
                               ('first', lambda: selectq.bql.select_ast([(ast.Function('first', [ast.Column(cn)]), 'r')], tn)),
                               ('count', lambda: selectq.bql.select_ast([(ast.Function('count', [ast.Column(cn)]), 'r')], tn))):
                if cn == 'co2':
                    continue          # mixed structured values in an untyped column: for the operator / function walks only
                if tn in ('postings', 'entries') and cn not in ('account', 'date', 'meta', 'position', 'balance', 'other_accounts', 'tags', 'weight', 'price', 'number', 'flag'):
                    continue
                w3 = 'clause:%s:%s' % (clause, tname(col.dtype))
                run_event(conn, mk(), w3 + '@%s.%s' % (tn, cn), events, ctx, fmt=False)
                ctx.case(w3 + tn + cn, True)
    # the same columns over the entries a FROM clause with OPEN / CLOSE / CLEAR presents: the summarisation directives it
    # synthesises (no metadata, no payee, flag 'S' ...) are conforming data of the ledger tables too
    for quals in ('OPEN ON 2019-07-01', 'CLOSE ON 2020-03-01', 'CLEAR', 'OPEN ON 2019-07-01 CLOSE ON 2020-03-01 CLEAR', 'year = 2019 OPEN ON 2019-07-01 CLEAR'):
        for cn, col in conn.tables['postings'].columns.items():
            what = 'col:postings[%s].%s' % (quals, cn)
            run_event(conn, 'SELECT %s AS r FROM %s' % (cn, quals), what, events, ctx, fmt=(quals.startswith('OPEN ON 2019-07-01 CLOSE')))
            ctx.case(what, True)
            dtype = types.ALIASES.get(col.dtype, col.dtype)
            if quals == 'OPEN ON 2019-07-01 CLOSE ON 2020-03-01 CLEAR' and isinstance(dtype, type) and issubclass(dtype, types.Structure):
                for an in dtype.columns:
                    w2 = 'attr:postings[%s].%s.%s' % (quals, cn, an)
                    run_event(conn, 'SELECT %s.%s AS r FROM %s' % (cn, an, quals), w2, events, ctx, fmt=False)
                    ctx.case(w2, True)
    # pivoted results announce the datatypes of the remaining columns, wherever the pivot columns sit
    for text in ("SELECT sum(cd) AS t, cs, ci FROM #types WHERE cs IS NOT NULL AND ci IS NOT NULL GROUP BY cs, ci PIVOT BY cs, ci",
                 "SELECT cs, sum(cd) AS t, ci, count(*) AS n FROM #types WHERE cs IS NOT NULL AND ci IS NOT NULL GROUP BY cs, ci PIVOT BY 1, 3",
                 "SELECT ci, max(cdate) AS d, cs FROM #types WHERE cs IS NOT NULL AND ci IS NOT NULL GROUP BY 1, 3 PIVOT BY 3, 1",
                 "SELECT account, sum(position) AS total, year FROM #postings GROUP BY account, year PIVOT BY 1, 3",
                 "SELECT sum(number) AS total, currency, year FROM #postings GROUP BY currency, year PIVOT BY currency, year"):
        run_event(conn, text, 'pivot:' + text[:60], events, ctx)
        ctx.case('pivot:' + text, True)
    # subquery tables carry the inner datatypes
    for cn in cols:
        sub = selectq.bql.select_ast([(ast.Column(cn), 'x')], 'types')
        stmt = selectq.bql.select_ast([(ast.Column('x'), 'r')], sub)
        run_event(conn, stmt, 'subquery:%s' % cn, events, ctx)
    # ... and only those: a sequence of subqueries with different output names, each also asked for the previous one's name
    # (must be rejected; if it is accepted its values are judged against what it announces), for its wildcard and, between
    # them, a statement without FROM naming the last output
    prev = None
    for cn in cols:
        name = 'x_' + cn
        sub = selectq.bql.select_ast([(ast.Column(cn), name)], 'types')
        run_event(conn, selectq.bql.select_ast([(ast.Column(name), 'r')], sub), 'subquery-seq:%s' % cn, events, ctx, fmt=False)
        status, desc, rows = selectq.run_query(conn, selectq.bql.select_ast('*', selectq.bql.select_ast([(ast.Column(cn), name)], 'types')))
        if status != 'ok' or [c.name for c in desc] != [name] or any(len(r) != 1 for r in rows):
            events.append({'what': 'subquery-seq:star:%s' % cn, 'declared': '?', 'mro': [], 'exc': 'TypeError', 'phase': 'run',
                           'msg': 'SELECT * over a one-column subquery: %s' % (repr(desc)[:120])})
        if prev is not None:
            sub2 = selectq.bql.select_ast([(ast.Column(cn), name)], 'types')
            run_event(conn, selectq.bql.select_ast([(ast.Column(prev), 'r')], sub2), 'subquery-seq:stale:%s' % cn, events, ctx, fmt=False)
            st = run_event(conn, ast.Select([ast.Target(ast.Column(prev), 'r')], None, None, None, None, None, None, None), 'subquery-seq:nofrom:%s' % cn, events, ctx, fmt=False)
        prev = name
    return events, uncovered


def key_of(ev):
    w = ev['what']
    if w.startswith('clause:'):
        return w.split('@')[0] + ':' + (ev['exc'] or 'kind')
    return w + ':' + (ev['exc'] or 'kind')


def run(ctx):
    ctx.rule = ('S2C: every well-typed expression spine of depth 1 (quick) / 2 (thorough); C2S: every overload of the live '
                'registries x up to 6-8 operand tuples, every column / attribute of every table, clause x datatype crossings; '
                'distinct by (overload / column, operands); all non-trivial')
    ctx.assumptions += ['collections are compared by kind; object admits anything; NULL conforms to everything',
                        'run-time errors other than TypeError / AttributeError (value errors of specific functions on generic '
                        'sample strings) are not typing errors and are not judged',
                        'TLC 1.8, CPython 3.12, Beancount 3.x']
    # ---- MC + S2C on the transcription
    rp = exprcheck.ExprReplayer(ctx, 'types')
    res = ctx.tlc('Gen_Expr', ctx.pick('Gen_Expr1.cfg', 'Gen_Expr2.cfg'), leg='MC+GEN', on_json=rp.feed, timeout=ctx.pick(600, 7200))
    rp.flush()
    if res.violated:
        ctx.violation('spec:' + ','.join(res.violated), 'TLC: type soundness fails on the transcription', {'behaviour': res.behaviour[:3000]}, 'MC')
    ctx.leg('S2C', expressions=rp.n_expr, cells=rp.n_cells)
    # ill-typed spines: whatever the compiler decides, an ACCEPTED statement must not die with a type error
    nill = [0, 0, 0]
    ill_events = []

    def ill(m):
        if 'table' in m:
            return
        nill[0] += 1
        try:
            stmt = selectq.bql.select_ast([(selectq.bql.expr_ast(m['e']), 'c0')], 't')
        except selectq.bql.OutOfDomain:
            return
        status, desc, rows = selectq.run_query(rp.conn, stmt)
        nill[1] += 1
        ctx.traces += 1
        if status == 'ok':
            # the compiler's typing is more liberal than the model's here: whatever it announces must still be true
            nill[2] += 1
            run_event(rp.conn, stmt, 'accepted:' + selectq.bql.expr_key(m['e']), ill_events, ctx, fmt=False)
        if status == 'error' and type(desc).__name__ in ('TypeError', 'AttributeError'):
            ctx.violation('illtyped:' + selectq.bql.expr_key(m['e']).split('(')[0] + ':' + type(desc).__name__,
                          'a statement the type checker accepted fails with a type error: %s' % desc,
                          {'e': m['e']}, 'S2C', 'CompilationError or a type-safe run', repr(desc))
    ctx.tlc('Gen_Expr', 'Gen_ExprIll1.cfg', leg='GEN', on_json=ill)
    ctx.leg('S2C', illtyped_spines_run=nill[1], accepted_by_the_compiler=nill[2])
    # ---- C2S registry-driven
    events, uncovered = registry_leg(ctx)
    events = events + ill_events
    for i, ev in enumerate(events, 1):
        ev['id'] = i
    path = ctx.path('types.ndjson')
    with open(path, 'w') as f:
        for ev in events:
            # operators have no value-dependent failures (their arithmetic errors are NULL): whatever escapes from an operator over
            # conforming columns comes from the implicit casts, i.e. from the runtime type of a value
            ev['implicit'] = 1 if ev['what'].startswith('op:') and ev['phase'] == 'run' else 0
            f.write(json.dumps({k: ev[k] for k in ('id', 'what', 'declared', 'mro', 'exc', 'phase', 'implicit')}) + '\n')
    ctx.sample({'leg': 'C2S', 'events': events[:3]})
    res = ctx.tlc('Trace_Types', 'Trace_Types.cfg', leg='C2S', workers=1, env={'TRACE_FILE': path})
    if res.violated:
        raise MachineryError('kind lattice laws violated: %s' % res.violated)
    nrej = 0
    for rj in res.printed:
        if isinstance(rj, dict) and rj.get('verdict') == 'rejected':
            ev = events[rj['line'] - 1]
            nrej += 1
            ctx.violation(key_of(ev), rj['clause'] + ': ' + ev['what'] + (' -- ' + ev.get('msg', '') if ev.get('msg') else ''),
                          ev, 'C2S', 'value of kind %s, no type error' % ev['declared'], {'mro': ev['mro'], 'exc': ev['exc']})
    if res.post_failed or res.depth - 1 != len(events):
        raise MachineryError('Trace_Types did not consume the trace')
    ctx.traces += len(events) - nrej
    ctx.leg('C2S', events=len(events), rejected=nrej, overloads_without_sample_operands=uncovered)
    if len(events) < 1500:
        raise MachineryError('too few registry events: %d' % len(events))
    ctx.exhaustive = False


def replay(ctx, rep):
    print(json.dumps(rep['case'])[:800])
    return 1
