"""C12 -- inventory aggregation is a homomorphism; the running balance is the prefix sum
(spec/Inventory.tla, spec/Balance.tla with one thread).

legs: MC   TLC checks the laws of the inventory algebra (monoid, F(a+b) = F(a)+F(b) for units / cost / value / convert
           with and without dates, f(sum) = sum(f), partition additivity, prefix sums) over an enumerated argument
           space, and -- on the mechanism of the `balance` column (row context, per-row memo, WHERE conjuncts with
           short circuit, targets, an interposed IN-subquery scan) -- that every delivered value is the sum over the
           postings for which balance has been consulted, hence the prefix sum over the selection, the last one
           sum(position), for every number k of references.  Non-vacuity: the mechanism as shipped before fix 678e809 (one
           process-wide entry) and the mechanism without a memo must be rejected; a cost-losing sum must break the laws.
      S2C  TLC (simulation over a step-by-step case builder) emits ledgers x selections x conjuncts x target lists
           x interposed scans x price tables with the rows, the subquery result and all aggregate expectations; the
           driver builds the real ledger, runs the statements through beanquery.connect(...) and compares.
      C2S  windows of the Beancount example ledger and seeded random ledgers: the driver records positions, masks,
           the balance column, per-row f(position), sums, f of sums and grouped sums; TLC (Trace_Balance) judges them
           with SerialRows and the Inventory operators.
      sum() over INVENTORY values (spec/InvSum.tla, spec/SumStore.tla; harness/sumstore.py): the operand of sum() is
      then a mutable object that can outlive the statement and that several aggregate nodes of one statement share.
      MC   TLC checks the aggregate mechanism with object identity (a heap; per-group stores, one slot per aggregate
           node, initialise / update / finalise) on every small table x history of statements (1..3 nodes over the same
           operand, f of the sum next to the sum of f, GROUP BY, HAVING): every statement of a history returns
           InvSum!Expected of the table AS DEFINED, the cells are never changed, accumulators are nobody else's object.
           Non-vacuity: an empty accumulator that adopts the operand object must be rejected.
      S2C  every TLC-emitted case is also realised (a) as a sub-select of partial sums aggregated again and (b) as a user
           table holding inventories (chunks of the ledger, NULL and empty cells) shared by two connections, on which a
           history of statements runs; expectations are the sums / f-sums TLC emitted for the case.
      C2S  tables of per-transaction inventories from the example ledger and random ledgers, histories of 2..4 random
           statements; the table is recorded before anything runs; TLC (Trace_SumStore) judges every statement.
      LIMIT (no ORDER BY) on aggregate statements: the mechanism SumStore returns the first `limit` groups in creation
      order, the property (InvSum!Conforms) asks for that many rows of the statement without LIMIT, each one complete;
      non-vacuity: a scan abandoned when group number limit + 1 shows up must be rejected.  Every S2C case / C2S line also
      runs a grouped statement with a LIMIT below / at / above the number of groups (sum(position) families: `lgroups`
      of the hom line, judged by Trace_Balance; inventory tables and sub-selects: `limit` of the statement), and the
      balance statements of C2S carry a LIMIT now and then (the rows are then a prefix of SerialRows).
      Price directives dated AFTER the day the check runs (forecasts) are part of the generated price tables, the random
      ledgers and the example windows: "no date" means the latest price entered, for positions and inventories alike.
      balance UNDER AN ENCLOSING EXPRESSION whose other operand is NULL (decides) on some rows -- target kinds XB
      g(x, balance), BX g(balance, x) (function calls) and XL (short-circuit operators) of Balance.tla with the NULL
      pattern `nul` as a dimension of the program: the balance is the same prefix sum for every reference, whatever
      encloses it and whether or not the enclosing expression showed it in earlier rows.  MC: every ledger <= 2 (3)
      postings x NULL pattern x row filter; non-vacuity: function calls that stop at the first NULL operand must be
      rejected; the short-circuit operators AS SHIPPED are rejected too (known finding).  S2C / C2S: realised with
      identity-like BQL functions registered through the public registry (c12_second(x, balance), c12_first(balance, x),
      coalesce(c12_mark(x), balance)) over a NULL-able metadata key (S2C) / a NULL-able column of the ledger (C2S).
      LAW leg (relational, no oracle): "however many times the targets reference it" -- a statement whose only
      reference is inside an expression E(balance) with a NULL-able operand (built-in functions: only, convert, value,
      filter_currency, ...; operators: AND, OR, coalesce, *) returns the same E values as the statement with a plain
      `balance` target added.
      ONE CONNECTION ATTACHED AGAIN (spec/Reload.tla: attach / statement row by row / finish; a memo of the per-posting
      conversions keyed by connection and arguments is refuted): every S2C case carries a second price table and the
      expectations for it, the driver attaches the ledger with the edited prices to the SAME connection and runs the
      aggregate families again; every C2S ledger is attached a second time with edited prices and further hom lines
      are recorded (judged by TLC with the prices attached at that time).
      A mismatch is replayed by TLC on the mechanism as shipped before fix 678e809 (Trace_Balance_shipped.cfg, one
      process-wide cache entry): if that explains the observation exactly and the statement has the matching shape the
      violation gets the key of that defect (listed as fixed in known_findings.d), otherwise a key naming the statement shape.
"""
import dataclasses
import datetime
import decimal
import io
import json
import random

from harness import balance as hb
from harness import sumstore as ss
from harness.core import MachineryError

KNOWN_KEY = 'balance:interposed-scan:double-count'
LAZY_KEY = 'balance:under-short-circuit-operator:coalesce'
COVER = ('NextRow', 'Finish', 'EvalBalance', 'EvalNested', 'Mask', 'Interpose', 'UpdateAgg', 'EmitRow')


# ---- balance under an enclosing expression (target kinds XB, BX, XL of Balance.tla) ---------------------------------
NESTED = ('XB', 'BX', 'XL')
MARK = 'CNULL'
_INSTALLED = []


def install_functions():
    """identity-like BQL functions, registered through beanquery's public function registry (query_env.function):
    c12_second(x, inv) = inv, c12_first(inv, x) = inv -- NULL when x is NULL, as every BQL function -- and
    c12_mark(x) = a marker inventory (projected to NULL) for the first operand of coalesce()"""
    if _INSTALLED:
        return
    from beancount.core import amount, inventory, position
    from beanquery import query_env

    def c12_second(x, inv):
        return inv

    def c12_first(inv, x):
        return inv

    def c12_mark(x):
        return inventory.Inventory([position.Position(amount.Amount(hb.D(1), MARK), None)])
    # (the registry matches `object` for untyped values only: one overload per datatype of the other operand)
    for t in (object, str, datetime.date, decimal.Decimal, amount.Amount):
        query_env.function([t, inventory.Inventory], inventory.Inventory, name='c12_second')(c12_second)
        query_env.function([inventory.Inventory, t], inventory.Inventory, name='c12_first')(c12_first)
        query_env.function([t], inventory.Inventory, name='c12_mark')(c12_mark)
    _INSTALLED.append(True)


def has_nested(prog, kinds=NESTED):
    return any(a in kinds for a in prog['targets'])


def nested_exprs(style):
    x = (style or {}).get('x', "any_meta('nn')")        # NULL on the postings marked in `nul`
    y = (style or {}).get('y', "any_meta('nu')")        # not NULL exactly there
    return {'XB': 'c12_second(%s, balance)' % x, 'BX': 'c12_first(balance, %s)' % x,
            'XL': 'coalesce(c12_mark(%s), balance)' % y}


def statement(prog, tid=0, rng=None, style=None):
    """hb.statement for programs whose targets may be XB / BX / XL"""
    plain = dict(prog, targets=['B' if a in NESTED else a for a in prog['targets']])
    text, params, cols, parts = hb.statement(plain, tid, rng, style)
    if has_nested(prog):
        install_functions()
        ex = nested_exprs(style)
        tg = list(parts[0])
        for n, a in enumerate(prog['targets']):
            if a in NESTED:
                tg[n + 1] = (ex[a], tg[n + 1][1])
        parts = (tg,) + tuple(parts[1:])
        text = hb.select_text(*parts)
    return text, params, cols, parts


def project_rows(raw, cols):
    rows = hb.project_rows(raw, cols)
    for r in rows:
        r[1] = [None if v is not None and any(k[0] == MARK for k in v) else v for v in r[1]]
    return rows


def run_program(conn, prog, rng=None, style=None, as_text=False):
    text, params, cols, parts = statement(prog, 0, rng, style)
    cur = conn.execute(text if as_text else hb.select(*parts), params)
    return project_rows(cur.fetchall(), cols), text


def expected_rows(spec_rows, prog, scale=1):
    """rows emitted by TLC in the shape of project_rows; the NULL marker of Balance.tla (NullInv) is None"""
    ns = sum(1 for a in prog['targets'] if a == 'S')
    return [[rowid, [None if any(p[0][0] == 'NULL' for p in v) else hb.spec_inventory(v, scale) for v in vals], [sval] * ns]
            for rowid, vals, sval in spec_rows]


def trace_prog(prog, ledger_positions=None):
    tp = hb.prog_to_trace(prog, ledger_positions)
    if has_nested(prog):
        tp['nul'] = [bool(x) for x in prog['nul']]
    return tp


def mark_nul(entries, nul):
    """posting i gets the metadata key nu when nul[i] and nn otherwise (any_meta() of the other key is NULL)"""
    from beancount.core import data
    out = []
    for e in entries:
        if isinstance(e, data.Transaction):
            e = e._replace(postings=[p._replace(meta=dict(p.meta, **{'nu' if nul[p.meta['pid'] - 1] else 'nn': 'y'}))
                                     for p in e.postings])
        out.append(e)
    return out


def reattach(conn, entries):
    """the edited ledger is attached to the SAME connection object (what the shell does on .reload)"""
    conn.attach('beancount:', entries=entries, errors=[], options=hb.options())


# ---- f in BQL --------------------------------------------------------------------------------------------------
def f_bql(f, x):
    name, tgt, d = f
    date = '' if not d else ', %s' % datetime.date.fromordinal(d).isoformat()
    if name in ('units', 'cost'):
        return '%s(%s)' % (name, x)
    if name == 'value':
        return 'value(%s%s)' % (x, date)
    return "convert(%s, '%s'%s)" % (x, tgt, date)


def f_name(f):
    return f[0] + ('-dated' if f[2] else '') + (':' + f[1] if f[1] else '')


def hom_targets(fs, x_row='position', x_sum='sum(position)'):
    tg = [(x_sum, 's0')]
    for i, f in enumerate(fs):
        tg.append((f_bql(f, x_sum), 'a%d' % i))
        tg.append(('sum(%s)' % f_bql(f, x_row), 'b%d' % i))
    return tg


def limited(sel, n):
    """the assembled SELECT with LIMIT n (n = 0: as is)"""
    return dataclasses.replace(sel, limit=n) if n else sel


FUTURE0 = datetime.date(2100, 1, 1).toordinal()     # "after the day the check runs", for the foreseeable future


def future_ordinal(rng):
    return FUTURE0 + rng.randint(0, 300000)


# ---- S2C ---------------------------------------------------------------------------------------------------------
class Suspects:
    """observations the property-conforming specification does not explain; classified at the end by replaying them
    on the mechanism as shipped (TLC)"""

    def __init__(self):
        self.items = []

    def add(self, leg, prog, rows, case, expected, text):
        self.items.append(dict(leg=leg, prog=prog, rows=rows, case=case, expected=expected, text=text))


def cmp_rows(exp, got):
    if len(exp) != len(got):
        return 'row count %d, expected %d' % (len(got), len(exp))
    for n, (e, g) in enumerate(zip(exp, got)):
        if e[0] != g[0]:
            return 'row %d is posting %s, expected posting %s' % (n + 1, g[0], e[0])
        if e[1] != g[1]:
            return 'balance of posting %s' % e[0]
        if e[2] != g[2]:
            return 'IN-subquery value at posting %s' % e[0]
    return None


def replay_case(ctx, c, rseed, suspects, sample=False):
    """rseed fixes the realisation (scale of the units, packing into transactions, statement style): stored in the case"""
    rng = random.Random(rseed)
    prog = {k: c[k] for k in ('ledger', 'mask', 'where', 'targets', 'subbal', 'nul')}
    prog['agg'] = False
    if c['rows'] != c['mech'] and not has_nested(prog, ('XL',)):
        raise MachineryError('the mechanism of Balance.tla and SerialRows disagree on a generated case: %s' % json.dumps(prog))
    scale = rng.choice((1, 1, 10, 100))
    from beancount.core import data
    # price directives may be dated after the last transaction (and after today): keep the ledger in date order
    txns = mark_nul(hb.build_entries(c['ledger'], c['mask'], c['grp'], (), rng, scale), c['nul'])
    # postings carry price annotations, preferably in a currency their commodity has a price in (either price table):
    # not part of the position, hence not part of any expectation
    txns = annotated(txns, rng, {(p[0], p[1]) for p in list(c['prices']) + list(c['prices2'])})
    entries = sorted(hb.build_entries([], [], [], c['prices']) + txns, key=data.entry_sortkey)
    conn = hb.connect(entries)
    case = {'kind': 'balance', 'case': c, 'scale': scale, 'rseed': rseed}
    ok = True
    # -- the balance column
    lim, lrows = 0, None
    try:
        rows, text = run_program(conn, prog, rng=rng, as_text=sample)
        again = run_program(conn, prog, rng=rng)[0] if rng.random() < 0.3 else rows
        if rng.random() < 0.25:
            # the same statement with a LIMIT: the first rows of the specification's rows
            lim = rng.randint(1, 4)
            ltext, params, cols, parts = statement(prog, 0, rng)
            lrows = project_rows(conn.execute(limited(hb.select(*parts), lim), params).fetchall(), cols)
    except Exception as ex:  # noqa
        ctx.violation('balance:exception:%s' % type(ex).__name__, 'statement raised %r' % (ex,), case, 'S2C')
        return False
    exp = expected_rows(c['rows'], prog, scale)
    why = cmp_rows(exp, rows) or cmp_rows(exp, again)
    if why:
        suspects.add('S2C', prog, rows if cmp_rows(exp, rows) else again, case, exp, text)
        ok = False
    elif lrows is not None and cmp_rows(exp[:lim], lrows):
        ctx.violation('balance:limit:' + hb.shape_key(prog), 'rows of %s LIMIT %d: %s' % (
            ltext, lim, cmp_rows(exp[:lim], lrows)), dict(case, limit=lim), 'S2C', hb_show_rows(exp[:lim]), hb_show_rows(lrows))
        ok = False
    if sample:
        ctx.sample({'leg': 'S2C', 'statement': text, 'ledger': c['ledger'], 'mask': c['mask'],
                    'expected_rows': c['rows'][:3]})
    # -- aggregates
    fs = c['fs']
    for scope, hom, where in (('all', c['homall'], []), ('sel', c['homsel'], ["account ~ ':Sel'"])):
        ok &= check_hom(ctx, conn, fs, hom, where, scale, case, scope, rng, as_text=sample and scope == 'sel')
    # -- sum() over inventory values that outlive the statement: a user table, a history of statements
    ok &= check_table_history(ctx, c, conn, entries, rng, scale, case, as_text=sample)
    # -- the ledger is edited (another price table) and attached to the same connection again: every aggregate family
    #    once more, against the expectations TLC computed with the second price table; then the balance statement
    try:
        reattach(conn, sorted(hb.build_entries([], [], [], c['prices2']) + txns, key=data.entry_sortkey))
    except Exception as ex:  # noqa
        ctx.violation('reload:exception:%s' % type(ex).__name__, 'attaching the edited ledger raised %r' % (ex,), case, 'S2C')
        return False
    for scope, hom, where in (('all', c['homall2'], []), ('sel', c['homsel2'], ["account ~ ':Sel'"])):
        ok &= check_hom(ctx, conn, fs, hom, where, scale, case, scope + ':reattached', rng, light=True)
    if ok and rng.random() < 0.3:
        try:
            rows2 = run_program(conn, prog, rng=rng)[0]
        except Exception as ex:  # noqa
            ctx.violation('balance:exception:%s' % type(ex).__name__, 'statement raised %r' % (ex,), case, 'S2C')
            return False
        if cmp_rows(exp, rows2):
            ctx.violation('balance:reattached:' + hb.shape_key(prog), 'rows of %s after the ledger was attached again: %s' % (
                text, cmp_rows(exp, rows2)), case, 'S2C', hb_show_rows(exp), hb_show_rows(rows2))
            ok = False
    return ok


def node_expectation(nd, exp, fs, scale):
    """the value TLC emitted for the case that node nd must deliver on a group whose expectations are exp"""
    if nd[0] == 'sum':
        return hb.spec_inventory(exp['tot'], scale)
    return hb.spec_inventory(exp['f'][fs.index(nd[1])], scale)


def compare_stmt(bad, got, s, hom, fs, scale, what):
    """rows of one aggregate statement over inventory values against the case's expectations (total / per group)"""
    if s['grouped']:
        want = {g: hom['groups'][g - 1] for g in (1, 2) if hom['ng'][g - 1] > 0
                and (not s['having'] or hom['groups'][g - 1]['tot'])}
    else:
        want = {0: hom['total']}
    keys = sorted(r[0] for r in got)
    lim = s.get('limit', 0)
    if lim:
        # that many of the groups (all of them when there are fewer), no group twice; which ones: not C12's business
        if len(keys) != min(lim, len(want)) or len(set(keys)) != len(keys) or not set(keys) <= set(want):
            bad('sum:inventory:groups:limit', 'groups returned by %s' % what,
                '%d of %s' % (min(lim, len(want)), sorted(want)), keys)
            return
    elif keys != sorted(want):
        bad('sum:inventory:groups', 'groups returned by %s' % what, sorted(want), keys)
        return
    for key, vals in got:
        for nd, v in zip(s['nodes'], vals):
            e = node_expectation(nd, want[key], fs, scale)
            if v != e:
                bad('sum:inventory:%s' % ss.node_name(nd), '%s of %s, %s' % (
                    ss.node_expr(nd), 'group %s' % key if s['grouped'] else 'all rows', what), hb.show_inv(e), hb.show_inv(v))


def group_key(v):
    return int(v[1:]) if isinstance(v, str) and v[:1] == 'G' and v[1:].isdigit() else v


def check_table_history(ctx, c, conn, entries, rng, scale, case, as_text=False):
    """the ledger of the case cut into chunks, one table row (group, Inventory of the chunk) per chunk -- by partition
    additivity (MC_Inventory) the sums over the rows are the sums TLC emitted for the ledger -- plus NULL and empty cells
    in the groups that have rows; 2..3 statements one after the other on the same table objects"""
    hom = c['homall']
    if hom['n'] == 0:
        return True                 # an aggregate over no rows at all: C02
    from beancount.core import inventory
    ok = True

    def bad(key, clause, expected, observed):
        nonlocal ok
        ok = False
        ctx.violation(key, clause, dict(case, scope='table'), 'S2C', expected, observed)
    chunks, open_ = [], {}
    for pos, g in zip(c['ledger'], c['grp']):
        if g not in open_ or rng.random() < 0.5:
            open_[g] = []
            chunks.append((g, open_[g]))
        open_[g].append(pos)
    rows = [(g, ss.inventory_of(ps, scale)) for g, ps in chunks]
    for _ in range(rng.choice((0, 0, 1, 2))):
        rows.insert(rng.randint(0, len(rows)), (rng.choice(chunks)[0], rng.choice((None, inventory.Inventory()))))
    sess = ss.Session([conn] + ([hb.connect(entries)] if rng.random() < 0.1 else []), ss.make_table(rows))
    fs = c['fs']
    try:
        for n in range(rng.choice((2, 2, 2, 3))):
            s = ss.random_stmt(rng, fs)
            got = ss.project(sess.execute(s, rng, as_text=as_text and n == 0), s)
            ctx.case(None)
            compare_stmt(bad, got, s, hom, fs, scale, 'statement %d on the table: %s' % (n + 1, ss.stmt_text(s)))
    except Exception as ex:  # noqa
        bad('sum:inventory:exception:%s' % type(ex).__name__, 'aggregate statement over a table of inventories raised %r' % (ex,),
            None, None)
    return ok


def check_hom(ctx, conn, fs, hom, where, scale, case, scope, rng, as_text=False, light=False):
    """light: the two statements that hold every sum(f(position)) / f(sum(position)), ungrouped and grouped"""
    ok = True
    again = ':reattached' if scope.endswith(':reattached') else ''

    def bad(key, clause, expected, observed):
        nonlocal ok
        ok = False
        ctx.violation(key + again, clause + (' (the ledger attached again to the same connection with edited prices)'
                                             if again else ''), dict(case, scope=scope), 'S2C', expected, observed)

    def cmp_row(row, exp, what):
        got = [hb.proj_any(v) for v in row]
        e_tot = hb.spec_inventory(exp['tot'], scale)
        if got[0] != e_tot:
            bad('sum:position:%s' % what, 'sum(position) of %s' % what, hb.show_inv(e_tot), hb.show_inv(got[0]))
        for i, f in enumerate(fs):
            e = hb.spec_inventory(exp['f'][i], scale)
            if got[1 + 2 * i] != e:
                bad('hom:%s:f-of-sum' % f_name(f), '%s of %s' % (f_bql(f, 'sum(position)'), what), hb.show_inv(e),
                    hb.show_inv(got[1 + 2 * i]))
            if got[2 + 2 * i] != e:
                bad('hom:%s:sum-of-f' % f_name(f), 'sum(%s) of %s' % (f_bql(f, 'position'), what), hb.show_inv(e),
                    hb.show_inv(got[2 + 2 * i]))
    try:
        rows = hb.run_select(conn, hom_targets(fs), None, where)
        grows = hb.run_select(conn, [('leaf(account)', 'g')] + hom_targets(fs), None, where, ['g'])
        inner = ([('leaf(account)', 'g'), ('sum(position)', 's'), ('cost(sum(position))', 'c'),
                  ('sum(units(position))', 'u')], None, where, ['g'])
        prows = hb.run_select(conn, [('sum(s)', 't'), ('sum(c)', 'tc'), ('sum(u)', 'tu')], inner, as_text=as_text) \
            if not light and (as_text or rng.random() < 0.3) else None
        # the grouped statement with a LIMIT below / at / above the number of groups, no ORDER BY
        lim = rng.choice((1, 1, 1, 2, 3))
        lrows = None if light else conn.execute(
            hb.select_text(*inner) + ' LIMIT %d' % lim if as_text else limited(hb.select(*inner), lim)).fetchall()
        # partial sums (per account and day) aggregated again: the operand of sum() is an inventory, one to three
        # aggregate nodes read it (sum, f of the sum, sum of f), with / without GROUP BY and HAVING
        inner2 = ([('account', 'acc'), ('date', 'd'), ('sum(position)', 'inv')], None, where, ['acc', 'd'])
        s2 = ss.random_stmt(rng, fs)
        irows = None
        if not light and (as_text or rng.random() < 0.6):
            irows = ss.project(conn.execute(ss.stmt_ast(s2, hb.select(*inner2), key='leaf(acc)')).fetchall(), s2)
            irows = [[group_key(k), v] for k, v in irows]
    except Exception as ex:  # noqa
        bad('sum:exception:%s' % type(ex).__name__, 'aggregate statement raised %r' % (ex,), None, None)
        return False
    ctx.case(None, n=2 if light else 5)
    empty = {'tot': [], 'f': [[] for _ in fs]}
    if hom['n'] == 0:
        if lrows:
            bad('sum:groups:empty:limit', 'groups of an empty selection, LIMIT %d' % lim, [], len(lrows))
        # "no qualifying row yields no row" belongs to C02; an all-empty row is accepted here as well
        for r in rows:
            cmp_row(r, empty, 'the empty selection')
        if grows:
            bad('sum:groups:empty', 'groups of an empty selection', [], len(grows))
    else:
        if len(rows) != 1:
            bad('sum:rows', 'one row for an ungrouped aggregate', 1, len(rows))
        else:
            cmp_row(rows[0], hom['total'], 'the selection')
        want = {'G%d' % g: hom['groups'][g - 1] for g in (1, 2) if hom['ng'][g - 1] > 0}
        if sorted(r[0] for r in grows) != sorted(want):
            bad('sum:groups:keys', 'group keys', sorted(want), sorted(r[0] for r in grows))
        else:
            for r in grows:
                cmp_row(r[1:], want[r[0]], 'group ' + r[0])
        # partition additivity through sum() over inventories (SumInventory)
        cost_i = next(i for i, f in enumerate(fs) if f[0] == 'cost')
        units_i = next(i for i, f in enumerate(fs) if f[0] == 'units')
        exp = [hb.spec_inventory(hom['total']['tot'], scale), hb.spec_inventory(hom['total']['f'][cost_i], scale),
               hb.spec_inventory(hom['total']['f'][units_i], scale)]
        if prows is None:
            pass                    # sampled: the statement below subsumes it
        elif len(prows) != 1:
            bad('sum:partition:rows', 'one row for sum over group sums', 1, len(prows))
        else:
            got = [hb.proj_any(v) for v in prows[0]]
            for e, g, what in zip(exp, got, ('position', 'cost', 'units')):
                if e != g:
                    bad('sum:partition:%s' % what, 'sum over the group sums of %s = sum of the whole' % what,
                        hb.show_inv(e), hb.show_inv(g))
        lkeys = [r[0] for r in lrows or ()]
        if lrows is None:
            pass
        elif len(lkeys) != min(lim, len(want)) or len(set(lkeys)) != len(lkeys) or not set(lkeys) <= set(want):
            bad('sum:groups:limit', 'groups returned by GROUP BY g LIMIT %d' % lim,
                '%d of %s' % (min(lim, len(want)), sorted(want)), lkeys)
        else:
            for r in lrows:
                got = [hb.proj_any(v) for v in r[1:]]
                for e_, g_, what in zip((want[r[0]]['tot'], want[r[0]]['f'][cost_i], want[r[0]]['f'][units_i]), got,
                                        ('position', 'cost', 'units')):
                    e_ = hb.spec_inventory(e_, scale)
                    if e_ != g_:
                        bad('sum:limit:%s' % what, 'sum of %s of group %s returned with LIMIT %d (%d groups)' % (
                            what, r[0], lim, len(want)), hb.show_inv(e_), hb.show_inv(g_))
        if irows is not None:
            compare_stmt(bad, irows, s2, hom, fs, scale, ss.stmt_text(s2, '(%s)' % hb.select_text(*inner2), key='leaf(acc)'))
    return ok


# ---- C2S: recorders ------------------------------------------------------------------------------------------------
def example_entries(seed):
    from beancount import loader
    from beancount.scripts import example
    state = random.getstate()
    random.seed(seed)
    try:
        f = io.StringIO()
        example.write_example_file(datetime.date(1980, 5, 12), datetime.date(2013, 1, 1), datetime.date(2014, 12, 31),
                                   False, f)
    finally:
        random.setstate(state)
    entries, errors, opts = loader.load_string(f.getvalue())
    return entries


def with_pids(entries):
    from beancount.core import data
    out = []
    pid = 0
    for e in entries:
        if isinstance(e, data.Transaction):
            posts = []
            for p in e.postings:
                pid += 1
                posts.append(p._replace(meta=dict(p.meta or {}, pid=pid)))
            e = e._replace(postings=posts)
        out.append(e)
    return out, pid


def window(entries, rng, lo=8, hi=70):
    """a run of consecutive transactions holding lo..hi postings, plus every price directive"""
    from beancount.core import data
    txns = [e for e in entries if isinstance(e, data.Transaction)]
    start = rng.randrange(len(txns))
    want = rng.randint(lo, hi)
    picked, n = [], 0
    for e in txns[start:]:
        if n + len(e.postings) > hi:
            break
        picked.append(e)
        n += len(e.postings)
        if n >= want:
            break
    prices = [e for e in entries if isinstance(e, data.Price)]
    # forecasts: now and then a commodity held at cost in the window gets a price dated after the day the check runs
    from beancount.core import amount
    held = sorted({(p.units.currency, p.cost.currency) for e in picked for p in e.postings if p.cost is not None})
    for cur, quote in held:
        if rng.random() < 0.5:
            prices.append(data.Price(dict(hb.META), datetime.date.fromordinal(future_ordinal(rng)), cur,
                                     amount.Amount(hb.D(rng.randint(10, 3000)) / 10, quote)))
    return with_pids(sorted(prices + picked, key=data.entry_sortkey))


QUOTED_IN = {'USD': ('CAD', 'EUR'), 'EUR': ('USD', 'USD', 'CAD'), 'HOOL': ('USD',), 'AAPL': ('USD', 'EUR')}


def annotation(rng, units, cost, p=0.45):
    """the price annotation of a posting (`@ rate QUOTE`: a currency exchange, a sale): an attribute of the POSTING --
    the position of the posting is its units and cost, and that is all sum(), balance, units(), cost(), value() and
    convert() may see of it"""
    from beancount.core import amount
    if rng.random() >= p:
        return None
    quote = rng.choice(QUOTED_IN.get(units.currency, ('USD',)))
    if quote == units.currency:
        return None
    return amount.Amount(hb.D(rng.randint(5, 400)) / 10, quote)


def annotated(entries, rng, quotes=None):
    """the same ledger with price annotations on some postings (the positions are the same)"""
    from beancount.core import data
    out = []
    for e in entries:
        if isinstance(e, data.Transaction):
            posts = []
            for p in e.postings:
                if p.price is None and rng.random() < 0.6:
                    qs = sorted(q for b, q in quotes or () if b == p.units.currency) or ['EUR', 'USD']
                    q = rng.choice(qs)
                    if q != p.units.currency:
                        from beancount.core import amount
                        p = p._replace(price=amount.Amount(hb.D(rng.randint(1, 40)), q))
                posts.append(p)
            e = e._replace(postings=posts)
        out.append(e)
    return out


def random_ledger(rng, n):
    """seeded ledger built directly: cash in two currencies, lots at cost (dated, labelled), sales reducing lots,
    price directives with one decimal; small numbers so that TLC can recompute value / convert exactly"""
    from beancount.core import amount, data, position
    D = hb.D
    lots = []
    for k in range(rng.randint(1, 4)):
        lots.append((rng.choice(('HOOL', 'AAPL')), position.Cost(D(rng.randint(10, 300)) / 10, 'USD',
                     datetime.date(2020, 1, 1) + datetime.timedelta(days=rng.randint(0, 200)),
                     rng.choice((None, None, 'lot%d' % k)))))
    entries = []
    plist = []
    for cur in ('HOOL', 'AAPL'):
        for _ in range(rng.randint(0, 3)):
            d = datetime.date(2020, 1, 1) + datetime.timedelta(days=rng.randint(0, 400))
            r = D(rng.randint(10, 300)) / 10
            if not any(p[0] == cur and p[2] == d.toordinal() for p in plist):
                plist.append((cur, 'USD', d.toordinal(), r))
    for _ in range(rng.randint(0, 2)):
        d = datetime.date(2020, 1, 1) + datetime.timedelta(days=rng.randint(0, 400))
        if not any(p[0] == 'USD' and p[2] == d.toordinal() for p in plist):
            plist.append(('USD', 'CAD', d.toordinal(), D(rng.randint(10, 20)) / 10))
    # the currency the cash postings are exchanged for (price annotations below) has a price history of its own
    for _ in range(rng.randint(0, 2)):
        d = datetime.date(2020, 1, 1) + datetime.timedelta(days=rng.randint(0, 400))
        if not any(p[0] == 'EUR' and p[2] == d.toordinal() for p in plist):
            plist.append(('EUR', 'USD', d.toordinal(), D(rng.randint(10, 20)) / 10))
    # forecasts: prices dated after the day the check runs -- on top of earlier ones, or the only ones of the pair
    for cur, quote in (('HOOL', 'USD'), ('AAPL', 'USD'), ('USD', 'CAD')):
        if rng.random() < 0.3:
            plist.append((cur, quote, future_ordinal(rng), D(rng.randint(10, 300)) / 10))
    for b, q, d, r in plist:
        entries.append(data.Price(dict(hb.META), datetime.date.fromordinal(d), b, amount.Amount(r, q)))
    date = datetime.date(2021, 1, 1)
    held = {}
    pid = 0
    while pid < n:
        posts = []
        for _ in range(rng.choice((1, 2, 2, 3))):
            pid += 1
            r = rng.random()
            acct = 'Assets:%s:%s' % (rng.choice(('Bank', 'Broker')), rng.choice(('A', 'B', 'C')))
            if r < 0.35 or not lots:
                units, cost = amount.Amount(D(rng.randint(-3000, 3000)) / rng.choice((10, 10, 100)), rng.choice(('USD', 'USD', 'EUR'))), None
            elif r < 0.7 or not held:
                cur, cost = rng.choice(lots)
                units = amount.Amount(D(rng.randint(1, 60)), cur)
                held[(cur, cost)] = held.get((cur, cost), 0) + units.number
            elif r < 0.8:
                units, cost = amount.Amount(D(rng.randint(1, 50)), 'HOOL'), None
            else:
                (cur, cost), have = rng.choice(sorted(held.items(), key=str))
                sell = have if rng.random() < 0.4 else D(rng.randint(1, max(1, int(have))))
                units = amount.Amount(-sell, cur)
                held[(cur, cost)] = have - sell
                if held[(cur, cost)] == 0:
                    del held[(cur, cost)]
            posts.append(data.Posting(acct, units, cost, annotation(rng, units, cost), None, {'pid': pid}))
        entries.append(data.Transaction(dict(hb.META, lineno=pid), date, '*', None, 'random', frozenset(), frozenset(), posts))
        date += datetime.timedelta(days=rng.choice((0, 1, 3, 30)))
    return entries, pid, [(b, q, d, r) for b, q, d, r in plist]


WHERES = ([], ['M'], ['BT', 'M'], ['M', 'BT'], ['M', 'BN'], ['BN'], ['BN', 'M'], ['S', 'M'], ['BT'], ['M', 'S'])
TARGETS = ([], ['B'], ['B', 'B'], ['B', 'B', 'B'], ['B', 'S', 'B'], ['S', 'B', 'B'], ['S', 'B'], ['B', 'S', 'S', 'B'])
NESTED_TARGETS = (['XB'], ['BX'], ['XB', 'XB'], ['XB', 'BX'], ['B', 'XB'], ['S', 'XB'], ['XB', 'S', 'BX'], ['XL'], ['XL', 'XL'],
                  ['S', 'XL'])
# the other operand of the enclosing expression: columns of the postings table that are NULL on some postings
EX_NULLABLE = ('cost_currency', 'cost_date', 'cost_label', 'price', 'cost_number')
RND_NULLABLE = ('cost_currency', 'cost_date', 'cost_label', 'payee')
EX_MASKS = ("account ~ 'Expenses'", "account ~ 'Assets'", "number > 0", "currency = 'USD'", "cost_number IS NOT NULL",
            "account ~ 'Income|Liabilities'", "NOT currency = 'USD'", "number < 100")
RND_MASKS = ("account ~ 'Bank'", "account ~ ':A'", "number > 0", "currency = 'USD'", "cost_number IS NOT NULL",
             "NOT account ~ ':C'", "cost_label IS NOT NULL")
EX_GROUPS = ('root(account, 1)', 'root(account, 2)', 'currency', 'month(date)', 'account')
EX_DATES = (734900, 735200, 735400)
RND_DATES = (737400, 737600, 737790, FUTURE0 + 150000)
RND_GROUPS = ('leaf(account)', 'root(account, 2)', 'currency', 'cost_currency', 'account')


def record_serial(ctx, conn, npost, rng, masks, out, suspects, nullable=()):
    """one statement over the balance column -> one `serial` line"""
    mask_text = rng.choice(masks)
    targets = list(rng.choice(NESTED_TARGETS if nullable and rng.random() < 0.4 else TARGETS))
    # the NULL-able operand next to balance and the postings on which it is NULL (function calls) / decides (coalesce)
    x = rng.choice(nullable) if nullable else 'payee'
    nul_text = '%s IS NOT NULL' % x if 'XL' in targets else '%s IS NULL' % x
    base = hb.run_select(conn, [(hb.PID, 'pid'), ('position', 'p'), (mask_text, 'm'), (nul_text, 'n')], '#postings')
    if [r[0] for r in base] != list(range(1, npost + 1)):
        raise MachineryError('posting ids are not 1..n in table order')
    prog = {'where': list(rng.choice(WHERES)), 'targets': targets, 'subbal': rng.random() < 0.6,
            'agg': False, 'mask': [bool(r[2]) for r in base], 'nul': [bool(r[3]) for r in base]}
    style = {'mask_text': mask_text, 'split': rng.randint(0, len(prog['where'])), 'table': rng.random() < 0.5,
             'x': x, 'y': x}
    # (no LIMIT under a short-circuit operator: the classification replays whole runs)
    lim = rng.randint(1, 12) if rng.random() < 0.3 and 'XL' not in targets else 0
    rows, text = run_with_mask(conn, prog, style, lim)
    positions = [hb.proj_position(r[1]) for r in base]
    try:
        k = max([0] + [max(hb.places(n), hb.places(key[1][0])) for key, n in positions] + [hb.rows_scale(rows)])
        sc = 10 ** k
        prog['ledger'] = [hb.json_position(p, sc) for p in positions]
        line = {'k': 'serial', 'id': len(out) + 1, 'prog': trace_prog(prog), 'rows': hb.rows_to_trace(rows, sc),
                'sv': [[r[0], r[2]] for r in rows], 'lim': lim}
    except hb.OutOfDomain:
        ctx.skipped += 1
        return
    line['_text'] = text
    out.append(line)
    ctx.case('serial:' + text + json.dumps(prog['ledger'][:6]))


def run_with_mask(conn, prog, style, lim=0):
    text, params, cols, parts = statement(prog, 0, None, style)
    raw = conn.execute(limited(hb.select(*parts), lim), params).fetchall()
    return project_rows(raw, cols), text + (' LIMIT %d' % lim if lim else '')


# ---- LAW leg: the number of references does not change the balance -----------------------------------------------------
# (construct, E): E's value depends on balance and on an operand that is NULL / decides on some postings
LAW_EXPRS = (
    ('function:only', 'only(cost_currency, balance)'),
    ('function:convert', 'convert(balance, cost_currency)'),
    ('function:convert-dated', "convert(balance, 'USD', cost_date)"),
    ('function:value-dated', 'value(balance, cost_date)'),
    ('function:filter_currency', 'filter_currency(balance, cost_currency)'),
    ('function:only-of-units', 'only(cost_currency, units(balance))'),
    ('function:plain', "only('USD', balance)"),
    ('operator:and', 'number > 0 AND empty(balance)'),
    ('operator:or', 'number > 0 OR empty(balance)'),
    ('operator:coalesce', 'coalesce(cost_currency, str(balance))'),
    ('operator:binary', "cost_number * number(only('USD', balance))"),
)


def law_rows(conn, e, where, first):
    one = [(hb.PID, 'pid'), (e, 'v')]
    two = [(hb.PID, 'pid')] + ([('balance', 'b'), (e, 'v')] if first else [(e, 'v'), ('balance', 'b')])
    r1 = [tuple(r) for r in hb.run_select(conn, one, '#postings', where)]
    r2 = hb.run_select(conn, two, '#postings', where)
    return r1, [(r[0], r[2] if first else r[1]) for r in r2]


def pack_entries(entries):
    import base64
    import pickle
    import zlib
    return base64.b64encode(zlib.compress(pickle.dumps(entries))).decode()


def unpack_entries(text):
    import base64
    import pickle
    import zlib
    return pickle.loads(zlib.decompress(base64.b64decode(text)))


def check_reference_law(ctx, conn, entries, rng, masks, stats):
    """"... however many times the targets reference it": the statement whose ONLY reference to balance sits inside E
    returns, row by row, the E values of the same statement with a plain `balance` target added (before or after E).
    Relational: the two statements judge each other, nothing is recomputed here."""
    construct, e = rng.choice(LAW_EXPRS)
    where = [] if rng.random() < 0.4 else [rng.choice(masks)]
    first = rng.random() < 0.5
    case = {'kind': 'law', 'expression': e, 'where': where, 'first': first}
    try:
        r1, v2 = law_rows(conn, e, where, first)
    except Exception as ex:  # noqa
        ctx.violation('balance:reference-count:exception:%s' % type(ex).__name__, 'SELECT %s raised %r' % (e, ex),
                      dict(case, entries=pack_entries(entries)), 'LAW')
        return
    ctx.case('law:%s:%s:%d' % (e, where, len(r1)), nontrivial=len(r1) > 1, n=2)
    stats['pairs'] += 1
    stats['null_rows'] += sum(1 for r in r1 if r[1] is None)
    if r1 != v2:
        n = next((i for i, (a, b) in enumerate(zip(r1, v2)) if a != b), min(len(r1), len(v2)))
        ctx.violation('balance:reference-count:' + construct,
                      'SELECT %s%s: the values differ from those of the same statement with a plain balance target %s '
                      '(first at row %d of %d)' % (e, ' WHERE ' + where[0] if where else '', 'before' if first else 'after',
                                                  n + 1, len(r1)), dict(case, entries=pack_entries(entries)), 'LAW',
                      repr(v2[n][1]) if n < len(v2) else None, repr(r1[n][1]) if n < len(r1) else None)
    else:
        ctx.traces += 1


# ---- selections made by the FROM clause: OPEN ON / CLOSE [ON] / CLEAR ------------------------------------------------
def random_from(rng, entries):
    """a FROM clause with summarising qualifiers; the dates are days on which the ledger has transactions (or the day
    after): the selection is then neither everything nor nothing"""
    from beancount.core import data
    days = sorted({e.date for e in entries if isinstance(e, data.Transaction)})
    if not days:
        return None
    d1, d2 = sorted((rng.choice(days) + datetime.timedelta(days=rng.choice((0, 0, 1)))).toordinal() for _ in range(2))
    shape = rng.choice(('open', 'closeon', 'closeon', 'close', 'clear', 'open+closeon', 'open+close', 'open+clear',
                        'closeon+clear', 'open+closeon+clear'))
    parts = shape.split('+')
    return {'open': d1 if 'open' in parts else 0, 'close': d2 if 'closeon' in parts else True if 'close' in parts else 0,
            'clear': 'clear' in parts}


def from_text(frm):
    def iso(o):
        return datetime.date.fromordinal(o).isoformat()
    return ' '.join(x for x in ('OPEN ON ' + iso(frm['open']) if frm['open'] else '',
                                'CLOSE' if frm['close'] is True else 'CLOSE ON ' + iso(frm['close']) if frm['close'] else '',
                                'CLEAR' if frm['clear'] else '') if x)


def from_node(frm):
    from beanquery import parser
    return parser.ast.From(None, datetime.date.fromordinal(frm['open']) if frm['open'] else None,
                           True if frm['close'] is True else datetime.date.fromordinal(frm['close']) if frm['close'] else None,
                           True if frm['clear'] else None)


def run_sel(conn, frm, targets, where, group=None, lim=0, as_text=False):
    """the statement over the postings table (frm None) or over the selection its FROM clause makes"""
    if frm is None:
        if as_text:
            return conn.execute(hb.select_text(targets, '#postings', where, group) + (' LIMIT %d' % lim if lim else '')).fetchall()
        return conn.execute(limited(hb.select(targets, '#postings', where, group), lim)).fetchall()
    if as_text:
        return conn.execute(hb.select_text(targets, from_text(frm), where, group) + (' LIMIT %d' % lim if lim else '')).fetchall()
    sel = dataclasses.replace(hb.select(targets, None, where, group), from_clause=from_node(frm))
    return conn.execute(limited(sel, lim)).fetchall()


def record_hom(ctx, conn, rng, masks, groups, dates, out, prices=None, f=None, again=False, frm=None, entries=None):
    """one aggregate family -> one `hom` line; returns the function it used.  again: the ledger has been attached to
    the connection a second time (edited prices) and f has been used on it before.  frm: the selection is made by a
    FROM clause with OPEN ON / CLOSE [ON] / CLEAR (and a WHERE clause); WHICH postings such a clause leaves is C13's
    business: the rows of the selection are read, by the same FROM and WHERE clauses, on a connection nothing else has
    run on (`entries` attached anew), the sums are taken on `conn`, which has a history of statements"""
    f = f or rng.choice((('units', '', 0), ('cost', '', 0), ('value', '', 0), ('value', '', rng.choice(dates)),
                         ('convert', 'USD', 0), ('convert', 'CAD', 0), ('convert', 'CAD', rng.choice(dates)),
                         ('convert', 'JPY', 0)))
    where = [] if rng.random() < 0.3 else [rng.choice(masks)]
    g = rng.choice(groups)
    fp, fs = f_bql(f, 'position'), f_bql(f, 'sum(position)')
    sums = [('sum(position)', 's'), ('sum(%s)' % fp, 'sf'), (fs, 'fs')]
    try:
        per = run_sel(hb.connect(entries) if frm else conn, frm, [('position', 'p'), (fp, 'fp'), (g, 'g')], where)
        # "... so the last balance equals sum(position) of the same selection"
        tot = run_sel(conn, frm, sums + [('last(balance)', 'lb')], where, as_text=rng.random() < (0.1 if frm else 0.02))
        grp = run_sel(conn, frm, [(g, 'g')] + sums, where, ['g'])
        # the grouped statement once more with a LIMIT (no ORDER BY): below, at or above the number of groups
        lim = rng.choice((1, 1, 2, 3, 5))
        lgrp = run_sel(conn, frm, [(g, 'g')] + sums, where, ['g'], lim)
    except Exception as ex:  # noqa
        if not frm:
            raise
        ctx.violation('sum:exception:%s:from-filter' % type(ex).__name__, 'aggregate statement FROM %s raised %r' % (
            from_text(frm), ex), {'from': from_text(frm), 'where': where}, 'C2S')
        return f
    ctx.case('hom:%s:%s:%s:%d%s%s' % (f_name(f), where, g, len(per), ':again' if again else '',
                                      ':FROM ' + from_text(frm) if frm else ''), n=4)
    if not per:
        if tot or grp or lgrp:
            ctx.violation('sum:rows:empty', 'aggregate over an empty selection returned rows', {'where': where}, 'C2S')
        return f
    pos = [hb.proj_position(r[0]) for r in per]
    fpos = [hb.proj_amount(r[1]) for r in per]
    invs = [hb.proj_any(v) for v in tot[0]] if len(tot) == 1 else None
    if invs is None:
        ctx.violation('sum:rows', 'one row for an ungrouped aggregate', {'where': where}, 'C2S', 1, len(tot))
        return f
    ginvs = [(r[0], [hb.proj_any(v) for v in r[1:]]) for r in grp]
    linvs = [(r[0], [hb.proj_any(v) for v in r[1:]]) for r in lgrp]
    try:
        allinv = [x for x in invs if x is not None] + [x for _, gi in ginvs + linvs for x in gi]
        k = max([0] + [max(hb.places(n), hb.places(key[1][0])) for key, n in pos + fpos] + [hb.inv_places(d) for d in allinv]
                + ([hb.places(p[3]) for p in prices] if prices else []))
        sc = 10 ** k
        jpos = [hb.json_position(p, sc) for p in pos]
        jf = [hb.json_position(p, sc) for p in fpos]
        idx = {}
        for i, r in enumerate(per):
            idx.setdefault(r[2], []).append(i + 1)
        if sorted(map(repr, idx)) != sorted(repr(gk) for gk, _ in ginvs):
            ctx.violation('sum:groups:keys', 'group keys differ from the keys of the rows', {'where': where, 'group': g},
                          'C2S', sorted(map(repr, idx)), sorted(repr(gk) for gk, _ in ginvs))
            return f
        jgroups = [[idx[gk]] + [hb.json_inventory(x, sc) for x in gi] for gk, gi in ginvs]
        if any(gk not in idx for gk, _ in linvs):
            ctx.violation('sum:groups:limit-keys', 'GROUP BY %s LIMIT %d returned a key no row has' % (g, lim),
                          {'where': where, 'group': g, 'limit': lim}, 'C2S', sorted(map(repr, idx)),
                          [repr(gk) for gk, _ in linvs])
            return f
        jlgroups = [[idx[gk]] + [hb.json_inventory(x, sc) for x in gi] for gk, gi in linvs]
        jprices = [[b, q, d, hb.scaled_int(r, sc)] for b, q, d, r in (prices or [])]
        op = 0
        if f[0] == 'units':
            op = 1
        elif prices is not None or f[0] == 'cost':
            # the operators are applied to every row AND to the summed inventory
            op = 1 if mul_in_domain(jpos + hb.json_inventory(invs[0], sc), jprices, sc) else 0
        line = {'k': 'hom', 'id': len(out) + 1, 'f': list(f), 'sc': sc, 'prices': jprices, 'op': op, 'pos': jpos,
                'fpos': jf, 'sum_pos': hb.json_inventory(invs[0], sc), 'sum_f': hb.json_inventory(invs[1], sc),
                'f_sum': hb.json_inventory(invs[2], sc), 'groups': jgroups, 'lim': lim, 'lgroups': jlgroups,
                'lastb': hb.json_inventory(invs[3], sc) if invs[3] is not None else [[['NULL', hb.NOCOST], 1]]}
    except hb.OutOfDomain:
        ctx.skipped += 1
        return f
    line['_text'] = 'sum(%s) / %s / last(balance)%s WHERE %s GROUP BY %s [LIMIT %d]%s' % (
        fp, fs, ' FROM ' + from_text(frm) if frm else '', where, g, lim,
        ' -- the ledger attached again to the same connection with edited prices' if again else '')
    line['_again'] = again
    line['_from'] = from_text(frm) if frm else ''
    out.append(line)
    return f


def edited_prices(entries, rng, plist=None):
    """the ledger after an edit of its price directives: the same transactions, every rate changed, now and then a
    directive dropped or a later one added.  Returns (entries, price list in the vocabulary of the trace | None)"""
    from beancount.core import amount, data
    out, pl = [], []
    for e in entries:
        if not isinstance(e, data.Price):
            out.append(e)
            continue
        if rng.random() < 0.15:
            continue
        new = [e._replace(amount=amount.Amount(hb.D(rng.randint(10, 300)) / 10, e.amount.currency))]
        if rng.random() < 0.2:
            new.append(new[0]._replace(date=e.date + datetime.timedelta(days=rng.randint(1, 60)),
                                       amount=amount.Amount(hb.D(rng.randint(10, 300)) / 10, e.amount.currency)))
        for x in new:
            if (x.currency, x.amount.currency, x.date.toordinal()) not in {p[:3] for p in pl}:
                out.append(x)
                pl.append((x.currency, x.amount.currency, x.date.toordinal(), x.amount.number))
    return sorted(out, key=data.entry_sortkey), (pl if plist is not None else None)


# ---- C2S: tables holding inventories, histories of aggregate statements ---------------------------------------------
ISUM_FS_PLAIN = (('units', '', 0), ('cost', '', 0))


def record_isum(ctx, conn, entries, rng, dates, out, prices=None):
    """one table (a row per transaction: group = a key of the transaction, cell = the Inventory of its postings'
    positions, a few NULL / empty cells), recorded BEFORE anything runs, and a history of 2..4 statements -> one line"""
    from beancount.core import data, inventory
    txns = [e for e in entries if isinstance(e, data.Transaction)]
    if not txns:
        return
    keyf = rng.choice((lambda e: e.date.month % 3, lambda e: e.postings[0].account.split(':')[1],
                       lambda e: len(e.postings) % 2, lambda e: 0))
    gids = {}
    rows = []
    for e in txns[:rng.randint(2, 24)]:
        inv = inventory.Inventory()
        for p in e.postings:
            inv.add_position(p)
        rows.append((gids.setdefault(keyf(e), len(gids) + 1), inv))
    for _ in range(rng.choice((0, 0, 1, 2))):
        rows.insert(rng.randint(0, len(rows)), (rng.randint(1, len(gids) + 1), rng.choice((None, inventory.Inventory()))))
    before = [(g, hb.proj_inventory(v)) for g, v in rows]          # fresh dictionaries: the table as defined
    # the scale and the domain of the operators are fixed by the table and the prices, before anything runs: sums need
    # no more decimal places than their terms; cost / value / convert multiply, which must stay exact in 32 bits --
    # otherwise only units() (no multiplication) is applied in this history
    try:
        k = max([0] + [hb.inv_places(v) for _, v in before if v] + ([hb.places(p[3]) for p in prices] if prices else []))
        sc = 10 ** k
        jtab = [[g, v is None, hb.json_inventory(v, sc) if v else []] for g, v in before]
        jprices = [[b, q, d, hb.scaled_int(r, sc)] for b, q, d, r in (prices or [])]
        lots = {}
        for _, v in before:
            for key, num in (v or {}).items():
                lots[key] = lots.get(key, 0) + abs(num)
        # exactness is decided cell by cell (and is then inherited by every sum), magnitude by the absolute totals
        allpos = [hb.json_position((key, num), sc) for key, num in lots.items()]
        allpos += [p for _, _, inv in jtab for p in inv]
    except hb.OutOfDomain:
        ctx.skipped += 1
        return
    fs = [list(ISUM_FS_PLAIN[0])]
    if mul_in_domain(allpos, jprices, sc):
        fs.append(list(ISUM_FS_PLAIN[1]))
        if prices is not None:
            fs += [['value', '', 0], ['value', '', rng.choice(dates)], ['convert', 'USD', 0], ['convert', 'CAD', 0],
                   ['convert', 'CAD', rng.choice(dates)]]
    sess = ss.Session([conn] + ([hb.connect(entries)] if rng.random() < 0.25 else []), ss.make_table(rows))
    hist = []
    for n in range(rng.randint(2, 4)):
        s = ss.random_stmt(rng, fs)
        try:
            got = ss.project(sess.execute(s, rng, as_text=rng.random() < 0.05), s)
        except Exception as ex:  # noqa
            ctx.violation('sum:inventory:exception:%s' % type(ex).__name__, 'aggregate statement over a table of '
                          'inventories raised %r' % (ex,), {'statement': ss.stmt_text(s)}, 'C2S')
            return
        hist.append((s, got))
        ctx.case('isum:%s:%d:%d' % (ss.stmt_text(s), len(rows), n))
    if any(v is None for _, got in hist for _, vals in got for v in vals):
        ctx.violation('sum:inventory:null', 'an aggregate over inventories returned NULL',
                      {'statements': [ss.stmt_text(s) for s, _ in hist]}, 'C2S')
        return
    try:
        stmts = [{'nodes': s['nodes'], 'grouped': s['grouped'], 'having': s['having'], 'limit': s['limit'],
                  'rows': [[key, [hb.json_inventory(v, sc) for v in vals]] for key, vals in got]} for s, got in hist]
    except hb.OutOfDomain:
        ctx.skipped += 1            # a returned number is not representable at the table's scale / in 32 bits
        return
    line = {'k': 'isum', 'id': len(out) + 1, 'sc': sc, 'prices': jprices, 'tab': jtab, 'stmts': stmts,
            'ops': len(fs)}
    line['_text'] = ' ; '.join(ss.stmt_text(s) for s, _ in hist)
    out.append(line)


def validate_isum(ctx, lines):
    """TLC (Trace_SumStore) judges every statement of every recorded history with InvSum!Expected"""
    import copy
    probes = []
    for ln in lines:
        tgt = next((r for x in ln['stmts'] for r in x['rows'] if any(r[1])), None)
        if tgt is not None:
            c = copy.deepcopy(ln)
            row = next(r for x in c['stmts'] for r in x['rows'] if any(r[1]))
            next(v for v in row[1] if v)[0][1] += 1
            probes.append(c)
            break
    path = ctx.path('c12_isum.ndjson')
    with open(path, 'w') as f:
        for ln in lines + probes:
            f.write(json.dumps({k: v for k, v in ln.items() if not k.startswith('_')}) + '\n')
    res = ctx.tlc('Trace_SumStore', 'Trace_SumStore.cfg', leg='C2S', workers=1, env={'TRACE_FILE': path},
                  timeout=ctx.pick(600, 3000), jvm=('-Xss64m',))
    verdicts = [p for p in res.printed if isinstance(p, dict)]
    consumed = [p for p in verdicts if p.get('verdict') == 'consumed']
    if len(consumed) != 1 or consumed[0]['lines'] != len(lines) + len(probes):
        raise MachineryError('inventory-sum trace not consumed: %s of %d lines (%s)' % (
            consumed, len(lines) + len(probes), res.errors[:2]))
    rejected = {p['line']: p for p in verdicts if p.get('verdict') == 'rejected'}
    probe_lines = set(range(len(lines) + 1, len(lines) + len(probes) + 1))
    if not probes or not probe_lines <= set(rejected):
        raise MachineryError('binding self-test: the corrupted inventory-sum line was not rejected')
    ctx.leg('C2S', corrupted_lines_rejected=len(probe_lines))
    nrej = 0
    for n, rj in sorted(rejected.items()):
        if n in probe_lines:
            continue
        nrej += 1
        ln = lines[n - 1]
        x = ln['stmts'][rj['stmt'] - 1]
        s = ss.stmt(x['nodes'], x['grouped'], x['having'], x['limit'])
        what = 'groups' if not rj['node'] else ss.node_name(x['nodes'][rj['node'] - 1])
        ctx.violation('sum:inventory:%s' % what,
                      'statement %d of the history (%s) on a table holding inventories: %s rejected by TLC' % (
                          rj['stmt'], ss.stmt_text(s), what), {'kind': 'trace-isum', 'line': ln, 'verdict': rj}, 'C2S')
    ctx.traces += len(lines) - nrej
    return nrej


def mul_in_domain(jpos, jprices, sc):
    """TLC integers are 32 bit and Mul must be exact: every product the operators can form for these positions
    (number x cost, number x any rate quoted for the currency, x any rate quoted for that rate's quote currency)
    stays in range and is a multiple of the scale"""
    lim = 2 ** 31 - 1

    def ok(a, b):
        return abs(a * b) < lim and (a * b) % sc == 0
    for (cur, cost), n in jpos:
        if (cost[0] and not ok(n, cost[0])) or not ok(n, sc):     # sc: the rate of a currency into itself
            return False
        for b1, q1, _, r1 in jprices:
            if b1 != cur:
                continue
            if not ok(n, r1):
                return False
            for b2, q2, _, r2 in jprices:
                if b2 == q1 and not ok(n * r1 // sc, r2):
                    return False
    return True


def corrupted_copies(lines):
    """binding self-test: copies of two accepted-looking lines with ONE number changed; TLC must reject exactly these"""
    import copy
    out = []
    for ln in lines:
        if ln['k'] == 'serial' and any(v for r in ln['rows'] for v in r[1]):
            c = copy.deepcopy(ln)
            row = next(r for r in c['rows'] if any(v for v in r[1]))
            inv = next(v for v in row[1] if v)
            inv[0][1] += 1
            out.append(c)
            break
    for ln in lines:
        if ln['k'] == 'hom' and ln['f_sum']:
            c = copy.deepcopy(ln)
            c['f_sum'][0][1] += 1
            out.append(c)
            break
    return out


def validate(ctx, lines, suspects):
    path = ctx.path('c12_trace.ndjson')
    probes = corrupted_copies(lines)
    with open(path, 'w') as f:
        for ln in lines + probes:
            f.write(json.dumps({k: v for k, v in ln.items() if not k.startswith('_')}) + '\n')
    res = ctx.tlc('Trace_Balance', 'Trace_Balance.cfg', leg='C2S', workers=1, env={'TRACE_FILE': path},
                  timeout=ctx.pick(600, 3000), jvm=('-Xss64m',))
    verdicts = [p for p in res.printed if isinstance(p, dict)]
    consumed = [p for p in verdicts if p.get('verdict') == 'consumed']
    if res.violated:
        ctx.violation('balance:trace-invariant:' + ','.join(res.violated), 'an invariant of Balance fails on a recorded run',
                      {'behaviour': res.behaviour[:2000]}, 'C2S')
    elif len(consumed) != 1 or consumed[0]['lines'] != len(lines) + len(probes):
        raise MachineryError('trace not consumed: %s of %d lines (%s)' % (consumed, len(lines) + len(probes), res.errors[:2]))
    probe_lines = set(range(len(lines) + 1, len(lines) + len(probes) + 1))
    got = {p['line'] for p in verdicts if p.get('verdict') == 'rejected'}
    if not res.violated and not probe_lines <= got:
        raise MachineryError('binding self-test: corrupted trace lines %s were not rejected' % sorted(probe_lines - got))
    ctx.leg('C2S', corrupted_lines_rejected=len(probe_lines))
    verdicts = [p for p in verdicts if p.get('line') not in probe_lines]
    rejected = [p for p in verdicts if p.get('verdict') == 'rejected']
    for rj in rejected:
        ln = lines[rj['line'] - 1]
        if ln['k'] == 'serial':
            suspects.add('C2S', dict(ln['prog']), None, {'kind': 'trace', 'line': dict(ln),
                                                        'verdict': rj}, None, ln['_text'])
            suspects.items[-1]['trace_rows'] = ln['rows']
        else:
            clause = {1: 'shape', 2: 'sum-position', 3: 'sum-of-f', 4: 'f-of-sum', 5: 'f-per-row', 6: 'f-of-sum-value',
                      7: 'group', 8: 'partition', 9: 'limit', 10: 'last-balance'}.get(rj['row'], str(rj['row']))
            key = 'hom:%s:%s' % (f_name(ln['f']), clause) if clause in ('sum-of-f', 'f-of-sum', 'f-per-row', 'f-of-sum-value') \
                else 'sum:%s:%s' % (clause, f_name(ln['f']))
            key += ':reattached' if ln.get('_again') else ''
            key += ':from-filter' if ln.get('_from') else ''
            ctx.violation(key, 'law %s rejected by TLC for %s' % (clause, ln['_text']),
                          {'kind': 'trace', 'line': ln, 'verdict': rj}, 'C2S')
    ctx.traces += len(lines) - len(rejected)
    return len(rejected)


def classify(ctx, suspects):
    """replay every unexplained balance observation on the mechanism AS THE CODE IS (Balance.tla with the short-circuit
    operators as shipped; the invariant that fails there is switched off), the rest on the mechanism as shipped before
    fix 678e809; report"""
    if not suspects.items:
        return
    lines = {}
    for n, s in enumerate(suspects.items):
        prog = s['prog']
        if 'trace_rows' in s:
            tp, rows = prog, s['trace_rows']
        else:
            try:
                sc = 10 ** max(hb.rows_scale(s['rows']), len(str(s['case']['scale'])) - 1)
                led = [[[c, [k[0] * sc, k[1], k[2], k[3]]], n_ * (sc // s['case']['scale'])] for (c, k), n_ in prog['ledger']]
                tp, rows = trace_prog(prog, led), hb.rows_to_trace(s['rows'], sc)
            except hb.OutOfDomain:
                tp, rows = None, None
        s['n'] = n + 1
        if tp is None:
            continue
        lines[n + 1] = [{'k': 'begin', 'id': n + 1, 'progs': [tp]}, {'k': 'grant', 'id': n + 1, 't': 1},
                        {'k': 'end', 'id': n + 1, 'rows': [rows]}]

    def explained_by(cfg, ids, name):
        todo = [ln for n in sorted(ids) for ln in lines[n]]
        if not todo:
            return set()
        path = ctx.path(name)
        with open(path, 'w') as f:
            for ln in todo:
                f.write(json.dumps(ln) + '\n')
        res = ctx.tlc('Trace_Balance', cfg, leg='classify', workers=1, env={'TRACE_FILE': path}, timeout=900,
                      jvm=('-Xss64m',))
        verdicts = [p for p in res.printed if isinstance(p, dict)]
        if not any(p.get('verdict') == 'consumed' and p['lines'] == len(todo) for p in verdicts):
            raise MachineryError('classification trace not consumed (%s)' % cfg)
        return set(ids) - {p['id'] for p in verdicts if p.get('verdict') == 'rejected'}
    lazy_ids = {s['n'] for s in suspects.items if s['n'] in lines and has_nested(s['prog'], ('XL',))}
    as_is = explained_by('Trace_Balance_asis.cfg', lazy_ids, 'c12_suspects_asis.ndjson')
    old = explained_by('Trace_Balance_shipped.cfg', set(lines) - as_is, 'c12_suspects.ndjson')
    for s in suspects.items:
        prog = s['prog']
        lazy = s['n'] in as_is
        known = not lazy and s['n'] in old and hb.interposed_between_references(prog)
        key = LAZY_KEY if lazy else KNOWN_KEY if known else 'balance:' + hb.shape_key(prog)
        ctx.violation(key, 'rows of %s differ from the specification%s' % (
            s['text'], ' (exactly as the process-wide one-entry cache predicts)' if known else
            ' (exactly what a short-circuit operator that never calls the balance accessor on the rows its other operand '
            'decides predicts: those postings are missing from the balance of the following rows)' if lazy else ''),
            s['case'], s['leg'], hb_show_rows(s['expected']), hb_show_rows(s['rows']))
    ctx.leg('classify', suspects=len(suspects.items), explained_by_short_circuit_operators_as_shipped=len(as_is),
            explained_by_mechanism_shipped_before_678e809=len(old))


def hb_show_rows(rows):
    if rows is None:
        return None
    return [[r[0], [hb.show_inv(v) for v in r[1]], r[2] if len(r) > 2 else None] for r in rows[:8]]


def small_runs(ctx):
    """the small TLC runs (non-vacuity: mechanisms TLC must reject; the attach / convert mechanism of Reload): one
    background thread works through them while the foreground replays and records (ctx.tlc is usable from a thread)"""
    out = {}
    out['r1'] = ctx.tlc('MC_Balance', 'MC_Balance_C12_shipped.cfg', leg='MC-nonvacuity', expect_violation='SerialInv', workers=4)
    ctx.tlc('MC_Balance', 'MC_Balance_C12_nocache.cfg', leg='MC-nonvacuity', expect_violation='ConsultedInv', workers=4)
    # balance under an enclosing expression: a function call that stops at the first NULL operand must be rejected;
    # the short-circuit operators as shipped ARE rejected (known finding balance-under-short-circuit-operator)
    out['r4'] = ctx.tlc('MC_Balance', 'MC_Balance_C12_stopnull.cfg', leg='MC-nonvacuity', expect_violation='PrefixSumInv', workers=4)
    out['r5'] = ctx.tlc('MC_Balance', 'MC_Balance_C12_lazy.cfg', leg='MC-as-shipped', expect_violation='PrefixSumInv', workers=4)
    # one connection attached again and again (spec/Reload.tla)
    out['reload'] = ctx.tlc('MC_Reload', 'MC_Reload.cfg', leg='MC-reload', workers=4)
    ctx.tlc('MC_Reload', 'MC_Reload_byargs.cfg', leg='MC-nonvacuity', expect_violation='ReloadInv', workers=4)
    out['r2'] = ctx.tlc('MC_SumStore', 'MC_SumStore_adopt.cfg', leg='MC-nonvacuity', expect_violation='ResultInv', workers=4)
    if not ctx.quick:
        ctx.tlc('MC_SumStore', 'MC_SumStore_adopt_hist.cfg', leg='MC-nonvacuity', expect_violation='ResultInv', workers=4)
    out['r3'] = ctx.tlc('MC_SumStore', 'MC_SumStore_stoplimit.cfg', leg='MC-nonvacuity', expect_violation='ResultInv', workers=4)
    return out


def small_runs_finish(ctx, fut):
    out = fut.result()              # a MachineryError of the background thread is raised here
    r1, r2, r3, r4, r5 = (out[k] for k in ('r1', 'r2', 'r3', 'r4', 'r5'))
    if out['reload'].violated:
        ctx.violation('spec:reload:' + ','.join(out['reload'].violated), 'TLC violates the property on the property-conforming '
                      'attach / convert mechanism', {'behaviour': out['reload'].behaviour[:3000]}, 'MC')
    ctx.leg('MC', stop_at_null_counterexample='g(x, balance) with x NULL on the first posting: the accessor is not called, '
            'the second row shows the second posting only' if '"XB"' in r4.behaviour else 'see the behaviour reported by TLC',
            short_circuit_as_shipped='rejected by TLC: x <op> e(balance) loses the postings on which x decides'
            if '"XL"' in r5.behaviour else 'see the behaviour reported by TLC')
    if '"B", "S", "B"' not in r1.behaviour.replace('\n', ' '):
        ctx.notes.append('the shipped-cache counterexample found by TLC is not the B,S,B target list')
    ctx.leg('MC', shipped_counterexample='targets = <<"B","S","B">>: the interposed scan evicts the entry, the second '
            'reference adds the posting again' if '"B", "S", "B"' in r1.behaviour.replace('\n', ' ') else 'see notes')
    ctx.leg('MC', stop_at_limit_counterexample='GROUP BY g LIMIT 1: the scan is abandoned at the first row of the second '
            'group, later rows of the first group are missing from its sum' if 'StopScan' in r3.behaviour
            else 'see the behaviour reported by TLC')
    ctx.leg('MC', adopt_counterexample='two sum(inv) nodes share the adopted first cell: the second row is added twice'
            if 'slots |-> <<1, 1>>' in r2.behaviour else 'see the behaviour reported by TLC')


# ---- the check --------------------------------------------------------------------------------------------------------
def run(ctx):
    ctx.rule = ('S2C: one case = one TLC-simulated (ledger <= 5 postings over 7 lots x 7 numbers, row filter, 2 groups, '
                'conjunct list, target list with 0..3 balance references -- plain or inside a function call / under a '
                'short-circuit operator next to an operand with a NULL pattern over the postings --, interposed subquery '
                'with/without balance, one of 4 price tables -- one with prices dated in 2999 -- and one of 4 for the second '
                'attachment of the ledger to the same connection), distinct by its JSON; non-trivial = at least one posting.  '
                'C2S: one line = one statement family on '
                'a window of the Beancount example ledger or a seeded random ledger; distinct by statement and data; one '
                'evaluation per statement executed over a sub-select of partial sums or over a table holding inventories '
                '(S2C: chunks of the generated ledger; C2S: per-transaction inventories, history of 2..4 statements) and per '
                'grouped statement over postings repeated with a LIMIT; LAW: one statement pair (E(balance) alone / next '
                'to a plain balance target) on such a ledger, distinct by expression, selection and size, non-trivial = '
                'at least two rows')
    ctx.assumptions += [
        'numbers: integers in the specification; the driver scales units by 1, 10 or 100 (all four functions are linear '
        'in the units); trace files carry integers in minor units, cases needing |n| >= 2^31 are skipped and counted',
        'value / convert: only forward price pairs are looked up in generated cases (Beancount also synthesises inverse '
        'rates; those are outside the transcription)',
        'LIMIT without ORDER BY: WHICH groups an aggregate statement returns is not judged (any LIMIT-many distinct groups '
        'of the selection are accepted); every returned row must carry the sums of all the rows of its group',
        'a value() / convert() without a date uses the latest price entered in the ledger, also when that price is dated '
        'after the day the check runs (Beancount: prices.get_price(.., None)); the same for positions and inventories',
        'tables holding inventories: the expected result of every statement of a history is computed from the table as '
        'the driver defined it (recorded before anything runs): a SELECT that changes the values stored in a user table is '
        'counted as a wrong sum of "the group\'s values" from the next statement on',
        'balance inside an enclosing expression: the statement "the balance column of a selected posting equals the '
        'inventory sum of position over the selected postings up to and including it ... however many times the targets '
        'reference it" is read for EVERY reference the targets contain, also one that an enclosing function call or '
        'operator does not show (or does not evaluate) on some rows: the rows where it IS shown must carry the prefix sum '
        'over all selected postings.  Function calls conform (all operands are evaluated before the NULL test); the '
        'short-circuit operators AND / OR / coalesce / binary operators do not (known finding '
        'balance-under-short-circuit-operator): observations that are EXACTLY what TLC computes for the mechanism as '
        'shipped get that key, anything else a key of its own',
        'identity-like BQL functions c12_second / c12_first / c12_mark are registered through query_env.function (the '
        'public registry, as a plugin would): they go through the same generic wrapper as every built-in function; the '
        'built-in functions themselves (only, convert, value, filter_currency) are exercised by the LAW leg',
        'second attachment: Connection.attach(\'beancount:\', entries=..) on the connection the first ledger was '
        'attached to (what the shell does on .reload); results must depend on the data attached when the statement runs',
        'TLC 1.8 with Json/IOUtils, CPython 3.12, Beancount 3.x Inventory / convert / prices as the meaning of "Beancount '
        'inventory sum"; harness/balance.py (projection) is trusted',
    ]
    rng = ctx.rng
    suspects = Suspects()
    import concurrent.futures as cf
    pool = cf.ThreadPoolExecutor(1)
    background = pool.submit(small_runs, ctx)
    pool.shutdown(wait=False)
    # ---- MC
    ctx.tlc('MC_Inventory', ctx.pick('MC_Inventory.cfg', 'MC_Inventory4.cfg'), leg='MC-laws')
    ctx.tlc('MC_Inventory', 'MC_Inventory_bad.cfg', leg='MC-nonvacuity', expect_violation='BadLaw', workers=4)
    res = ctx.tlc('MC_Balance', ctx.pick('MC_Balance_C12q.cfg', 'MC_Balance_C12.cfg'), leg='MC', must_cover=COVER)
    if res.violated:
        ctx.violation('spec:' + ','.join(res.violated), 'TLC violates the property on the property-conforming mechanism',
                      {'behaviour': res.behaviour[:3000]}, 'MC')
    # ---- MC: sum() over inventory values (objects with identity, several nodes over one operand, histories)
    res = ctx.tlc('MC_SumStore', ctx.pick('MC_SumStore.cfg', 'MC_SumStore_t.cfg'), leg='MC-sum-inventory', workers=ctx.pick(4, 16))
    if res.violated:
        ctx.violation('spec:sumstore:' + ','.join(res.violated), 'TLC violates the property on the property-conforming '
                      'aggregate mechanism', {'behaviour': res.behaviour[:3000]}, 'MC')
    # ---- S2C
    ncases = ctx.pick(1000, 16000)
    w = 8
    res = ctx.tlc('Gen_Balance', 'Gen_Balance_case.cfg', leg='GEN', simulate='num=%d' % (ncases // w), depth=120,
                  seed=ctx.seed, workers=w)
    cases = [p for p in res.printed if isinstance(p, dict) and 'ledger' in p]
    if len(cases) < ncases // 2:
        raise MachineryError('generator emitted %d cases, wanted about %d' % (len(cases), ncases))
    seen = {'B2': 0, 'S': 0, 'BN': 0, 'cost': 0, 'reduce': 0, 'fromsplit': 0, 'function_operand': 0, 'short_circuit': 0,
            'null_before_shown': 0, 'other_prices_on_reattach': 0}
    nbad = 0
    for n, c in enumerate(cases):
        key = json.dumps([c[k] for k in ('ledger', 'mask', 'grp', 'where', 'targets', 'subbal', 'prices', 'nul', 'prices2')])
        seen['function_operand'] += any(a in ('XB', 'BX') for a in c['targets'])
        seen['short_circuit'] += 'XL' in c['targets']
        seen['null_before_shown'] += any(a in NESTED for a in c['targets']) and any(
            c['nul'][i] and not c['nul'][j] for j in range(len(c['nul'])) for i in range(j))
        seen['other_prices_on_reattach'] += c['prices'] != c['prices2']
        ctx.case(key, nontrivial=len(c['ledger']) > 0)
        seen['B2'] += c['targets'].count('B') >= 2
        seen['S'] += 'S' in c['targets'] + c['where']
        seen['BN'] += 'BN' in c['where']
        seen['cost'] += any(p[0][1] != hb.NOCOST for p in c['ledger'])
        seen['reduce'] += any(p[1] < 0 for p in c['ledger'])
        if not replay_case(ctx, c, rng.randrange(2 ** 31), suspects, sample=(n < 2 or n % ctx.pick(100, 400) == 0)):
            nbad += 1
        ctx.traces += 1
    for k, v in seen.items():
        if k != 'fromsplit' and not v:
            raise MachineryError('vacuity: no generated case with feature %s' % k)
    ctx.leg('S2C', cases=len(cases), mismatching_cases=nbad, features=seen)
    ctx.log('S2C: %d cases replayed, %d mismatching' % (len(cases), nbad))
    # ---- C2S
    lines = []
    ilines = []
    law = {'pairs': 0, 'null_rows': 0}
    ex = example_entries(ctx.seed)
    nwin = ctx.pick(40, 400)
    for _ in range(nwin):
        entries, npost = window(ex, rng)
        if npost == 0:
            continue
        conn = hb.connect(entries)
        for _ in range(3):
            record_serial(ctx, conn, npost, rng, EX_MASKS, lines, suspects, EX_NULLABLE)
        used = [record_hom(ctx, conn, rng, EX_MASKS, EX_GROUPS, EX_DATES, lines) for _ in range(3)]
        record_isum(ctx, conn, entries, rng, EX_DATES, ilines)
        for _ in range(2):
            check_reference_law(ctx, conn, entries, rng, EX_MASKS, law)
        # a selection made by FROM OPEN ON / CLOSE / CLEAR, on the connection all of the above has run on
        record_hom(ctx, conn, rng, EX_MASKS, EX_GROUPS, EX_DATES, lines, frm=random_from(rng, entries), entries=entries)
        # the price directives are edited and the ledger is attached to the same connection again
        entries2 = edited_prices(entries, rng)[0]
        reattach(conn, entries2)
        for f in rng.sample(used, 2):
            record_hom(ctx, conn, rng, EX_MASKS, EX_GROUPS, EX_DATES, lines, f=f, again=True)
        if rng.random() < 0.5:
            record_hom(ctx, conn, rng, EX_MASKS, EX_GROUPS, EX_DATES, lines, again=True, frm=random_from(rng, entries2),
                       entries=entries2)
    ctx.log('C2S: %d example windows recorded' % nwin)
    nrnd = ctx.pick(60, 700)
    nexch = 0
    for _ in range(nrnd):
        entries, npost, prices = random_ledger(rng, rng.randint(3, 40))
        nexch += any(p.price is not None and p.cost is None and any(
            (p.units.currency, p.price.currency) == (b, q) for b, q, _, _ in prices)
            for e in entries if hasattr(e, 'postings') for p in e.postings)
        conn = hb.connect(entries)
        for _ in range(2):
            record_serial(ctx, conn, npost, rng, RND_MASKS, lines, suspects, RND_NULLABLE)
        used = [record_hom(ctx, conn, rng, RND_MASKS, RND_GROUPS, RND_DATES, lines, prices=prices) for _ in range(3)]
        record_isum(ctx, conn, entries, rng, RND_DATES, ilines, prices=prices)
        check_reference_law(ctx, conn, entries, rng, RND_MASKS, law)
        record_hom(ctx, conn, rng, RND_MASKS, RND_GROUPS, RND_DATES, lines, prices=prices, frm=random_from(rng, entries),
                   entries=entries)
        entries2, prices2 = edited_prices(entries, rng, prices)
        reattach(conn, entries2)
        for f in rng.sample(used, 2):
            record_hom(ctx, conn, rng, RND_MASKS, RND_GROUPS, RND_DATES, lines, prices=prices2, f=f, again=True)
        if rng.random() < 0.5:
            record_hom(ctx, conn, rng, RND_MASKS, RND_GROUPS, RND_DATES, lines, prices=prices2, again=True,
                       frm=random_from(rng, entries2), entries=entries2)
    ctx.log('C2S: %d random ledgers recorded' % nrnd)
    if not nexch:
        raise MachineryError('vacuity: no random ledger exchanges a currency (price annotation, no cost) that has a price')
    ctx.leg('C2S', random_ledgers_with_priced_currency_exchange=nexch)
    ctx.leg('LAW', statement_pairs=law['pairs'], rows_on_which_the_expression_is_null=law['null_rows'])
    if not law['null_rows']:
        raise MachineryError('vacuity: no expression of the reference-count law was NULL on any row')
    if lines:
        ctx.sample({'leg': 'C2S', 'line': {k: (v if not isinstance(v, list) else v[:3]) for k, v in lines[0].items()}})
    small_runs_finish(ctx, background)
    nops = sum(1 for ln in lines if ln['k'] == 'hom' and ln['op'])
    nfrom = sum(1 for ln in lines if ln.get('_from'))
    nrej = validate(ctx, lines, suspects)
    ctx.leg('C2S', lines=len(lines), serial_lines=sum(1 for ln in lines if ln['k'] == 'serial'),
            serial_lines_balance_under_enclosing_expression=sum(1 for ln in lines if ln['k'] == 'serial' and 'nul' in ln['prog']),
            hom_lines_after_second_attachment=sum(1 for ln in lines if ln.get('_again')),
            hom_lines_selection_by_from_open_close_clear=nfrom,
            hom_lines=sum(1 for ln in lines if ln['k'] == 'hom'), hom_lines_recomputed_by_operators=nops,
            rejected=nrej, example_windows=nwin, random_ledgers=nrnd)
    if not nops:
        raise MachineryError('vacuity: no hom line was in the domain of the operators')
    if not nfrom:
        raise MachineryError('vacuity: no hom line whose selection is made by FROM OPEN ON / CLOSE / CLEAR')
    if len(ilines) < (nwin + nrnd) // 4:
        raise MachineryError('vacuity: only %d of %d inventory-table histories were in the domain' % (len(ilines), nwin + nrnd))
    ctx.sample({'leg': 'C2S', 'history': ilines[0]['_text'], 'table_rows': ilines[0]['tab'][:3]})
    nrej_i = validate_isum(ctx, ilines)
    ctx.leg('C2S', inventory_table_histories=len(ilines), statements_judged=sum(len(ln['stmts']) for ln in ilines),
            histories_rejected=nrej_i,
            statements_with_several_nodes=sum(1 for ln in ilines for x in ln['stmts'] if len(x['nodes']) > 1))
    classify(ctx, suspects)
    ctx.exhaustive = False


def replay(ctx, rep):
    case = rep['case']
    if case.get('kind') == 'balance':
        suspects = Suspects()
        ok = replay_case(ctx, case['case'], case['rseed'], suspects)
        for s in suspects.items:
            print('replay: statement', s['text'])
            print('  expected', hb_show_rows(s['expected']))
            print('  observed', hb_show_rows(s['rows']))
        print('replay:', 'no mismatch' if ok and not ctx.violations else 'MISMATCH reproduced')
        return 0 if ok and not ctx.violations else 1
    if case.get('kind') == 'trace':
        ln = case['line']
        path = ctx.path('replay.ndjson')
        with open(path, 'w') as f:
            f.write(json.dumps({k: v for k, v in ln.items() if not k.startswith('_')}) + '\n')
        res = ctx.tlc('Trace_Balance', 'Trace_Balance.cfg', leg='C2S', workers=1, env={'TRACE_FILE': path})
        rej = [p for p in res.printed if isinstance(p, dict) and p.get('verdict') == 'rejected']
        print('replay: recorded line', 'rejected by TLC: %s' % rej if rej else 'accepted by TLC')
        return 1 if rej else 0
    if case.get('kind') == 'trace-isum':
        ln = case['line']
        path = ctx.path('replay_isum.ndjson')
        with open(path, 'w') as f:
            f.write(json.dumps({k: v for k, v in ln.items() if not k.startswith('_')}) + '\n')
        res = ctx.tlc('Trace_SumStore', 'Trace_SumStore.cfg', leg='C2S', workers=1, env={'TRACE_FILE': path})
        rej = [p for p in res.printed if isinstance(p, dict) and p.get('verdict') == 'rejected']
        print('replay: recorded history', 'rejected by TLC: %s' % rej if rej else 'accepted by TLC')
        return 1 if rej else 0
    if case.get('kind') == 'law':
        r1, v2 = law_rows(hb.connect(unpack_entries(case['entries'])), case['expression'], case['where'], case['first'])
        bad = [(a, b) for a, b in zip(r1, v2) if a != b]
        for a, b in bad[:5]:
            print('replay: posting %s: %s = %r alone, %r next to a plain balance target' % (a[0], case['expression'], a[1], b[1]))
        print('replay:', 'MISMATCH reproduced' if bad or len(r1) != len(v2) else 'no mismatch')
        return 1 if bad or len(r1) != len(v2) else 0
    print('replay: case kind not replayable standalone; re-run the check')
    return 2
