"""C05 -- static validation is complete; rejections are ParseError / CompilationError only (BQLExpr.TypeOf,
BQLSelect.Compile / Valid, Trace_Parse).

MC   CompileIffValid: the compiler mechanism (targets, WHERE, GROUP BY + HAVING, ORDER BY, coverage, PIVOT -- in the
     code's order) accepts exactly the statements the declarative rule list (Valid) admits, over the whole query
     space incl. ~30 invalid shapes of every rule x all tables; non-vacuity: a mechanism rejecting multi-key ORDER BY
S2C  (a) every ill-typed expression spine of depth 1 (23.9k: every operator x wrong operand pair, unknown column,
     unknown overload, non-uniform COALESCE, bad BETWEEN triple ...) must be rejected with CompilationError, as AST and
     (sample) as text; (b) every state of the invalid / valid query space replayed: verdict class must agree
C2S  (a) random expression trees incl. deliberately ill-typed ones: accept / reject agreement judged by TLC (Trace_Expr);
     (b) arbitrary and mutated statement TEXTS (token deletion / swap / duplication, unicode noise, empty input,
     impossible dates, oversized numbers): outcome class and error span judged by TLC (Trace_Parse); the shell's
     error formatter is run on every rejection
"""
import copy
import datetime
import json
import multiprocessing
import os
import sys

from harness import bql, exprcheck, selectcheck, selectq
from harness import tables as ht
from harness.core import MachineryError, REPO, VERIF


def _text_worker(args):
    texts, repo, verif = args
    if repo not in sys.path:
        sys.path.insert(0, repo)
    if verif not in sys.path:
        sys.path.insert(0, verif)
    import beanquery
    import beanquery.query_env  # noqa
    from beanquery import shell
    from harness import tables as ht2
    import decimal
    conn = ht2.connection(ht2.HarnessTable('g', selectcheck.COLS + [('m', 'dict'), ('l', 'list')],
                                           [(1, 'a', 1, decimal.Decimal('0.5'), 1, {'x': 1}, ['a']), (2, None, None, None, 2, None, None)]))
    from beancount import loader
    entries, errors, options = loader.load_string(LEDGER)
    lconn = beanquery.connect('beancount:', entries=entries, errors=errors, options=options)
    out = []
    for tid, text in texts:
        if text.startswith('@ledger '):
            text = text[8:]
            conn_ = lconn
        else:
            conn_ = conn
        ev = {'id': tid, 'len': len(text), 'cls': 'ok', 'haspos': 0, 'pos': 0, 'endpos': 0, 'line': 0, 'nlines': 0,
              'linestart': 0, 'lineend': 0, 'render': 1}
        try:
            from beanquery import parser as _parser
            stmt = _parser.parse(text)
            if isinstance(stmt, _parser.ast.Print):
                # PRINT is a valid statement that the DB-API cursor cannot execute (the shell prints it: C14 / C19);
                # not a rejection of the statement -- outside this property's domain, skipped and counted
                ev['skipped'] = 'print-via-cursor'
                out.append(ev)
                continue
            conn_.execute(stmt).fetchall()
        except Exception as ex:  # noqa
            ev['cls'] = type(ex).__name__
            import re as _re
            if isinstance(ex, _re.error):
                ev['cls'] = 'ok'        # an invalid regular expression: not one of the static rules (counted as skipped)
                ev['skipped'] = 'invalid-regex'
            elif isinstance(ex, TypeError) and ('%s' in text or '%(' in text) and 'parameters' in str(ex):
                ev['cls'] = 'ok'        # placeholders without parameters: API misuse, outside the claimed domain
                ev['skipped'] = 'placeholder-misuse'
            pi = getattr(ex, 'parseinfo', None)
            if pi is not None and getattr(pi, 'tokenizer', None) is not None:
                ref = pi.tokenizer.text
                lines = ref.splitlines(True)
                ev.update(haspos=1, len=len(ref), pos=pi.pos, endpos=pi.endpos, line=pi.line, nlines=len(lines))
                if 0 <= pi.line < len(lines):
                    ev['linestart'] = sum(len(x) for x in lines[:pi.line])
                    ev['lineend'] = ev['linestart'] + len(lines[pi.line])
            if isinstance(ex, (beanquery.ParseError, beanquery.CompilationError)):
                try:
                    r = shell.render_exception(ex)
                    ev['render'] = 1 if isinstance(r, str) else 0
                except Exception:  # noqa
                    ev['render'] = 0
        out.append(ev)
    return out


LEDGER = """
2020-01-01 open Assets:Cash
2020-01-01 open Expenses:Food
2020-01-02 * "P" "n" #t
  k: "v"
  Assets:Cash  -10.00 USD
  Expenses:Food  10.00 USD
2020-01-03 note Assets:Cash "hello"
"""

LEDGER_TEXTS = ['SELECT entry.nope', 'SELECT position.nope', 'SELECT position.units.nope', 'SELECT entry.meta.x', "SELECT meta['k'].y",
                'SELECT account.x', "SELECT date['k']", 'SELECT entry.date, entry.flag, position.units.currency', 'SELECT nope(account)',
                'SELECT account FROM #nope', 'SELECT tags FROM #transactions GROUP BY tags', 'SELECT meta, count(*)', 'SELECT count(*) GROUP BY meta',
                'SELECT DISTINCT meta', 'SELECT other_accounts, count(*)', 'SELECT count(*) GROUP BY balance', 'SELECT account ORDER BY nope',
                'SELECT open.nope FROM #accounts', 'SELECT open.date, close.date FROM #accounts', 'SELECT account WHERE meta', 'BALANCES AT nope',
                'JOURNAL "Cash" AT nope', 'SELECT account FROM OPEN ON 2020-02-01 CLOSE ON 2020-01-01', 'SELECT account FROM OPEN ON 2020-01-01 CLOSE',
                'SELECT account FROM has_account("x") + 1', 'SELECT account FROM sum(number) > 1', 'SELECT units(account)', 'SELECT sum(account)',
                'SELECT account IN tags', 'SELECT account IN account', 'SELECT getitem(account, "k")', 'SELECT meta("a", "b")', 'SELECT any_meta(1)']

TOKENS_EXTRA = ['SELECT', 'FROM', 'WHERE', 'GROUP', 'BY', 'ORDER', 'HAVING', 'PIVOT', 'LIMIT', 'DISTINCT', 'AS', 'AND', 'OR', 'NOT',
                'IN', 'IS', 'NULL', 'BETWEEN', '(', ')', ',', '*', '+', '-', '/', '%', '=', '!=', '<', '<=', '~', "'x'", '"y"', '1', '2.5',
                '2020-02-30', '2020-13-45', '0000-00-00', '9' * 5000, '#g', '#nope', '#', 'k', 'v', 'count', 'sum', ';', '%s', '%(a)s',
                'BALANCES', 'JOURNAL', 'PRINT', 'OPEN', 'ON', 'CLOSE', 'CLEAR', 'AT', 'TRUE', 'FALSE', 'coalesce()', 'k.x', "k['a']"]


def text_corpus(ctx, n):
    rng = ctx.rng
    gen = selectcheck.RandomQueries(rng)
    out = ['', ' ', '\n', '\t\n ', ';', 'SELECT', 'SELECT 2020-13-45', 'SELECT 2020-02-30 FROM #g', 'SELECT ' + '9' * 5000,
           'SELECT k FROM #g LIMIT ' + '9' * 5000, 'SELECT coalesce() FROM #g', 'SELECT k IN k FROM #g', 'SELECT k FROM #g WHERE',
           'SELECT k,\n  v +\n FROM #g', 'SELECT k FROM #g\nORDER BY 7', 'SELECT\n\n  nope\nFROM #g', 'SELECT k FROM #g;', 'SELECT k FROM #g; SELECT',
           "SELECT 'unterminated FROM #g", 'SELECT k FROM #g /* open comment', 'SELECT é, 中 FROM #g', 'SELECT k FROM #g WHERE s ~ "("',
           'SELECT 1e5', 'SELECT k <> 1 FROM #g', 'SELECT k FROM #g GROUP BY 1 HAVING', 'BALANCES AT', 'JOURNAL 3', 'PRINT FROM',
           'SELECT k FROM #g PIVOT BY k', 'SELECT k, v FROM #g PIVOT BY k, v', 'SELECT k FROM #g ORDER BY sum(v)',
           'SELECT k, sum(v) FROM #g GROUP BY k HAVING sum(v) > v', 'SELECT k FROM #g LIMIT -1', 'SELECT %s FROM #g', 'SELECT %(a)s FROM #g',
           'SELECT k FROM #g WHERE k IN (SELECT k, v FROM #g)', 'SELECT k.nope FROM #g', "SELECT k['x'] FROM #g", 'SELECT nofn(k) FROM #g',
           'SELECT k FROM #nope', 'SELECT * FROM #g WHERE sum(v) > 1', 'SELECT sum(sum(v)) FROM #g', 'SELECT k + sum(v) FROM #g',
           'SELECT m, count(*) FROM #g GROUP BY m', 'SELECT count(*) FROM #g GROUP BY l', 'SELECT m, count(*) FROM #g', 'SELECT DISTINCT m FROM #g',
           'SELECT DISTINCT k, l FROM #g', "SELECT m['x'], l FROM #g", "SELECT k['x'] FROM #g", 'SELECT m.x FROM #g', 'SELECT k IN l, k IN m FROM #g']
    # a SELECT where no subquery belongs - under every node kind, and under those on the right-hand side of IN
    sq, ss = '(SELECT k FROM #g)', '(SELECT s FROM #g)'
    wrapped = ['-%s' % sq, '%s + 1' % sq, '1 - %s' % sq, 'k * %s' % sq, '%s > 1' % sq, 'k = %s' % sq, '%s IS NULL' % sq, 'NOT %s' % sq, '%s AND TRUE' % sq,
               'k > 1 OR %s' % sq, 'k BETWEEN %s AND 2' % sq, '%s BETWEEN 1 AND 2' % sq, 'k BETWEEN 1 AND %s' % sq, 'coalesce(%s, 1)' % sq,
               'upper(%s)' % ss, 's ~ %s' % ss, '%s ~ "a"' % ss, 'length(%s)' % ss, 'count(%s)' % sq, 'sum(%s)' % sq, '(%s, 2)' % sq, '%s IN (1, 2)' % sq]
    out += ['SELECT %s FROM #g' % w for w in wrapped] + ['SELECT k FROM #g WHERE %s' % w for w in wrapped]
    out += ['SELECT count(*) FROM #g GROUP BY %s' % w for w in wrapped[:6]] + ['SELECT k FROM #g ORDER BY %s' % w for w in wrapped[:6]]
    out += ['SELECT k, count(*) FROM #g GROUP BY k HAVING %s' % w for w in wrapped[:8]]
    out += ['SELECT k FROM #g WHERE k %s %s' % (op, w) for op in ('IN', 'NOT IN') for w in
            ('-%s' % sq, '(k + %s)' % sq, 'abs(%s)' % sq, '(%s)' % sq, '(%s, 1)' % sq, 'coalesce(%s, 1)' % sq, '%s IN %s' % (sq, sq))]
    out += ['SELECT s FROM #g WHERE s IN lower(%s)' % ss, 'SELECT s FROM #g WHERE s IN upper((%s))' % ss]
    out += ['@ledger ' + t for t in ('BALANCES WHERE number IN -(SELECT number)', 'JOURNAL "Cash" FROM year IN -(SELECT year(date))',
                                     'SELECT account WHERE number IN (number + (SELECT number))', 'PRINT FROM year IN -(SELECT year(date))')]
    out += ['SELECT * FROM (SELECT k, s, sum(v) AS t FROM #g GROUP BY 1, 2 PIVOT BY 1, 2)', 'SELECT t FROM (SELECT k, s, sum(v) AS t FROM #g GROUP BY 1, 2 PIVOT BY k, s)',
            'SELECT k FROM #g WHERE k IN (SELECT k, s, sum(v) FROM #g GROUP BY 1, 2 PIVOT BY 1, 2)',
            'SELECT k FROM #g WHERE k NOT IN (SELECT k, s, count(*) FROM #g GROUP BY k, s PIVOT BY k, s)']
    out += ['@ledger ' + t for t in LEDGER_TEXTS]
    while len(out) < n:
        fam = rng.choice(['plain', 'order', 'group', 'pivot'])
        try:
            text = selectq.query_text(gen.query(fam), 'g')
        except bql.OutOfDomain:
            continue
        toks = text.replace('(', ' ( ').replace(')', ' ) ').replace(',', ' , ').split()
        k = rng.random()
        if k < 0.2:
            pass
        elif k < 0.4 and len(toks) > 2:
            del toks[rng.randrange(len(toks))]
        elif k < 0.55 and len(toks) > 2:
            i, j = rng.randrange(len(toks)), rng.randrange(len(toks))
            toks[i], toks[j] = toks[j], toks[i]
        elif k < 0.7:
            i = rng.randrange(len(toks))
            toks.insert(i, toks[i])
        elif k < 0.9:
            toks.insert(rng.randrange(len(toks) + 1), rng.choice(TOKENS_EXTRA))
        else:
            toks = [rng.choice(TOKENS_EXTRA) for _ in range(rng.randint(1, 12))]
        sep = rng.choice([' ', ' ', '\n', '  ', ' /* c */ '])
        out.append(sep.join(toks))
        if rng.random() < 0.05:
            out.append(''.join(chr(rng.choice([rng.randint(32, 126), rng.randint(160, 0x2fff)])) for _ in range(rng.randint(1, 30))))
    return out[:n]


def text_leg(ctx):
    texts = list(enumerate(text_corpus(ctx, ctx.pick(1600, 30000)), 1))
    nproc = 12
    chunks = [texts[i::nproc] for i in range(nproc)]
    with multiprocessing.get_context('fork').Pool(nproc) as pool:
        results = pool.map(_text_worker, [(c, REPO, VERIF) for c in chunks])
    events = sorted((e for r in results for e in r), key=lambda e: e['id'])
    path = ctx.path('parse_trace.ndjson')
    with open(path, 'w') as f:
        for e in events:
            f.write(json.dumps(e) + '\n')
    classes = {}
    ctx.skipped += sum(1 for e in events if e.get('skipped'))
    for e in events:
        classes[e['cls']] = classes.get(e['cls'], 0) + 1
        ctx.case('text:%d' % e['id'], e['cls'] != 'ok')
    res = ctx.tlc('Trace_Parse', 'Trace_Parse.cfg', leg='C2S', workers=1, env={'TRACE_FILE': path})
    bytext = dict(texts)
    nrej = 0
    for rj in res.printed:
        if isinstance(rj, dict) and rj.get('verdict') == 'rejected':
            ev = events[rj['line'] - 1]
            text = bytext[ev['id']]
            nrej += 1
            shown = text if len(text) < 200 else text[:80] + '...[%d chars]...' % len(text) + text[-40:]
            fam = family_of(text, ev)
            ctx.violation('text:%s:%s' % (rj['clause'], fam), 'statement text: %s' % (
                'escapes as %s' % ev['cls'] if rj['clause'] == 'class' else 'error location is not a valid span' if rj['clause'] == 'span'
                else 'the shell cannot render the error location'), {'text': shown, 'event': ev}, 'C2S', 'ParseError / CompilationError with a valid span', ev['cls'])
    if res.post_failed or res.depth - 1 != len(events):
        raise MachineryError('Trace_Parse did not consume the trace')
    ctx.traces += len(events) - nrej
    ctx.leg('C2S', texts=len(events), outcome_classes=classes, text_rejected_by_spec=nrej)
    ctx.sample({'leg': 'C2S', 'text_event': events[min(60, len(events) - 1)], 'text': bytext[events[min(60, len(events) - 1)]['id']][:200]})


def family_of(text, ev):
    """stable key: what kind of input makes the parser / compiler escape"""
    import re
    if not text.strip():
        return 'empty-input:' + ev['cls']
    if re.search(r'\d{4}-\d{2}-\d{2}', text) and ev['cls'] == 'ValueError':
        return 'invalid-calendar-date:ValueError'
    if re.search(r'\d{4000,}', text):
        return 'oversized-number:' + ev['cls']
    if 'coalesce()' in text.replace(' ', ''):
        return 'coalesce-no-args:' + ev['cls']
    if re.search(r'PIVOT\s+BY', text, re.I) and ev['cls'] == 'TypeError':
        return 'pivot-on-non-aggregate:TypeError'
    if re.search(r'\bOPEN\b.*\bCLOSE\b', text, re.I | re.S) and ev['cls'] == 'TypeError':
        return 'open-bare-close:TypeError'
    if '%s' in text or '%(' in text:
        return 'placeholder-without-params:' + ev['cls']
    if ev['cls'] == 'TypeError' and re.search(r'\bIN\b', text, re.I):
        return 'in-non-collection:TypeError'
    return ev['cls'] + ':' + re.sub(r'\s+', ' ', text)[:60]


FROM_EXPR = {'none': None, 'plain': 'year = 2020', 'and': 'year = 2020 AND month > 0 AND NOT flag = "!"', 'agg': 'count(*)',
             'aggcmp': 'max(date) = date', 'aggdeep': 'year = 2020 AND NOT (1 + count(id) > 1)', 'sub': 'year = (SELECT 2020)'}
FROM_DATES = {1: datetime.date(2020, 1, 1), 2: datetime.date(2020, 2, 1), 3: datetime.date(2020, 3, 1)}


def stmt_rules_leg(ctx):
    """FROM-clause rules for SELECT / BALANCES / JOURNAL / PRINT and attribute access (spec/StmtRules.tla)"""
    import beanquery
    from beanquery import parser, types
    from beanquery.parser import ast
    from beancount import loader
    entries, errors, options = loader.load_string(LEDGER + """
2020-01-04 balance Assets:Cash  -10.00 USD
2020-01-05 price USD 0.9 EUR
2020-01-06 event "location" "here"
2020-01-07 document Assets:Cash "/tmp/x.pdf"
2020-01-08 commodity USD
2020-01-09 close Expenses:Food
""")
    conn = beanquery.connect('beancount:', entries=entries, errors=errors, options=options)
    exprs = {k: (None if t is None else parser.parse('SELECT account FROM ' + t).from_clause.expression) for k, t in FROM_EXPR.items()}
    cases = []
    res = ctx.tlc('StmtRules', 'StmtRules.cfg', leg='MC+GEN', on_json=cases.append, workers=2)
    if res.violated:
        ctx.violation('spec:' + ','.join(res.violated), 'TLC: the compile mechanism disagrees with the FROM-clause rules', {'behaviour': res.behaviour[:3000]}, 'MC')
    ctx.tlc('StmtRules', 'StmtRules_printown.cfg', leg='MC-nonvacuity', expect_violation='AcceptInv', workers=1)
    if len(cases) != 4 * 7 * 4 * 5 * 2:
        raise MachineryError('StmtRules emitted %d cases' % len(cases))

    def build(c, text=False):
        quals = []
        if c['open']:
            quals.append('OPEN ON %s' % FROM_DATES[c['open']])
        if c['close']:
            quals.append('CLOSE' if c['close'] < 0 else 'CLOSE ON %s' % FROM_DATES[c['close']])
        if c['clear']:
            quals.append('CLEAR')
        ftext = ' '.join(([FROM_EXPR[c['from']]] if FROM_EXPR[c['from']] else []) + quals)
        head = {'select': 'SELECT account', 'balances': 'BALANCES', 'journal': "JOURNAL 'Cash'", 'print': 'PRINT'}[c['kind']]
        t = head + (' FROM ' + ftext if ftext else '')
        if text:
            return t, parser.parse(t)
        frm = None
        if ftext:
            frm = ast.From(copy.deepcopy(exprs[c['from']]), FROM_DATES.get(c['open']), True if c['close'] < 0 else FROM_DATES.get(c['close']),
                           True if c['clear'] else None)
        if c['kind'] == 'select':
            return t, ast.Select([ast.Target(ast.Column('account'), None)], frm, None, None, None, None, None, None)
        if c['kind'] == 'balances':
            return t, ast.Balances(None, frm, None)
        if c['kind'] == 'journal':
            return t, ast.Journal('Cash', None, frm)
        return t, ast.Print(frm)

    def compile_(stmt):
        try:
            conn.compile(stmt)
            return True, None
        except beanquery.CompilationError as ex:
            return False, ex
        except Exception as ex:  # noqa
            return None, ex

    nrej = 0
    for idx, c in enumerate(cases):
        if ctx.quick and c['kind'] in ('balances', 'journal') and idx % 3:
            continue            # their compilation re-parses a template (slow): every third case in the quick tier
        t, stmt = build(c)
        ok, ex = compile_(stmt)
        ctx.case('from:' + t, not c['ok'])
        ctx.traces += 1
        nrej += not c['ok']
        key = 'from:%s:%s' % (c['kind'], c['err'] or 'valid')
        if ok is None:
            ctx.violation(key + ':' + type(ex).__name__, 'compiling the statement: %s escapes: %s' % (type(ex).__name__, ex), {'text': t, 'case': c}, 'S2C',
                          'accepted' if c['ok'] else 'CompilationError (%s)' % c['err'], repr(ex))
        elif ok != c['ok']:
            ctx.violation(key + (':rejected' if c['ok'] else ':accepted'), 'FROM-clause rules: statement %s' % ('wrongly rejected' if c['ok'] else 'violating "%s" is accepted' % c['err']),
                          {'text': t, 'case': c}, 'S2C', 'accepted' if c['ok'] else 'CompilationError (%s)' % c['err'], 'accepted' if ok else repr(ex))
    # ---- C2S: the same space through the text route (random subset), and attribute access on every column of every table
    events = []
    sub = ctx.rng.sample(cases, ctx.pick(120, 960))
    for c in sub:
        t, stmt = build(c, text=True)
        ok, ex = compile_(stmt)
        if ok is None:
            ctx.violation('from:text:' + type(ex).__name__, '%s escapes: %s' % (type(ex).__name__, ex), {'text': t}, 'C2S')
            continue
        events.append({'id': len(events) + 1, 'what': 'from', 'kind': c['kind'], 'from': c['from'], 'open': c['open'], 'close': c['close'],
                       'clear': c['clear'], 'ok': ok, 'structured': 0, 'known': 0, 'text': t})

    def structured(dtype):
        d = types.ALIASES.get(dtype, dtype)
        return d if isinstance(d, type) and issubclass(d, types.Structure) else None

    def walk(tn, node, path, dtype, depth):
        sd = structured(dtype)
        attrs = (list(sd.columns) if sd else []) + ['nope', 'date_', 'x']
        for an in attrs:
            e = ast.Attribute(copy.deepcopy(node), an)
            stmt = selectq.bql.select_ast([(e, 'r')], tn)
            ok, ex = compile_(stmt)
            t = 'SELECT %s.%s FROM #%s' % (path, an, tn)
            ctx.case('attr:' + t, not (sd and an in sd.columns))
            if ok is None:
                ctx.violation('attr:' + type(ex).__name__, '%s escapes: %s' % (type(ex).__name__, ex), {'text': t}, 'C2S')
                continue
            events.append({'id': len(events) + 1, 'what': 'attr', 'kind': '', 'from': '', 'open': 0, 'close': 0, 'clear': False, 'ok': ok,
                           'structured': 1 if sd else 0, 'known': 1 if sd and an in sd.columns else 0, 'text': t})
            if sd and an in sd.columns and depth < 2:
                walk(tn, e, path + '.' + an, sd.columns[an].dtype, depth + 1)
    for tn, tab in conn.tables.items():
        if not tn:
            continue
        for cn, col in tab.columns.items():
            walk(tn, ast.Column(cn), cn, col.dtype, 0)
    # every column name of every table resolves - also when it is WRITTEN (text route, any letter case, and as an alias):
    # words the grammar uses in clauses (open, close, clear, on, at, ...) are not reserved
    named = [(tn, cn) for tn, tab in conn.tables.items() if tn for cn in tab.columns]
    extra = ctx.rng.sample(named, min(len(named), ctx.pick(40, 400)))
    soft = [(tn, cn) for tn, cn in named if cn.lower() in ('open', 'close', 'clear', 'on', 'at', 'by', 'from', 'type', 'date', 'year', 'null', 'meta', 'id')]
    for tn, cn in dict.fromkeys(soft + extra):
        for t in ('SELECT %s FROM #%s' % (cn, tn), 'SELECT %s FROM #%s' % (cn.upper(), tn), 'SELECT 1 AS %s FROM #%s' % (cn, tn)):
            try:
                stmt = parser.parse(t)
                ok, ex = compile_(stmt)
            except beanquery.ParseError as ex_:
                ok, ex = False, ex_
            except Exception as ex_:  # noqa
                ok, ex = None, ex_
            ctx.case('name:' + t, False)
            if ok is None:
                ctx.violation('name:' + type(ex).__name__, '%s escapes: %s' % (type(ex).__name__, ex), {'text': t}, 'C2S')
                continue
            events.append({'id': len(events) + 1, 'what': 'attr', 'kind': '', 'from': '', 'open': 0, 'close': 0, 'clear': False, 'ok': ok,
                           'structured': 1, 'known': 1, 'text': t})
    # the same values handed on by a subquery keep their datatype
    for tn, cn in (('accounts', 'open'), ('accounts', 'close'), ('postings', 'position'), ('postings', 'entry'), ('postings', 'account')):
        sub_ = selectq.bql.select_ast([(ast.Column(cn), 'o')], tn)
        d = conn.tables[tn].columns[cn].dtype
        sd = structured(d)
        for an in (list(sd.columns) if sd else []) + ['nope']:
            stmt = selectq.bql.select_ast([(ast.Attribute(ast.Column('o'), an), 'r')], sub_)
            ok, ex = compile_(stmt)
            if ok is None:
                ctx.violation('attr:sub:' + type(ex).__name__, '%s escapes: %s' % (type(ex).__name__, ex), {'text': '%s.%s via subquery' % (cn, an)}, 'C2S')
                continue
            events.append({'id': len(events) + 1, 'what': 'attr', 'kind': '', 'from': '', 'open': 0, 'close': 0, 'clear': False, 'ok': ok,
                           'structured': 1 if sd else 0, 'known': 1 if sd and an in sd.columns else 0,
                           'text': 'SELECT o.%s FROM (SELECT %s AS o FROM #%s)' % (an, cn, tn)})
    path = ctx.path('stmtrules.ndjson')
    with open(path, 'w') as f:
        for e in events:
            f.write(json.dumps(e) + '\n')
    res = ctx.tlc('Trace_StmtRules', 'Trace_StmtRules.cfg', leg='C2S', workers=1, env={'TRACE_FILE': path})
    nbad = 0
    for rj in res.printed:
        if isinstance(rj, dict) and rj.get('verdict') == 'rejected':
            ev = events[rj['line'] - 1]
            nbad += 1
            ctx.violation('%s:%s' % (ev['what'], rj['clause']), 'recorded compilation not explained by the specification: ' + rj['clause'],
                          {'text': ev['text'], 'event': ev}, 'C2S', not ev['ok'], ev['ok'])
    if res.post_failed or res.depth - 1 != len(events):
        raise MachineryError('Trace_StmtRules did not consume the trace')
    ctx.traces += len(events) - nbad
    nattr = sum(1 for e in events if e['what'] == 'attr')
    if nattr < 100 or not any(e['what'] == 'attr' and e['ok'] for e in events) or nrej < 100:
        raise MachineryError('vacuity: attribute walk / rejected FROM clauses too small')
    ctx.leg('S2C+C2S:stmt-rules', from_cases=len(cases), from_rejected_by_spec=nrej, from_as_text=len(sub), attribute_statements=nattr,
            attribute_accepted=sum(1 for e in events if e['what'] == 'attr' and e['ok']))


def run(ctx):
    ctx.rule = ('S2C: every ill-typed expression spine of depth 1 (quick: every 3rd) and every (table, query) state of the '
                'valid+invalid query space; C2S: random trees and mutated / arbitrary statement texts; distinct by skeleton / '
                'text id; non-trivial = rejected by the spec or by the code')
    ctx.assumptions += ['API misuse (wrong parameter container kinds) is outside the generated domain',
                        'statements with placeholders are submitted without parameters only in the text corpus (TypeError there is recorded separately)',
                        'TLC 1.8, CPython 3.12, harness/bql.py + selectq.py']
    # ---- MC + S2C over the query space (valid and invalid shapes)
    rp = selectcheck.run_mc_and_replay(ctx, 'invalid', 2, 1, 3, 1,
                                       nonvac=('nopivotcheck', 'CompileIffValid', 'CompileIffValid'))
    if rp.n_rej == 0:
        raise MachineryError('vacuity: no statement was rejected by the specification')
    tag = os.getpid()
    cfg = selectcheck.write_cfg(ctx, 'Tmp_MCSelAll_%d.cfg' % tag, ctx.pick(1, 2), 'all', 'none', 1, invs='CompileIffValid', props=False)
    try:
        res = ctx.tlc('MC_Select', cfg, leg='MC')
        if res.violated:
            ctx.violation('spec:CompileIffValid', 'TLC: mechanism and rule list disagree', {'behaviour': res.behaviour[:3000]}, 'MC')
    finally:
        os.remove(os.path.join(selectcheck.SPEC, cfg))
    # ---- S2C: ill-typed expression spines
    er = exprcheck.ExprReplayer(ctx, 'verdict')
    stride = ctx.pick(3, 1)
    cnt = [0]
    texts = []

    def feed(m):
        if 'table' in m:
            er.feed(m)
            return
        cnt[0] += 1
        if cnt[0] % stride == 0:
            er.feed(m)
            if cnt[0] % 97 == 0:
                texts.append(m)
    ctx.tlc('Gen_Expr', 'Gen_ExprIll1.cfg', leg='GEN', on_json=feed)
    er.flush()
    # the same through the text route: must be ParseError / CompilationError too
    from beanquery import parser
    ntext = 0
    for m in texts[:ctx.pick(80, 1500)]:
        try:
            text = 'SELECT %s AS c0 FROM #t' % bql.expr_text(m['e'])
        except bql.OutOfDomain:
            continue
        ntext += 1
        status, desc, rows = selectq.run_query(er.conn, text)
        if status != 'rejected':
            ctx.violation('expr:' + bql.expr_key(m['e']) + ':text:' + (type(desc).__name__ if status == 'error' else 'accepted'),
                          'ill-typed expression as text: %s' % status, {'text': text}, 'S2C', 'CompilationError', repr(desc)[:200])
    ctx.leg('S2C', illtyped_expressions=er.n_expr, illtyped_as_text=ntext)
    if er.n_expr < 1000:
        raise MachineryError('too few ill-typed expressions replayed')
    # ---- C2S
    path = ctx.path('expr_trace.ndjson')
    n = exprcheck.random_cases(ctx, path, ctx.pick(700, 20000), 5, 6)
    exprcheck.validate_expr_trace(ctx, path, n, prop_filter=lambda clause, ev: 'accepts' in clause or 'rejects' in clause or ev.get('exc'))
    text_leg(ctx)
    stmt_rules_leg(ctx)
    ctx.exhaustive = False


def replay(ctx, rep):
    case = rep['case']
    if 'q' in case:
        return selectcheck.replay_case(ctx, rep)
    if 'text' in case and ('case' in case or (case.get('event') or {}).get('what') in ('from', 'attr')):
        # a statement of the FROM-clause / attribute rules: compile it again on the small ledger
        import beanquery
        from beanquery import parser
        from beancount import loader
        entries, errors, options = loader.load_string(LEDGER + '2020-01-09 close Expenses:Food\n2020-01-08 commodity USD\n')
        conn = beanquery.connect('beancount:', entries=entries, errors=errors, options=options)
        try:
            conn.compile(parser.parse(case['text']))
            got = 'accepted'
        except beanquery.CompilationError as ex:
            got = 'CompilationError: %s' % ex
        except Exception as ex:  # noqa
            got = '%s: %s' % (type(ex).__name__, ex)
        want = rep.get('expected')
        if isinstance(want, bool):
            want = 'accepted' if want else 'CompilationError'
        print('statement:', case['text'])
        print('expected :', want)
        print('observed :', got)
        return 0 if str(want).split(' ')[0].split(':')[0] == got.split(' ')[0].split(':')[0] else 1
    print(json.dumps(case)[:1000])
    return 1
