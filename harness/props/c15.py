"""C15 -- PIVOT BY is a lossless reshaping of a two-key aggregate result (spec/BQLSelect.tla: PivotRows, PivotLaw).

MC   PivotLaw (every un-pivoted row is found at block (first, second); absent combinations are NULL blocks; rows by
     ascending first key; arity 1 + keys x remaining columns) on all tables of <= 3 rows x pivots by name / position,
     1..2 remaining columns, pivot columns in any target position; invalid references are part of the query set and
     must be rejected; non-vacuity: a mechanism that skips the pivot must be refuted
S2C  each (table, query) state replayed on the real code, including the pivoted description names and types
C2S  random tables x random pivot queries (1..3 remaining columns, shuffled target positions) judged by TLC
"""
import decimal
import datetime

from harness import selectcheck, selectq, bql
from harness import tables as ht


def pivot_description(ctx):
    """naming / typing of the pivoted columns: `first/second`, then `value` or `value/column`, typed like the
    remaining columns -- checked on the real code against the statement for a fixed small case"""
    t = ht.HarnessTable('g', selectcheck.COLS, [(1, 'a', 1, decimal.Decimal('0.5'), 1), (2, 'b', 2, None, 2), (1, 'b', 3, None, 3)])
    conn = ht.connection(t)
    cases = [
        ('SELECT k AS kk, s AS ss, sum(v) AS sv FROM #g GROUP BY 1, 2 PIVOT BY kk, ss', ['kk/ss', 'a', 'b'], [int, int, int]),
        ('SELECT k AS kk, s AS ss, sum(v) AS sv, count(*) AS c FROM #g GROUP BY 1, 2 PIVOT BY 1, 2',
         ['kk/ss', 'a/sv', 'a/c', 'b/sv', 'b/c'], [int, int, int, int, int]),
        ('SELECT sum(w) AS sw, s AS ss, k AS kk FROM #g GROUP BY 2, 3 PIVOT BY ss, kk', ['ss/kk', '1', '2'], [str, decimal.Decimal, decimal.Decimal]),
    ]
    for text, names, types in cases:
        status, desc, rows = selectq.run_query(conn, text)
        ctx.case('pivot-desc:' + text)
        ctx.traces += 1
        if status != 'ok':
            ctx.violation('pivot:description:' + status, 'pivot statement failed: %s' % desc, {'text': text}, 'S2C')
            continue
        if [c.name for c in desc] != names or [c.datatype for c in desc] != types:
            ctx.violation('pivot:description', 'names / datatypes of the pivoted columns', {'text': text}, 'S2C',
                          [names, [t.__name__ for t in types]], [[c.name for c in desc], [c.datatype.__name__ for c in desc]])


def run(ctx):
    ctx.rule = ('S2C: all tables of <= 3 (quick) / <= 4 rows x the pivot query space; distinct = (query skeleton, table); '
                'non-trivial = table non-empty; C2S: random tables / pivot queries')
    ctx.assumptions += ['pivot keys non-NULL in the C2S generator except when explicitly generated (NULL keys: see known findings)',
                        'TLC 1.8, CPython 3.12, harness/bql.py + selectq.py (projection)']
    selectcheck.run_mc_and_replay(ctx, 'pivot', 3, 1, 4, 1, nonvac=('nopivot', 'PivotLaw', 'PivotLaw'))
    pivot_description(ctx)
    selectcheck.record_and_validate(ctx, 'pivot', ctx.pick(1500, 15000), 24)
    ctx.exhaustive = False


def replay(ctx, rep):
    return selectcheck.replay_case(ctx, rep)
