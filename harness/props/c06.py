"""C06 -- parsing inverts printing (precedence, associativity, literals); shipped parser = published grammar.

spec/Parser.tla is a token-level model of beanquery/parser/bql.ebnf: PrintTokens (statement tree -> tokens, parentheses
from the NeedsParens table), Parse (recursive-descent transcription of the grammar rules), Abs (literal spellings ->
typed values).

legs: MC   TLC: Parse(Print(s, style)) = Abs(s) for every expression spine (every parent x child x position) in every
           expression slot and every clause combination, three styles; every pair of parentheses Print deems
           necessary is necessary; comparison-level operators do not chain.  Non-vacuity: a wrong NeedsParens table
           (right operand of `-`; an over-eager one) must be rejected by TLC.
      S2C  TLC emits token sequences with what Parse says about them; each is laid out as text under seeded layouts
           (letter case, blanks, newlines, comments, quote style) and parsed by BOTH the shipped parser and a parser
           generated in-process from bql.ebnf; all three must agree (AST or rejection).
      C2S  mutated token sequences and arbitrary texts are parsed by both parsers, one ndjson event per text, and
           TLC (Trace_Parser) judges every event: shipped = derived always, = Parse(tokens) whenever the text comes
           from tokens of the model's alphabet.

Sessions (spec/ParserSession.tla): parsing is a function of the TEXT -- not of what the process did before.  The legs
above give every text to a parser exactly once and never run a statement; the session part quantifies over call
histories: the same text parsed again, executed with parameters in between (Connection.execute, Cursor.execute,
executemany, execution of a parsed tree; the compiler numbers positional placeholders of the tree it is given in
place), on several connections of one process, other texts interleaved.
      MC   ParserSession: every parsing call of every history returns Required(tokens) and no tree handed out
           changes afterwards, for a parser that retains nothing and for one that retains trees and hands out copies;
           one that hands out the retained tree itself is refuted by TLC (both invariants).
      S2C  TLC simulates sessions over a table of texts with placeholders of every kind in every statement kind; each
           is run on the real code in one process (seeded layouts; the text of a session is byte-identical from call to
           call) and every parse result, and every tree still held at the end, is compared with the spec's.
      C2S  random sessions over the generated token sequences above are run the same way, one ndjson line per call,
           and Trace_ParserSession judges every line, following the history in its state.
"""
import hashlib
import json
import multiprocessing
import os
import random
import re
import sys
import threading
import time
import types

from harness import bqlast as B
from harness import core

JVM = ('-Xss32m',)      # the recursive-descent operators nest deeply on long statements
KWPREFIX = re.compile(r'^(and|as|asc|by|desc|distinct|false|from|group|having|in|is|limit|not|or|order|pivot|select|true|'
                      r'where|balances|journal|print|null|between|open|close|clear|on|at)_', re.I)

# ---------------------------------------------------------------------------------------------------------------------
# the two parsers
# ---------------------------------------------------------------------------------------------------------------------
_W = {}


def derive_source(repo, extra_directive=None):
    """generate the parser from the published grammar, as `python -m tatsu bql.ebnf` does"""
    import tatsu
    with open(os.path.join(repo, 'beanquery', 'parser', 'bql.ebnf')) as f:
        grammar = f.read()
    if extra_directive and extra_directive.split()[0] not in grammar:
        grammar = grammar.replace('@@ignorecase :: True\n', '@@ignorecase :: True\n%s\n' % extra_directive, 1)
    return tatsu.to_python_sourcecode(grammar, name='BQL')


def load_module(source, name):
    mod = types.ModuleType(name)
    exec(compile(source, name, 'exec'), mod.__dict__)
    return mod


def _init_worker(repo, derived_source):
    if repo not in sys.path:
        sys.path.insert(0, repo)
    import beanquery.parser as P
    got = os.path.realpath(os.path.dirname(os.path.dirname(os.path.dirname(os.path.abspath(P.__file__)))))
    assert got == os.path.realpath(repo), (got, repo)
    _W['P'] = P
    _W['shipped'] = P.parser
    _W['derived'] = load_module(derived_source, 'bql_derived_from_grammar')


def outcome(which, text):
    """parse `text` exactly as beanquery.parser.parse does, with the shipped or the derived parser module"""
    P = _W['P']
    mod = _W[which] if isinstance(which, str) else which
    P.parser = mod
    try:
        try:
            node = P.parse(text)
        finally:
            P.parser = _W['shipped']
    except P.ParseError as ex:
        return {'ok': False, 'why': 'reject', 'pos': getattr(ex.parseinfo, 'pos', -1)}
    except RecursionError:
        return {'ok': False, 'why': 'exc:RecursionError', 'pos': -1}
    except Exception as ex:  # noqa   (an escaping exception is still "not accepted"; C05 judges its class)
        return {'ok': False, 'why': 'exc:' + type(ex).__name__, 'pos': -1}
    try:
        return {'ok': True, 'ast': B.stmt_to_spec(node)}
    except B.Odd as ex:
        return {'ok': True, 'odd': str(ex)[:300]}


def sig(o):
    return hashlib.blake2b(json.dumps(o, sort_keys=True).encode(), digest_size=10).hexdigest()


def _work(batch):
    """[(cid, text, expected|None, keep, both)] -> [(cid, shipped, derived|None, verdict)]; outcomes are dropped when all
    agree and the caller does not need them"""
    out = []
    for cid, text, expected, keep, both in batch:
        s = outcome('shipped', text)
        d = outcome('derived', text) if both else None
        v = ''
        if d is not None and s != d:
            v = 'shipped#derived'
        elif 'odd' in s:
            v = 'odd'
        elif expected is not None:
            if expected['ok'] != s['ok'] or (s['ok'] and expected['ast'] != s['ast']):
                v = 'spec#shipped'
        if v or keep:
            out.append((cid, s, d, v))
        else:
            out.append((cid, None, None, ''))
    return out


class Parsers:
    def __init__(self, ctx, nproc=16):
        self.ctx = ctx
        t0 = time.time()
        self.source = derive_source(core.REPO)
        with open(os.path.join(core.REPO, 'beanquery', 'parser', 'parser.py')) as f:
            self.identical = f.read() == self.source
        ctx.log('parser generated from bql.ebnf in %.1fs; byte-identical to the shipped parser.py: %s' % (
            time.time() - t0, self.identical))
        _init_worker(core.REPO, self.source)
        self.pool = multiprocessing.get_context('fork').Pool(nproc, _init_worker, (core.REPO, self.source))
        self._fixed = None

    def run(self, items, chunk=64):
        """items: [(cid, text, expected|None, keep, both)] -> {cid: (shipped, derived, verdict)}"""
        batches = [items[i:i + chunk] for i in range(0, len(items), chunk)]
        res = {}
        for out in self.pool.imap_unordered(_work, batches):
            for cid, s, d, v in out:
                res[cid] = (s, d, v)
        return res

    def close(self):
        self.pool.terminate()
        self.pool.join()

    def fixed_outcome(self, text):
        """the same grammar with `_` declared a name character (the repair of the known keyword-prefix defect)"""
        if self._fixed is None:
            self._fixed = load_module(derive_source(core.REPO, "@@namechars :: '_'"), 'bql_derived_namechars')
        return outcome(self._fixed, text)


# ---------------------------------------------------------------------------------------------------------------------
# judging one mismatch
# ---------------------------------------------------------------------------------------------------------------------
def brief(x):
    if isinstance(x, dict):
        if 'op' in x:
            return '%s/%s' % (x.get('k'), x['op'])
        if 'val' in x:
            return 'const/%s' % x['val'].get('t')
        if 'k' in x:
            return str(x['k'])
        if 't' in x:
            return 'val/%s' % x['t']
        return 'rec'
    if isinstance(x, list):
        return 'seq%d' % len(x)
    return repr(x)[:20]


def diff_path(a, b, path=''):
    """first place where two token-model ASTs differ: (path without indices, brief a, brief b)"""
    if type(a) is not type(b):
        return path, brief(a), brief(b)
    if isinstance(a, dict):
        if a.get('k') != b.get('k') or a.get('op') != b.get('op') or set(a) != set(b):
            return path, brief(a), brief(b)
        for k in sorted(a):
            if a[k] != b[k]:
                return diff_path(a[k], b[k], path + '.' + k)
        return None
    if isinstance(a, list):
        if len(a) != len(b):
            return path, brief(a), brief(b)
        for x, y in zip(a, b):
            if x != y:
                return diff_path(x, y, path)
        return None
    return (path, brief(a), brief(b)) if a != b else None


def describe(o):
    if o is None:
        return None
    if o.get('ok'):
        return {'ok': True, 'ast': o.get('ast', o.get('odd'))}
    return {'ok': False, 'why': o.get('why', 'reject'), 'pos': o.get('pos')}


def judge(ctx, parsers, leg, fam, tokens, text, expected, s, d, verdict):
    """report one disagreement; returns True if it was attributed to a listed known finding"""
    case = {'fam': fam, 'tokens': tokens, 'text': text, 'expected': expected}
    if verdict == 'shipped#derived':
        dp = diff_path(s.get('ast'), d.get('ast')) if s.get('ok') and d.get('ok') and 'ast' in s and 'ast' in d else None
        what = '%s:%s/%s' % dp if dp else '%s/%s' % ('accept' if s['ok'] else s.get('why'), 'accept' if d['ok'] else d.get('why'))
        return ctx.violation('shipped-vs-grammar:' + what, 'the shipped parser and the parser generated from bql.ebnf differ',
                             case, leg, describe(d), describe(s))
    if verdict == 'odd':
        return ctx.violation('ast-vocabulary:' + s['odd'][:60], 'the parser returned a tree outside the AST vocabulary',
                             case, leg, describe(expected), s['odd'])
    # spec#shipped
    kw = next((KWPREFIX.match(t['s']).group(1).lower() for t in (tokens or []) if t['t'] == 'id' and KWPREFIX.match(t['s'])), None)
    if kw is not None:
        f = parsers.fixed_outcome(text)
        if f.get('ok') == expected['ok'] and (not f['ok'] or f.get('ast') == expected['ast']):
            return ctx.violation('kwprefix-ident:' + kw, 'an identifier that starts with a grammar word and an underscore is cut in two',
                                 case, leg, describe(expected), describe(s))
    if expected['ok'] and s['ok']:
        dp = diff_path(expected['ast'], s['ast'])
        key = 'roundtrip:%s:%s:%s/%s' % ((fam,) + dp)
    else:
        key = 'roundtrip:%s:%s/%s' % (fam, 'accept' if expected['ok'] else 'reject', 'accept' if s['ok'] else s.get('why'))
    return ctx.violation(key, 'parsing the text gives something else than the specification of the grammar', case, leg,
                         describe(expected), describe(s))


# ---------------------------------------------------------------------------------------------------------------------
# S2C
# ---------------------------------------------------------------------------------------------------------------------
def case_key(c):
    return json.dumps(c['tokens'], sort_keys=True)


def gen_cases(ctx):
    """run the Gen configurations (concurrently: the fixed families come from a single state, i.e. a single TLC
    worker); returns the de-duplicated cases"""
    runs = [('Gen_ParserFixed.cfg', 2), (ctx.pick('Gen_ParserStmt.cfg', 'Gen_ParserStmtT.cfg'), ctx.pick(6, 16)),
            (ctx.pick('Gen_ParserSpine.cfg', 'Gen_ParserSpineT.cfg'), ctx.pick(6, 16))]
    results = [None] * len(runs)
    errors = []

    def gen(k):
        try:
            results[k] = ctx.tlc('Gen_Parser', runs[k][0], leg='GEN', workers=runs[k][1], timeout=ctx.pick(600, 3000), jvm=JVM)
        except BaseException as ex:  # noqa
            errors.append(ex)
    threads = [threading.Thread(target=gen, args=(k,)) for k in range(len(runs))]
    for t in threads:
        t.start()
        time.sleep(0.05)
    for t in threads:
        t.join()
    if errors:
        raise errors[0]
    seen = set()
    cases = []
    fams = {}
    for (cfg, w), res in zip(runs, results):
        if res.violated:
            raise core.MachineryError('generator %s: %s' % (cfg, res.violated))
        n0 = len(cases)
        for p in res.printed:
            if not isinstance(p, dict) or 'tokens' not in p:
                continue
            k = case_key(p)
            if k in seen:
                continue
            seen.add(k)
            cases.append(p)
            fams[p['fam']] = fams.get(p['fam'], 0) + 1
        ctx.log('generator %s: %d lines, %d new distinct token sequences' % (cfg, len(res.printed), len(cases) - n0))
        res.printed = []
    return cases, fams


def nontrivial(c):
    """a case exercises precedence / associativity / literal forms when it has an operator, a literal or a clause"""
    ts = c['tokens']
    return len(ts) > 2


def s2c(ctx, parsers, cases, budget_tokens):
    """TatSu's cost grows with the length of the text (about 4 ms of CPU per token here): the budget is in tokens.
    Every sequence of the fixed families is laid out; of the spine / statement families a seeded sample (the quick tier
    leaves out sequences of more than 45 tokens); what is left of the budget goes into further layouts."""
    rng = random.Random(ctx.seed)
    fixed = [c for c in cases if c['fam'] not in ('spine', 'stmt', 'without')]
    rest = [c for c in cases if c['fam'] in ('spine', 'stmt', 'without') and (not ctx.quick or len(c['tokens']) <= 45)]
    rng.shuffle(rest)
    chosen = list(fixed)
    used = sum(len(c['tokens']) + 1 for c in chosen)
    for c in rest:
        if used >= budget_tokens:
            break
        chosen.append(c)
        used += len(c['tokens']) + 1
    n_generated = len(cases)
    cases = chosen
    layouts = [1] * len(cases)
    order = list(range(len(cases)))
    rng.shuffle(order)
    k = 0
    while used < budget_tokens and order:          # second and third layouts of the same token sequences
        ci = order[k % len(order)]
        layouts[ci] += 1
        used += len(cases[ci]['tokens']) + 1
        k += 1
        if k >= 3 * len(order):
            break
    items = []
    meta = {}
    nboth = 0
    for ci, c in enumerate(cases):
        expected = {'ok': c['ok'], 'ast': c['ast']}
        for j in range(layouts[ci]):
            lr = random.Random('%d/%d/%d' % (ctx.seed, ci, j))
            if c['fam'] == 'kwprefix' and j == 0:
                text = B.layout(c['tokens'], lr, plain=True)
            else:
                text = B.layout(c['tokens'], lr)
            cid = len(items)
            # when the generated parser source is byte-identical to the shipped parser.py the two are the same
            # deterministic code: the derived one then runs on every 8th text here (and on every text of the C2S leg);
            # otherwise on every text
            both = (not parsers.identical) or cid % 8 == 0 or c['fam'] in ('corner', 'kwprefix', 'chain')
            nboth += both
            items.append((cid, text, expected, False, both))
            meta[cid] = (ci, text)
    t0 = time.time()
    res = parsers.run(items)
    wall = time.time() - t0
    bad = 0
    accepted = rejected = 0
    for cid, (s, d, v) in res.items():
        ci, text = meta[cid]
        c = cases[ci]
        if c['ok']:
            accepted += 1
        else:
            rejected += 1
        if v:
            bad += 1
            judge(ctx, parsers, 'S2C', c['fam'], c['tokens'], text, {'ok': c['ok'], 'ast': c['ast']}, s, d, v)
    for c in cases:
        ctx.case(case_key(c), nontrivial(c))
    ctx.evaluations += len(items) - len(cases)
    ctx.traces += len(items)
    for c in cases[:2] + cases[len(cases) // 2:len(cases) // 2 + 1]:
        ctx.sample({'leg': 'S2C', 'fam': c['fam'], 'text': B.layout(c['tokens'], None, plain=True)[:200], 'spec_ok': c['ok']})
    ctx.leg('S2C', token_sequences_generated=n_generated, token_sequences=len(cases), tokens=used, texts=len(items), texts_parsed_by_both_parsers=nboth, texts_spec_accepts=accepted, texts_spec_rejects=rejected,
            disagreements=bad, parse_wall_s=round(wall, 1), texts_per_s=round(len(items) / max(wall, 0.01)))
    ctx.log('S2C: %d texts (%d token sequences) parsed by the shipped parser, %d of them also by the derived one, in %.1fs; '
            '%d disagreements' % (len(items), len(cases), nboth, wall, bad))
    # the three shapes agree with each other: token-model AST -> Appendix C -> beanquery.parser.ast -> back
    n = 0
    for c in cases[::max(1, len(cases) // 3000)]:
        if not c['ok']:
            continue
        n += 1
        try:
            j = B.spec_to_abstract(c['ast'])
            node = B.from_abstract(j)
            ok = B.stmt_to_spec(node) == c['ast'] and B.to_abstract(node) == j
        except Exception as ex:  # noqa
            ok = False
            j = repr(ex)
        if not ok:
            raise core.MachineryError('harness/bqlast.py does not round-trip %r' % (c['ast'],))
    ctx.leg('S2C', converter_round_trips=n)


# ---------------------------------------------------------------------------------------------------------------------
# C2S
# ---------------------------------------------------------------------------------------------------------------------
def vocabulary():
    t = B.tok
    v = [t('kw', k) for k in sorted(B.KEYWORDS)]
    v += [t('id', n) for n in ('a', 'b', 'x1', 'f', 'sum', 'open', 'close', 'clear', 'on', 'at', 'between', 'null', 's')]
    v += [t('p', c) for c in ('(', ')', ',', '*', '+', '-', '/', '%', '<', '<=', '>', '>=', '=', '!=', '~', '!~', '.', '[', ']',
                              '(', ')', ',', ',', '(', ')')]
    v += [t('p', '%s'), t('p', '%('), t('p', ')s')]
    v += [t('int', '', [1]), t('int', '', [0, 7]), t('dec', '', [1, -1, 5]), t('dec', '', [-1, 5]), t('dec', '', [2, -1]),
          t('date', '', [2020, 1, 2]), t('str', 's1'), t('str', 's4'), t('table', 't'), t('table', '')]
    return v


_OPS = [B.tok('p', c) for c in ('+', '-', '*', '/', '%', '<', '<=', '>', '>=', '=', '!=', '~', '!~')] + \
       [B.tok('kw', 'AND'), B.tok('kw', 'OR'), B.tok('kw', 'IN')]
_ATOMS = [B.tok('id', 'a'), B.tok('id', 'zz9'), B.tok('int', '', [4, 2]), B.tok('dec', '', [-1, 5]), B.tok('dec', '', [3, -1]),
          B.tok('str', 's2'), B.tok('date', '', [2020, 10, 10]), B.tok('kw', 'TRUE'), B.tok('id', 'null'), B.tok('p', '%s')]


def _is_op(t):
    return (t['t'] == 'p' and t['s'] in '+-*/%<<=>>==!=~!~' and t['s'] not in ('(', ')', ',', '.', '[', ']', '%s', '%(', ')s')) \
        or (t['t'] == 'kw' and t['s'] in ('AND', 'OR', 'IN'))


def _is_atom(t):
    return t['t'] in ('int', 'dec', 'date', 'str') or (t['t'] == 'id' and t['s'] not in B.SOFT) or (t['t'] == 'kw' and t['s'] in ('TRUE', 'FALSE'))


def gentle(ts, rng):
    """one edit that often keeps the text a statement but changes what it means (other operator, other operand, a pair of
    parentheses more or less, a unary operator more)"""
    ts = list(ts)
    r = rng.random()
    ops = [i for i, t in enumerate(ts) if _is_op(t)]
    atoms = [i for i, t in enumerate(ts) if _is_atom(t)]
    opens = [i for i, t in enumerate(ts) if t['t'] == 'p' and t['s'] == '(']
    if r < 0.3 and ops:
        ts[rng.choice(ops)] = rng.choice(_OPS)
    elif r < 0.5 and atoms:
        ts[rng.choice(atoms)] = rng.choice(_ATOMS)
    elif r < 0.7 and opens:
        i = rng.choice(opens)
        depth = 0
        for j in range(i, len(ts)):
            if ts[j]['t'] == 'p' and ts[j]['s'] == '(':
                depth += 1
            elif ts[j]['t'] == 'p' and ts[j]['s'] == ')':
                depth -= 1
                if depth == 0:
                    del ts[j]
                    del ts[i]
                    break
    elif r < 0.85 and atoms:
        i = rng.choice(atoms)
        ts[i:i + 1] = [B.tok('p', '('), ts[i], B.tok('p', ')')]
    elif atoms:
        i = rng.choice(atoms)
        ts.insert(i, rng.choice([B.tok('p', '-'), B.tok('kw', 'NOT'), B.tok('p', '+'), B.tok('p', '-')]))
    return ts


def mutate(tokens, rng, vocab):
    if rng.random() < 0.5:
        ts = gentle(tokens, rng)
        if rng.random() < 0.3:
            ts = gentle(ts, rng)
        return ts
    ts = list(tokens)
    for _ in range(rng.choice([1, 1, 1, 2, 2, 3])):
        if not ts:
            ts.append(rng.choice(vocab))
            continue
        r = rng.random()
        i = rng.randrange(len(ts))
        if r < 0.3:
            del ts[i]
        elif r < 0.5 and len(ts) > 1:
            j = min(len(ts) - 1, i + 1)
            ts[i], ts[j] = ts[j], ts[i]
        elif r < 0.65:
            ts.insert(i, ts[i])
        elif r < 0.8:
            ts[i] = rng.choice(vocab)
        elif r < 0.92:
            ts.insert(i, rng.choice(vocab))
        else:
            ts = ts[:i]
    return ts


def arbitrary_text(rng):
    r = rng.random()
    if r < 0.08:
        return rng.choice(['', ' ', '\n', '\t \n', ';', '; only a comment', '/* c */', '/* unterminated', ' /**/ ;x\n'])
    if r < 0.45:
        alphabet = ['SELECT', 'select', 'FROM', 'WHERE', 'a', 'b', '1', '2.5', '.5', "'s'", '"t"', '(', ')', ',', '*', '+', '-',
                    '/', '%', '<', '<=', '=', '!=', '~', 'AND', 'OR', 'NOT', 'IN', 'IS', 'NULL', 'BETWEEN', 'GROUP', 'BY',
                    'ORDER', 'DESC', 'ASC', 'LIMIT', 'PIVOT', 'HAVING', 'AS', 'DISTINCT', 'OPEN', 'ON', 'CLOSE', 'CLEAR', 'AT',
                    'BALANCES', 'JOURNAL', 'PRINT', '2020-01-02', '#t', '#', '%s', '%(x)s', '.', '[', ']', ';', '/*', '*/',
                    'TRUE', 'false', 'é', '☃', ' ', '١٢', '\n', '\t', '!', '<>', '1e5', '0x1F', '--', '||', '"', "'"]
        return ''.join(rng.choice(alphabet) + rng.choice(['', ' ', ' ', ' ']) for _ in range(rng.randint(1, 14)))
    if r < 0.75:
        n = rng.randint(1, 40)
        return ''.join(chr(rng.choice([rng.randint(32, 126), rng.randint(32, 126), rng.randint(0x80, 0x2fff),
                                       rng.randint(0x1f300, 0x1f6ff), rng.choice([9, 10, 13, 0x2028, 0xa0, 0])]))
                       for _ in range(n))
    base = rng.choice(["SELECT a, b FROM t WHERE x > 1", "SELECT sum(x) GROUP BY 1 ORDER BY 2 DESC LIMIT 3",
                       "BALANCES AT cost FROM year = 2020", "JOURNAL 'Assets' AT units", "PRINT FROM CLOSE ON 2020-01-01",
                       "SELECT a IN (1, 2) AND NOT b IS NULL", "SELECT 'x', \"y\", 1.5, 2020-01-02, NULL, TRUE"])
    s = list(base)
    for _ in range(rng.randint(1, 3)):
        i = rng.randrange(len(s) + 1)
        op = rng.random()
        if op < 0.4 and s:
            del s[min(i, len(s) - 1)]
        elif op < 0.8:
            s.insert(i, rng.choice(list(' ()\'",;*/%.#-+<=>!~[]sS0aé')))
        elif s:
            j = min(i, len(s) - 1)
            s[j] = s[j].swapcase()
    return ''.join(s)


def c2s(ctx, parsers, cases, n_mut, n_arb):
    rng = random.Random(ctx.seed + 1)
    vocab = vocabulary()
    pool = [c for c in cases if c['ok'] and c['fam'] in ('spine', 'stmt', 'lit', 'corner') and len(c['tokens']) <= 40]
    kwp = [c for c in cases if c['fam'] == 'kwprefix']
    evs = []          # (tokens|None, text, fam)
    for i in range(n_mut):
        c = pool[rng.randrange(len(pool))]
        ts = mutate(c['tokens'], rng, vocab)
        evs.append((ts, B.layout(ts, rng), 'mutated'))
    for c in pool[::max(1, len(pool) // max(1, n_mut // 10))]:
        evs.append((c['tokens'], B.layout(c['tokens'], rng), 'unmutated'))
    for c in kwp[::3]:
        evs.append((c['tokens'], B.layout(c['tokens'], rng, glue=0.0), 'kwprefix'))
    for i in range(n_arb):
        evs.append((None, arbitrary_text(rng), 'arbitrary'))
    items = [(i, e[1], None, True, True) for i, e in enumerate(evs)]
    t0 = time.time()
    res = parsers.run(items)
    wall = time.time() - t0
    # one ndjson event per text, split over several files judged by concurrent TLC runs
    nfiles = ctx.pick(4, 12)
    files = [ctx.path('parse_trace_%d.ndjson' % k) for k in range(nfiles)]
    handles = [open(p, 'w') for p in files]
    counts = [0] * nfiles
    lines = [[] for _ in range(nfiles)]
    accepted = 0
    for i, (ts, text, fam) in enumerate(evs):
        s, d, v = res[i]
        if 'odd' in s or 'odd' in d:
            judge(ctx, parsers, 'C2S', fam, ts, text, None, s, d, 'odd' if s == d else 'shipped#derived')
            continue
        accepted += bool(s['ok'])
        ev = {'id': i, 'hastok': ts is not None, 'tokens': ts if ts is not None else [],
              's': {'ok': s['ok'], 'sig': sig(s), 'ast': s['ast'] if (s['ok'] and ts is not None) else {'k': 'none'}},
              'd': {'ok': d['ok'], 'sig': sig(d)}}
        k = i % nfiles
        handles[k].write(json.dumps(ev) + '\n')
        counts[k] += 1
        lines[k].append(i)
    for h in handles:
        h.close()
    ctx.log('C2S: %d texts (%d from mutated / generated tokens, %d arbitrary; %d accepted) parsed by both parsers in %.1fs' % (
        len(evs), len(evs) - n_arb, n_arb, accepted, wall))
    results = [None] * nfiles
    errors = []

    def validate(k):
        try:
            if counts[k]:
                results[k] = ctx.tlc('Trace_Parser', 'Trace_Parser.cfg', leg='C2S', workers=1, env={'TRACE_FILE': files[k]}, jvm=JVM,
                                     timeout=ctx.pick(600, 3000))
        except Exception as ex:  # noqa
            errors.append(ex)
    threads = [threading.Thread(target=validate, args=(k,)) for k in range(nfiles)]
    for grp in range(0, nfiles, 6):
        for t in threads[grp:grp + 6]:
            t.start()
            time.sleep(0.05)          # distinct TLC metadir names (millisecond time stamps)
        for t in threads[grp:grp + 6]:
            t.join()
    if errors:
        raise errors[0]
    rejected = skipped = judged = 0
    for k, r in enumerate(results):
        if r is None:
            continue
        if r.violated:
            raise core.MachineryError('Trace_Parser violated %s' % r.violated)
        if r.post_failed or r.depth - 1 != counts[k]:
            raise core.MachineryError('trace file %d not consumed: depth %d, events %d (%s)' % (k, r.depth, counts[k], r.errors[:2]))
        summ = [p for p in r.printed if isinstance(p, dict) and p.get('verdict') == 'summary']
        if len(summ) != 1 or summ[0]['lines'] != counts[k]:
            raise core.MachineryError('trace file %d: no summary line' % k)
        skipped += summ[0]['skipped']
        judged += summ[0]['judged']
        for p in r.printed:
            if isinstance(p, dict) and p.get('verdict') == 'rejected':
                rejected += 1
                i = p['id']
                ts, text, fam = evs[i]
                s, d, _ = res[i]
                judge(ctx, parsers, 'C2S', fam, ts, text, p['spec'] if ts is not None else None, s, d, p['clause'])
    ctx.skipped += skipped
    ctx.traces += sum(counts) - rejected - skipped
    ctx.case('c2s', n=len(evs))
    fams = {}
    for e in evs:
        fams[e[2]] = fams.get(e[2], 0) + 1
    ctx.leg('C2S', events=sum(counts), by_origin=fams, accepted_by_shipped=accepted, judged_against_Parse=judged,
            skipped_token_splitting=skipped, rejected_lines=rejected, parse_wall_s=round(wall, 1))
    for k in (0, len(evs) // 2, len(evs) - 1):
        ts, text, fam = evs[k]
        ctx.sample({'leg': 'C2S', 'origin': fam, 'text': text[:160], 'shipped': describe(res[k][0]) if not res[k][0].get('ok') else 'accepted'})
    if judged == 0 or accepted == 0:
        raise core.MachineryError('vacuity: no recorded event was judged against Parse (%d) / accepted (%d)' % (judged, accepted))


# ---------------------------------------------------------------------------------------------------------------------
# sessions: parsing is a function of the text, whatever the process did before (spec/ParserSession.tla)
# ---------------------------------------------------------------------------------------------------------------------
EXEC_HOWS = ('execute', 'cursor', 'many', 'tree')
PARSE_HOWS = ('parse', 'cparse')


def _project(node):
    try:
        return {'ok': True, 'ast': B.stmt_to_spec(node)}
    except B.Odd as ex:
        return {'ok': True, 'odd': str(ex)[:300]}


def run_session(sess):
    """one session in this process: sess = {texts: [str], params: [parameters], calls: [(how, text number, connection)]}.
    Returns ([observation per call], [(call number, present projection of the tree that call handed out)])"""
    import beanquery
    import beanquery.query_env  # noqa: F401
    P = _W['P']
    conns = {}

    def conn(c):
        if c not in conns:
            conns[c] = beanquery.Connection()
        return conns[c]
    obs = []
    held = []
    for k, (how, t, c) in enumerate(sess['calls']):
        text = sess['texts'][t]
        if how in PARSE_HOWS:
            try:
                node = P.parse(text) if how == 'parse' else conn(c).parse(text)
            except P.ParseError as ex:
                obs.append({'ok': False, 'why': 'reject', 'pos': getattr(ex.parseinfo, 'pos', -1)})
            except Exception as ex:  # noqa
                obs.append({'ok': False, 'why': 'exc:' + type(ex).__name__, 'pos': -1})
            else:
                obs.append(_project(node))
                held.append((k, node))
            continue
        params = sess['params'][t]
        msg = ''
        try:
            cn = conn(c)
            if how == 'execute':
                cn.execute(text, params)
            elif how == 'cursor':
                cn.cursor().execute(text, params)
            elif how == 'many':
                cn.cursor().executemany(text, [params, params])
            else:
                cn.execute(cn.parse(text), params)
            cls = 'ok'
        except Exception as ex:  # noqa   (the outcome of an execution is not C06's business: it is history)
            cls = type(ex).__name__
            msg = str(ex)[:60]
        # refused before the compiler looked at the tree: syntax, kind / number of the parameters
        early = cls in ('ParseError', 'TypeError') or (cls == 'ProgrammingError' and (
            'placeholders but' in msg or 'cannot be mixed' in msg or 'parameter missing' in msg))
        obs.append({'exec': cls, 'reached': not early})
    return obs, [(k, _project(node)) for k, node in held]


def _work_sessions(batch):
    return [(sid, run_session(sess)) for sid, sess in batch]


def ph_kind(tokens):
    pos = any(t['t'] == 'p' and t['s'] == '%s' for t in tokens)
    named = any(t['t'] == 'p' and t['s'] == '%(' for t in tokens)
    return 'mixed' if pos and named else 'positional' if pos else 'named' if named else 'none'


def params_for(tokens):
    """as many parameters as the text has placeholders (a sequence when any is positional)"""
    kind = ph_kind(tokens)
    if kind == 'none':
        return None
    if kind == 'named':
        return {tokens[i + 1]['s']: 7 for i, t in enumerate(tokens[:-1]) if t['t'] == 'p' and t['s'] == '%(' and tokens[i + 1]['t'] == 'id'}
    return tuple(41 + i for i, t in enumerate(x for x in tokens if x['t'] == 'p' and x['s'] == '%s'))


_SEEN_TEXTS = set()


def session_texts(tokens_by_t, rng, sid):
    """one text per token sequence, the same from call to call; no two sessions of a run share a text (a replay of
    one session in a fresh process then sees the history the run saw)"""
    texts = {}
    for t, ts in tokens_by_t.items():
        text = B.layout(ts, rng)
        if text in _SEEN_TEXTS or text in texts.values() or rng.random() < 0.3:
            text += ' ; %d.%d' % (sid, t)
        _SEEN_TEXTS.add(text)
        texts[t] = text
    return texts


def same(o, e):
    """observation of a parsing call against [ok, ast] of the specification"""
    if 'odd' in o or o['ok'] != e['ok']:
        return False
    return not e['ok'] or o['ast'] == e['ast']


def gen_sessions(ctx):
    """TLC simulates sessions; one line per session (with every successor of the last but one state: a few per trace
    are kept)"""
    res = ctx.tlc('Gen_ParserSession', 'Gen_ParserSession.cfg', leg='GEN', workers=2, simulate='num=%d' % ctx.pick(20, 250),
                  depth=8, seed=ctx.seed, timeout=ctx.pick(600, 3000), jvm=JVM)
    if res.violated:
        raise core.MachineryError('generator Gen_ParserSession.cfg: %s' % res.violated)
    rng = random.Random(ctx.seed + 7)
    groups = {}
    for p in res.printed:
        if isinstance(p, dict) and 'calls' in p:
            k = json.dumps([(c['op'], c['t'], c['c']) for c in p['calls'][:-1]])
            groups.setdefault(k, []).append(p)
    out = []
    seen = set()
    for k in sorted(groups):
        g = groups[k]
        rng.shuffle(g)
        for p in g[:2]:
            kk = json.dumps([(c['op'], c['t'], c['c']) for c in p['calls']])
            if kk not in seen:
                seen.add(kk)
                out.append(p)
    ctx.log('generator Gen_ParserSession.cfg: %d lines, %d traces, %d sessions kept' % (len(res.printed), len(groups), len(out)))
    res.printed = []
    return out


def history_of(calls, k, reached):
    """the kind of history call k has (naming only: the oracle is the specification)"""
    how, t, c = calls[k]
    if any(calls[j][1] == t and calls[j][0] in EXEC_HOWS and reached[j] for j in range(k)):
        return 'parse-after-execute'
    if any(calls[j][1] == t and calls[j][0] in PARSE_HOWS for j in range(k)):
        return 'parse-again'
    return 'first-parse'


def report_session(ctx, leg, sess, tokens_by_t, k, clause, expected, observed, all_expected):
    how, t, c = sess['calls'][k]
    case = {'kind': 'session', 'session': sess, 'call': k, 'text': sess['texts'][t], 'tokens': tokens_by_t[t],
            'expected_by_call': all_expected}
    return ctx.violation('history:%s:%s' % (clause, ph_kind(tokens_by_t[t])),
                         'parsing a text gives something else than the text requires after this history of calls (%s)' % clause,
                         case, leg, describe(expected), describe(observed) if 'odd' not in observed else observed['odd'])


def sessions_s2c(ctx, parsers, gen):
    rng = random.Random(ctx.seed + 11)
    items = []
    meta = {}
    for sid, p in enumerate(gen):
        toks = {t - 1: p['texts'][t - 1] for t in p['pool']}
        texts = session_texts(toks, random.Random('%d/s2c/%d' % (ctx.seed, sid)), sid)
        calls = [(c['op'] if c['op'] in PARSE_HOWS else rng.choice(EXEC_HOWS), c['t'] - 1, c['c']) for c in p['calls']]
        nt = len(p['texts'])
        sess = {'texts': [texts.get(t, '') for t in range(nt)], 'params': [params_for(toks[t]) if t in toks else None for t in range(nt)],
                'calls': calls}
        expected = [{'ok': c['ok'], 'ast': c['ast']} if c['op'] in PARSE_HOWS else None for c in p['calls']]
        items.append((sid, sess))
        meta[sid] = (sess, toks, expected)
    t0 = time.time()
    res = {}
    for out in parsers.pool.imap_unordered(_work_sessions, [items[i:i + 4] for i in range(0, len(items), 4)]):
        res.update(out)
    wall = time.time() - t0
    ncalls = nparse = nafter = bad = 0
    for sid in sorted(res):
        obs, held = res[sid]
        sess, toks, expected = meta[sid]
        calls = sess['calls']
        reached = [bool(o.get('reached')) for o in obs]
        ncalls += len(calls)
        for k, o in enumerate(obs):
            if expected[k] is None:
                continue
            nparse += 1
            h = history_of(calls, k, reached)
            nafter += h == 'parse-after-execute' and ph_kind(toks[calls[k][1]]) == 'positional'
            if not same(o, expected[k]):
                bad += 1
                report_session(ctx, 'S2C', sess, toks, k, h, expected[k], o, expected)
        for k, o in held:
            nparse += 1
            if not same(o, expected[k]):
                bad += 1
                report_session(ctx, 'S2C', sess, toks, k, 'held-tree-changed', expected[k], o, expected)
        ctx.case('session:' + json.dumps([sess['texts'], calls]), True)
    ctx.traces += nparse
    ctx.evaluations += max(0, nparse - len(res))
    if res:
        sess = meta[0][0]
        ctx.sample({'leg': 'S2C', 'fam': 'session', 'texts': [x[:80] for x in sess['texts'] if x], 'calls': sess['calls']})
    ctx.leg('S2C', sessions=len(res), session_calls=ncalls, session_parse_results_compared=nparse,
            session_parses_after_execution_of_same_positional_text=nafter, session_disagreements=bad, session_wall_s=round(wall, 1))
    ctx.log('S2C sessions: %d sessions, %d calls, %d parse results compared (%d after an execution of the same text with '
            'positional placeholders) in %.1fs; %d disagreements' % (len(res), ncalls, nparse, nafter, wall, bad))
    if nafter == 0:
        raise core.MachineryError('vacuity: no generated session parses a text after executing it')


def sessions_c2s(ctx, parsers, cases, nsess):
    """random sessions over the generated token sequences; returns a function that waits for TLC's verdicts"""
    rng = random.Random(ctx.seed + 13)
    pools = {}
    for c in cases:
        if c['ok'] and len(c['tokens']) <= ctx.pick(24, 40) and c['fam'] in ('spine', 'stmt', 'lit', 'corner', 'matrix'):
            pools.setdefault(ph_kind(c['tokens']), []).append(c)
    rejected = [c for c in cases if not c['ok'] and 2 <= len(c['tokens']) <= 20 and c['fam'] in ('without', 'chain', 'corner')]
    for k in pools:
        pools[k].sort(key=case_key)
    if not pools.get('positional'):
        raise core.MachineryError('vacuity: no generated statement has positional placeholders')
    items = []
    meta = {}
    for sid in range(nsess):
        kinds = ['positional'] + [rng.choice(['positional', 'positional', 'named', 'mixed', 'none', 'none', 'rejected'])
                                  for _ in range(rng.choice([0, 1, 1, 2]))]
        toks = {}
        for t, kind in enumerate(kinds):
            src = rejected if kind == 'rejected' else pools.get(kind) or pools['positional']
            toks[t] = src[rng.randrange(len(src))]['tokens']
        texts = session_texts(toks, random.Random('%d/c2s/%d' % (ctx.seed, sid)), 100000 + sid)
        calls = []
        for _ in range(rng.randint(4, 9)):
            how = rng.choice(PARSE_HOWS + PARSE_HOWS + EXEC_HOWS)
            calls.append((how, rng.randrange(len(kinds)), 0 if how == 'parse' else rng.choice([1, 1, 2, 3])))
        sess = {'texts': [texts[t] for t in range(len(kinds))], 'params': [params_for(toks[t]) for t in range(len(kinds))], 'calls': calls}
        items.append((sid, sess))
        meta[sid] = (sess, toks)
    t0 = time.time()
    res = {}
    for out in parsers.pool.imap_unordered(_work_sessions, [items[i:i + 4] for i in range(0, len(items), 4)]):
        res.update(out)
    wall = time.time() - t0
    path = ctx.path('session_trace.ndjson')
    lines = []          # (sid, call number, observation)
    none = {'k': 'none'}
    npos = 0

    def enc(o):
        if 'odd' in o:
            return {'k': 'odd', 'what': o['odd'][:80]}
        return o['ast'] if o['ok'] else none
    with open(path, 'w') as f:
        for sid in sorted(res):
            obs, held = res[sid]
            sess, toks = meta[sid]
            reached = [bool(o.get('reached')) for o in obs]
            for k, o in enumerate(obs):
                how, t, c = sess['calls'][k]
                if how in PARSE_HOWS:
                    npos += ph_kind(toks[t]) == 'positional' and history_of(sess['calls'], k, reached) == 'parse-after-execute'
                    ev = {'op': how, 'tokens': toks[t], 'ok': o['ok'], 'ast': enc(o)}
                else:
                    ev = {'op': 'execute', 'tokens': [], 'ok': o['reached'], 'ast': none}
                ev.update(id=len(lines), sid=sid, t=t, c=c)
                f.write(json.dumps(ev) + '\n')
                lines.append((sid, k, o))
            for k, o in held:
                how, t, c = sess['calls'][k]
                f.write(json.dumps({'id': len(lines), 'sid': sid, 'op': 'held', 't': t, 'c': c, 'tokens': toks[t], 'ok': o['ok'], 'ast': enc(o)}) + '\n')
                lines.append((sid, k, o))
    ctx.log('C2S sessions: %d sessions, %d lines recorded in %.1fs (%d parses after an execution of the same text with positional '
            'placeholders)' % (len(res), len(lines), wall, npos))
    if npos == 0:
        raise core.MachineryError('vacuity: no recorded session parses a text with positional placeholders after executing it')
    box = {}

    def validate():
        try:
            box['res'] = ctx.tlc('Trace_ParserSession', 'Trace_ParserSession.cfg', leg='C2S', workers=1, env={'TRACE_FILE': path},
                                 jvm=JVM, timeout=ctx.pick(600, 3000))
        except BaseException as ex:  # noqa
            box['error'] = ex
    th = threading.Thread(target=validate)
    th.start()

    def finish():
        th.join()
        if 'error' in box:
            raise box['error']
        r = box['res']
        if r.violated:
            raise core.MachineryError('Trace_ParserSession violated %s' % r.violated)
        if r.post_failed or r.depth - 1 != len(lines):
            raise core.MachineryError('session trace not consumed: depth %d, lines %d (%s)' % (r.depth, len(lines), r.errors[:2]))
        summ = [p for p in r.printed if isinstance(p, dict) and p.get('verdict') == 'summary']
        if len(summ) != 1 or summ[0]['lines'] != len(lines):
            raise core.MachineryError('session trace: no summary line')
        nrej = 0
        for p in r.printed:
            if isinstance(p, dict) and p.get('verdict') == 'rejected':
                nrej += 1
                sid, k, o = lines[p['id']]
                sess, toks = meta[sid]
                report_session(ctx, 'C2S', sess, toks, k, p['clause'], p['spec'], o, None)
        ctx.skipped += summ[0]['skipped']
        ctx.traces += summ[0]['judged']
        for sid in res:
            ctx.case('session:' + json.dumps([meta[sid][0]['texts'], meta[sid][0]['calls']]), True)
        ctx.evaluations += max(0, summ[0]['judged'] - len(res))
        ctx.leg('C2S', sessions=len(res), session_lines=len(lines), session_lines_judged=summ[0]['judged'],
                session_lines_skipped_token_splitting=summ[0]['skipped'], session_lines_judged_after_execution_of_same_text=summ[0]['after_execute'],
                session_parses_after_execution_of_same_positional_text=npos,
                session_rejected_lines=nrej, session_wall_s=round(wall, 1))
        if summ[0]['judged'] == 0 or summ[0]['after_execute'] == 0:
            raise core.MachineryError('vacuity: no session line was judged after an execution of the same text (%r)' % (summ[0],))
    return finish


# ---------------------------------------------------------------------------------------------------------------------
def run(ctx):
    ctx.rule = ('one evaluation = one text parsed by both parsers and compared with the specification; distinct = distinct '
                'token sequences emitted by TLC (spines in every expression slot, clause combinations, literal forms, chains, '
                'corner cases); non-trivial = more than two tokens; plus one evaluation per parse result of a session (a call '
                'sequence over byte-identical texts on several connections of one process), distinct = distinct sessions')
    ctx.assumptions += [
        'expressible trees only: postfix operators on primaries, sub-SELECT operands of . and [] left out, list literals '
        'without NULL elements (the runtime drops NULL elements except the first: observed, not judged)',
        'identifiers exclude the 23 reserved words and, in generated trees, the soft keywords OPEN CLOSE CLEAR ON AT '
        'BETWEEN NULL; ASCII layout; integers below 2^31',
        'token sequences on which the scannerless parser may cut a token in two (Unmodelled in Parser.tla) are skipped and counted',
        'sessions: executions are given as many parameters as the text has placeholders; their outcome is history, not judged; '
        'trees are held and re-examined only when the later calls were given texts (executing a tree object numbers that very '
        'object, as shipped); at most 9 calls per session',
        'TLC 1.8, Json / IOUtils community modules, TatSu 5.7.4, CPython 3.12; harness/bqlast.py (projection and layout)']
    only = ctx.only_legs
    # ---- MC (in a thread of its own: TLC and the parsing processes share the cores)
    mc = {'violated': [], 'error': None}

    def model_check():
        try:
            for cfg in ctx.pick(('MC_Parser.cfg', 'MC_ParserStmt.cfg'), ('MC_ParserT.cfg', 'MC_ParserStmtT.cfg')):
                res = ctx.tlc('MC_Parser', cfg, leg='MC', timeout=ctx.pick(900, 3600), jvm=JVM, workers=ctx.pick(8, 16))
                if res.violated:
                    mc['violated'].append((cfg, res.violated, res.behaviour[:4000]))
            ctx.tlc('MC_Parser', 'MC_Parser_nv_subright.cfg', leg='MC-nonvacuity', expect_violation='RoundTrip', workers=4, jvm=JVM)
            ctx.tlc('MC_Parser', 'MC_Parser_nv_overparen.cfg', leg='MC-nonvacuity', expect_violation='Minimal', workers=4, jvm=JVM)
        except BaseException as ex:  # noqa  (re-raised in the main thread)
            mc['error'] = ex

    def mc_join(th):
        if th is not None:
            th.join()
        if mc['error'] is not None:
            raise mc['error']
        for cfg, violated, beh in mc['violated']:
            ctx.violation('spec:' + ','.join(violated), 'TLC: printing and parsing do not invert each other in the grammar model',
                          {'cfg': cfg, 'behaviour': beh}, 'MC')
    # the session model is small: checked beside the grammar model
    def model_check_sessions():
        try:
            for cfg in ('MC_ParserSession.cfg', 'MC_ParserSession_copy.cfg'):
                res = ctx.tlc('MC_ParserSession', cfg, leg='MC', timeout=ctx.pick(600, 1800), jvm=JVM, workers=4)
                if res.violated:
                    mc['violated'].append((cfg, res.violated, res.behaviour[:4000]))
            ctx.tlc('MC_ParserSession', 'MC_ParserSession_nv_memo.cfg', leg='MC-nonvacuity', expect_violation='HistoryFree', workers=2, jvm=JVM)
            ctx.tlc('MC_ParserSession', 'MC_ParserSession_nv_held.cfg', leg='MC-nonvacuity', expect_violation='HeldUnchanged', workers=2, jvm=JVM)
        except BaseException as ex:  # noqa  (re-raised in the main thread)
            mc['error'] = mc['error'] or ex
    mc_thread = mcs_thread = None
    if not only or 'MC' in only:
        mc_thread = threading.Thread(target=model_check)
        mc_thread.start()
        mcs_thread = threading.Thread(target=model_check_sessions)
        mcs_thread.start()
    if only and not (only & {'S2C', 'C2S'}):
        mcs_thread.join()
        mc_join(mc_thread)
        return
    parsers = Parsers(ctx)
    try:
        ctx.extra['generated_parser_identical_to_shipped'] = parsers.identical
        if not parsers.identical:
            ctx.notes.append('beanquery/parser/parser.py is not byte-identical to the TatSu translation of bql.ebnf')
        gs = {}

        def gen_s():
            try:
                gs['sessions'] = gen_sessions(ctx)
            except BaseException as ex:  # noqa
                gs['error'] = ex
        gs_thread = None
        if not only or 'S2C' in only:
            gs_thread = threading.Thread(target=gen_s)
            gs_thread.start()
        try:
            cases, fams = gen_cases(ctx)
        finally:
            if gs_thread is not None:
                gs_thread.join()
        if 'error' in gs:
            raise gs['error']
        ctx.leg('GEN', families=fams)
        if not only or 'S2C' in only:
            s2c(ctx, parsers, cases, int(os.environ.get('VERIF_C06_TOKENS', ctx.pick(170000, 1200000))))
            sessions_s2c(ctx, parsers, gs['sessions'])
        if mcs_thread is not None:
            mcs_thread.join()
        mc_join(mc_thread)
        mc_thread = mcs_thread = None
        if not only or 'C2S' in only:
            scale = float(os.environ.get('VERIF_C06_C2S_SCALE', 1))       # development only
            finish_sessions = sessions_c2s(ctx, parsers, cases, max(4, int(ctx.pick(80, 900) * scale)))
            try:
                c2s(ctx, parsers, cases, int(ctx.pick(2500, 16000) * scale), int(ctx.pick(1000, 6000) * scale))
            finally:
                finish_sessions()
    finally:
        parsers.close()
        for th in (mc_thread, mcs_thread):
            if th is not None:
                th.join()
    ctx.exhaustive = False


def replay_session(rep):
    """run the recorded session again in this (fresh) process; the parse results it had to give are in the case"""
    case = rep['case']
    _init_worker(core.REPO, derive_source(core.REPO))
    sess = case['session']
    sess['calls'] = [tuple(c) for c in sess['calls']]
    sess['params'] = [tuple(p) if isinstance(p, list) else p for p in sess['params']]
    obs, held = run_session(sess)
    exp = case.get('expected_by_call') or [None] * len(obs)
    k0 = case['call']
    if exp[k0] is None and isinstance(rep.get('expected'), dict) and 'ok' in rep['expected']:
        exp[k0] = {'ok': rep['expected']['ok'], 'ast': rep['expected'].get('ast')}
    bad = False
    for i, t in enumerate(sess['texts']):
        print('text %d  :' % i, repr(t))
    for k, (o, c) in enumerate(zip(obs, sess['calls'])):
        note = ''
        if exp[k] is not None and c[0] in PARSE_HOWS:
            ok = same(o, exp[k])
            bad = bad or not ok
            note = 'as required' if ok else 'DIFFERS from %s' % json.dumps(exp[k])[:400]
        print('call %d  : %-8s text %d conn %d -> %s %s' % (k, c[0], c[1], c[2], json.dumps(o if 'exec' in o or 'odd' in o else describe(o))[:300], note))
    for k, o in held:
        if exp[k] is not None and not same(o, exp[k]):
            bad = True
            print('held    : the tree handed out by call %d is now %s' % (k, json.dumps(o)[:300]))
    print('replay:', 'MISMATCH reproduced' if bad else 'no mismatch')
    return 1 if bad else 0


def replay(ctx, rep):
    case = rep['case']
    if case.get('kind') == 'session':
        return replay_session(rep)
    if 'text' not in case:
        print('replay: case kind not replayable standalone; re-run the check')
        return 2
    src = derive_source(core.REPO)
    _init_worker(core.REPO, src)
    s = outcome('shipped', case['text'])
    d = outcome('derived', case['text'])
    exp = case.get('expected')
    print('text    :', repr(case['text']))
    print('shipped :', json.dumps(describe(s))[:600])
    print('derived :', json.dumps(describe(d))[:600])
    bad = s != d
    if exp is not None:
        print('spec    :', json.dumps(exp)[:600])
        bad = bad or exp['ok'] != s['ok'] or (s['ok'] and exp['ast'] != s.get('ast'))
    print('replay:', 'MISMATCH reproduced' if bad else 'no mismatch')
    return 1 if bad else 0
