"""C01 -- row-level evaluation, WHERE filtering, NULL semantics (spec/BQLValues, BQLExpr, BQLSelect).

MC   loops = truth tables (MC_ExprLoops + a refuted wrong table); strictness / division laws and type soundness on
     every generated expression spine (Gen_Expr); scan = order-preserving filter on the stepped SELECT mechanism
     (MC_Select, query set "plain", non-vacuity: a WHERE that keeps every non-NULL condition must be refuted)
S2C  every expression spine of depth 1 (quick) / 2 (thorough) + simulated deeper ones, with the spec's values on
     the ten base rows, replayed as SELECT targets (40 per statement) and as WHERE conditions; plain SELECTs of
     MC_Select replayed on every table
C2S  random trees of depth <= 6 over random 0..12-row tables, and random plain SELECTs over 0..30-row tables,
     executed on the real code, logged, and judged by TLC (Trace_Expr / Trace_Select)
"""
from harness import exprcheck
from harness import selectcheck
from harness.core import MachineryError


def run(ctx):
    ctx.rule = ('S2C: every well-typed expression spine (parent operator x child x operand position x overload) up to the '
                'stated depth, distinct by operator skeleton, each evaluated on 10 base rows as target and as WHERE; plain '
                'SELECTs x all tables of <= 3 rows; C2S: random trees / queries; non-trivial = at least one operator node')
    ctx.assumptions += ['decimals are compared as exact small rationals (|n|, d <= 30000; otherwise the case is skipped)',
                        'strings over the alphabet " -.0-9:A-Fa-fxyz"; regular expressions limited to plain literals',
                        'modulo follows Python per operand type (pinned, DESIGN.md Appendix B)',
                        'TLC 1.8, Json/IOUtils modules, CPython 3.12, harness/bql.py (projection)']
    # ---- MC: truth tables
    ctx.tlc('MC_ExprLoops', 'MC_ExprLoops.cfg', leg='MC', workers=2)
    ctx.tlc('MC_ExprLoops', 'MC_ExprLoops_wrong.cfg', leg='MC-nonvacuity', workers=2, expect_violation='AndWrong')
    # ---- MC + S2C: expression spines
    rp = exprcheck.ExprReplayer(ctx, 'values')
    sample_text = []

    def feed(m):
        rp.feed(m)
        if 'e' in m and (rp.n_expr + len(rp.pending)) % 53 == 0:
            sample_text.append(m)
    res = ctx.tlc('Gen_Expr', ctx.pick('Gen_Expr1.cfg', 'Gen_Expr2.cfg'), leg='MC+GEN', on_json=feed, timeout=ctx.pick(600, 7200))
    if res.violated:
        ctx.violation('spec:' + ','.join(res.violated), 'TLC: a law fails on the transcription', {'behaviour': res.behaviour[:3000]}, 'MC')
    # deeper spines by simulation (each walk prints all well-typed parents of its last state: ~100 lines per walk)
    w = ctx.pick(4, 16)
    nwalk = ctx.pick(40, 2500)
    res = ctx.tlc('Gen_Expr', ctx.pick('Gen_Expr2sim.cfg', 'Gen_Expr3sim.cfg'), leg='GEN-sim', on_json=feed, workers=w,
            simulate='num=%d' % max(1, nwalk // w), depth=5, seed=ctx.seed, timeout=ctx.pick(600, 3600))
    if res.violated:
        ctx.violation('spec:' + ','.join(res.violated), 'TLC: a law fails on the transcription (simulated spines)', {'behaviour': res.behaviour[:3000]}, 'MC')
    rp.flush()
    for m in sample_text[:ctx.pick(150, 3000)]:
        rp.text_route(m)
    ctx.leg('S2C', expressions=rp.n_expr, cells=rp.n_cells, where_runs=rp.n_where, text_route=rp.n_text,
            skipped_ood=rp.n_skipped, by_top_node=rp.kinds)
    if rp.n_expr < 1000:
        raise MachineryError('too few expressions replayed: %d' % rp.n_expr)
    for need in ('bin:add', 'bin:div', 'bin:mod', 'bin:eq', 'bin:match', 'bin:in', 'between:', 'and:', 'or:', 'un:not',
                 'un:isnull', 'un:neg', 'call:coalesce', 'call:upper'):
        if not rp.kinds.get(need):
            raise MachineryError('vacuity: no expression with top node %s was replayed' % need)
    # ---- MC + S2C: plain SELECT (scan / WHERE)
    selectcheck.run_mc_and_replay(ctx, 'plain', 3, 1, 4, 1, nonvac=('wherenotnull', 'ScanLaw'))
    # ---- C2S
    path = ctx.path('expr_trace.ndjson')
    n = exprcheck.random_cases(ctx, path, ctx.pick(800, 40000), 6, 12)
    exprcheck.validate_expr_trace(ctx, path, n)
    selectcheck.record_and_validate(ctx, 'plain', ctx.pick(600, 8000), 30)
    # membership in the rows of a subquery (none, some NULL, all NULL), as target and as condition; scans over FROM (subquery)
    selectcheck.record_and_validate(ctx, 'nested', ctx.pick(400, 6000), 16)
    ctx.exhaustive = False


def replay(ctx, rep):
    case = rep['case']
    if 'q' in case:
        return selectcheck.replay_case(ctx, rep)
    from harness import bql, selectq, tables as ht
    print('expression:', case.get('text'))
    print('expected  :', str(rep.get('expected'))[:500])
    print('observed  :', str(rep.get('observed'))[:500])
    return 1
