"""C09 -- parameters, constant folding, history independence (spec/BQLSession.tla, spec/BQLMiniSem.tla).

legs: MC   TLC explores all histories of <= 5 calls (parse / execute(object) / execute(text) / executemany) on
           statement objects whose placeholders carry a text position and a mutable name, each call split into
           Number ; Bind ; Run, and checks: every result = Denote(text, params, data) -- a function of those three
           only --, never an error when the parameters match, data unchanged, positional binding by TEXT position.
           On the mechanism as shipped (truthiness classification of the stored names) TLC must find
           Parse; Execute; Execute on two positional placeholders (non-vacuity).  Statements whose parameter is an
           output (its literal kind shows in value and type) with parameters 1 / TRUE / 0 / FALSE, on a connection that
           keeps compiled statements: keyed by (text, parameters as BQL values) the property holds, keyed by the host
           language's equality (True == 1) TLC must find execute(text); execute(text) (non-vacuity).
           Folding law Eval(Fold(e)) = Eval(e) over the expression space (operators; AND / OR / NOT / IS NULL over NULL, TRUE, FALSE, a bool column and
           comparisons that are NULL in some rows); the short-cut "a constant FALSE decides an AND wherever it
           stands" must be rejected (NULL AND FALSE is NULL).
           Scan law: the value a scan gives a row is EvalX(e, that row) whatever the other rows of the table hold (tables
           of <= 2 rows, a column holding TRUE in one row and 1 in another); a per-row memo keyed by the host language's
           equality must be rejected.
      S2C  every history TLC emits (plus simulated deeper ones) is replayed on ONE connection with re-used parsed
           statement objects, interleaved with other statements, through execute and executemany; each result is
           compared with the specification and with a fresh single execution of the literal-substituted text; the
           source tables and the ledger entries are deep-compared before and after.  Folding: every constant
           expression TLC emits is run as SELECT e FROM # and as SELECT e[consts->columns] FROM #k (one row holding
           the constants) and compared with the specification's value; a wider set (decimals, dates, functions,
           row- and context-dependent functions) is compared folded vs per-row.  Scans: the emitted constant expressions
           of one shape become the ROWS of one table (a column holds another constant in every row) and ONE scan evaluates
           the expression for all of them -- row i must have the specification's value of case i --; the wider set
           likewise, with rows holding constants that are different BQL values although the host language calls them
           equal (1.5 / 1.50, 2.0 / 2.00, 0.0 / 0.00, in an untyped column 1 / TRUE / 1.0 / '1'), repeated and plainly
           different ones, scanned forwards and backwards: every row vs the expression folded over that row's constants
           (literals and parameters), compared as rendered (the digits of a decimal included).
      C2S  random histories of <= 40 calls (modelled statements and ledger statements outside the model, on two
           connections over the same data) are recorded and replayed by TLC through BQLSession's steps
           (Trace_BQLSession).  Every ledger statement is first (and last) executed on a connection of its own, once
           with its parameter values written as literals, and once more in each of two NEW processes (nothing else
           executed there; one takes the statements last to first, the other first to last, so that two statements
           sharing anything process-wide meet it in either order): TLC holds every other result against those.  The
           statements outside the model include a family that hands the SAME string constants -- as parameters and as
           literals -- to operators and functions that read them differently (a regular expression searched ignoring
           case: ~, !~, has_account; searched exactly: grep, grepn, subst, findfirst; a plain string), over data where
           letter case decides what is found.  The
           statements outside the model include aggregates and functions over a table whose rows hold STORED
           inventories (#h: mutable objects; the data are compared by value after every call) and statements that
           expose the literal kind of a parameter, with parameter values the host language calls equal although they
           are different BQL values (1 / TRUE / 1.0 / 1.00, 0 / FALSE / 0.0, 2.5 / 2.50); a closing sweep executes
           every statement text with each of its parameter sets in turn on one connection; finally #h is REPLACED by a
           table holding other data on the long-lived connections and its statements are executed again (a result is
           a function of the data as they are now).  Every row of the scans over columns of constants is recorded as a
           `fold` line (folded / that row of the scan / parameters) and judged by TLC.
"""
import copy
import datetime
import decimal
import hashlib
import json

from harness import bqlmini as bm
from harness.core import MachineryError
from harness.props import c08 as c08mod

D = decimal.Decimal
KEY_REEXEC = 'reexecute:positional>=2:cannot-be-mixed'


# ---- statements ------------------------------------------------------------------------------------------
def swap_and(q):
    """the abstract statement with the operands of its top-level AND exchanged (its own inverse)"""
    q2 = dict(q)
    w = q['wh']
    assert w['k'] == 'and'
    q2['wh'] = dict(w, l=w['r'], r=w['l'])
    return q2


def placeholders(q):
    """[(pos, name)] of an abstract statement, sorted by text position"""
    out = []

    def fe(e):
        k = e.get('k')
        if k == 'ph':
            out.append((e['pos'], e['nm']))
        elif k in ('bin', 'and'):
            fe(e['l']), fe(e['r'])
        elif k == 'in':
            fe(e['l']), fq(e['q'])
        elif k == 'agg':
            fe(e['e'])

    def fq(s):
        for t in s['tg']:
            fe(t['e'])
        if s['from']['k'] == 'sub':
            fq(s['from']['q'])
        fe(s['wh'])
        for o in s['ord']:
            fe(o['e'])
    fq(q)
    return sorted(out)


def matches(q, p):
    phs = placeholders(q)
    if not phs:
        return True
    if all(n == '' for _, n in phs):
        return p['kind'] == 'seq' and len(p['seq']) == len(phs)
    if all(n != '' for _, n in phs):
        return p['kind'] == 'map' and all(n in dict(p['map']) for _, n in phs)
    return False


def py_params(p, st):
    if p['kind'] == 'seq':
        return tuple(bm.to_py(v, st) for v in p['seq'])
    return {k: bm.to_py(v, st) for k, v in p['map']}


def literal_text(text_q, p, st):
    """the statement with the parameter values written as literals: k-th `%s` of the text <- k-th parameter,
    `%(name)s` <- the value of that name"""
    phs = placeholders(text_q)
    order = {pos: k for k, (pos, _) in enumerate(phs)}

    def fe(e):
        k = e.get('k')
        if k == 'ph':
            v = p['seq'][order[e['pos']]] if e['nm'] == '' else dict(p['map'])[e['nm']]
            return {'k': 'c', 'v': v}
        if k in ('bin', 'and'):
            return dict(e, l=fe(e['l']), r=fe(e['r']))
        if k == 'in':
            return dict(e, l=fe(e['l']), q=fq(e['q']))
        if k == 'agg':
            return dict(e, e=fe(e['e']))
        return e

    def fq(s):
        s2 = dict(s)
        s2['tg'] = [dict(t, e=fe(t['e'])) for t in s['tg']]
        if s['from']['k'] == 'sub':
            s2['from'] = {'k': 'sub', 'q': fq(s['from']['q'])}
        s2['wh'] = fe(s['wh'])
        s2['ord'] = [dict(o, e=fe(o['e'])) for o in s['ord']]
        return s2
    return bm.render_select(fq(text_q), st)


# ---- the folding cases' expressions: BQLMiniSem's kinds + or / not / isnull (BQLSession.EvalX) ---------------
CONNECTIVES = {'and': ' AND ', 'or': ' OR '}


def render_x(e, st, top=True):
    """BQL text of a folding expression.  A left-nested chain of one connective is written without parentheses
    (`a AND b AND c`: the parser builds ONE n-ary node for it), everything else below an operator in parentheses."""
    k = e['k']
    if k in CONNECTIVES:
        left = render_x(e['l'], st, e['l']['k'] == k)
        s = left + CONNECTIVES[k] + render_x(e['r'], st, False)
    elif k == 'not':
        s = 'NOT ' + render_x(e['e'], st, False)
    elif k == 'isnull':
        s = render_x(e['e'], st, False) + ' IS NULL'
    else:
        return bm.render_expr(e, st, top)
    return s if top else '(%s)' % s


def build_x(e, st):
    """the same expression as a hand-built AST (what the parser returns for render_x's text, without source positions)"""
    from beanquery.parser import ast
    k = e['k']
    if k in CONNECTIVES:
        args, node = [], e
        while node['k'] == k:                   # the unparenthesised left chain: one n-ary node
            args.append(build_x(node['r'], st))
            node = node['l']
        args.append(build_x(node, st))
        return (ast.And if k == 'and' else ast.Or)(args[::-1])
    if k == 'not':
        return ast.Not(build_x(e['e'], st))
    if k == 'isnull':
        return ast.IsNull(build_x(e['e'], st))
    return bm.build_expr(e, st)


def map_consts(e, f):
    """the expression with every constant replaced by f(value), visited in text order"""
    k = e['k']
    if k == 'c':
        return f(e['v'])
    if k in ('bin', 'and', 'or'):
        left = map_consts(e['l'], f)
        return dict(e, l=left, r=map_consts(e['r'], f))
    if k in ('not', 'isnull'):
        return dict(e, e=map_consts(e['e'], f))
    return e


class Stmt:
    """a statement of the specification: its text, a parsed template, fresh statement objects on demand"""

    def __init__(self, spec, st):
        from beanquery import parser
        self.q = spec['q']
        self.swapped = bool(spec.get('swapped'))
        self.text_q = swap_and(self.q) if self.swapped else self.q      # the tree in TEXT order
        self.text = bm.render_select(self.text_q, st)
        self.template = parser.parse(self.text)
        self.nph = len(placeholders(self.q))

    def fresh(self):
        """a new statement object equal to what parsing the text returns (0.5 ms instead of 10-50 ms).  For the
        `swapped` statement the operands of AND are exchanged in place (a semantics-preserving rewrite of the
        tree that keeps every node's source position): walking the tree no longer meets the placeholders in text order."""
        obj = copy.deepcopy(self.template)
        if self.swapped:
            obj.where_clause.args.reverse()
        return obj


class FastParse:
    """While active, beanquery.parser.parse returns a fresh copy of the statement the real parser produced for the
    same text earlier (TatSu costs 10-50 ms per call).  Every `real_every`-th call goes to the real parser."""

    def __init__(self, real_every):
        self.cache = {}
        self.n = 0
        self.real = 0
        self.real_every = real_every

    def __enter__(self):
        from beanquery import parser
        self.parser = parser
        self.orig = parser.parse

        def parse(text):
            self.n += 1
            if text not in self.cache or self.n % self.real_every == 0:
                self.real += 1
                tree = self.orig(text)
                if text not in self.cache:
                    self.cache[text] = copy.deepcopy(tree)      # kept pristine: the caller's object gets executed
                return tree
            return copy.deepcopy(self.cache[text])
        parser.parse = parse
        return self

    def __exit__(self, *a):
        self.parser.parse = self.orig


# ---- the session under test ---------------------------------------------------------------------------------
LEDGER_STMTS = [
    ("SELECT date, account, balance FROM #postings WHERE account = %s", [('Assets:US:BofA:Checking',), ('Expenses:Food:Restaurant',), ('Nope',)]),
    ("SELECT account, sum(number) AS total FROM #postings WHERE year = %(y)s AND month <= %(m)s GROUP BY account ORDER BY account",
     [{'y': 2022, 'm': 1}, {'m': 2, 'y': 2022}, {'y': 1999, 'm': 12, 'z': 0}]),
    ("SELECT date, narration, number - %s AS d FROM #postings WHERE number > %s AND account ~ %s ORDER BY date, lineno",
     [(D('1.5'), D('100'), 'Expenses'), (D('100'), D('1.5'), 'Assets'), (0, 0, 'Income')]),
    ("SELECT count(*) AS n FROM #postings WHERE account IN (SELECT account FROM #postings WHERE number > %s) AND number < %s",
     [(D('1000'), D('0')), (D('0'), D('1000')), (D('5000'), D('5000'))]),
    ("SELECT account, balance, number FROM #postings WHERE number > %(lo)s AND number < %(hi)s LIMIT 25",
     [{'lo': D('10'), 'hi': D('50')}, {'lo': D('50'), 'hi': D('10')}, {'hi': D('400'), 'lo': D('-400')}]),
]


# ---- stored mutable values: the table #h ----------------------------------------------------------------------
HOLDINGS = [   # (grp, name, inventory or None, n): groups of several non-NULL inventories, of one row, with a leading
               # NULL, with an empty inventory in the middle (the running sum passes through `empty` again)
    ('a', 'cash', '10.00 USD', 3), ('a', 'broker', '5 HOOL {100.00 USD}, 2.00 USD', 1), ('a', 'wallet', '1.50 USD, 3.00 EUR', 2),
    ('b', 'single', '7.00 CAD', 5),
    ('c', 'null', None, 0), ('c', 'after', '4.00 USD', 4), ('c', 'empty', '', 2), ('c', 'last', '6.00 USD, 2 HOOL {90.00 USD}', 7),
    ('d', 'minus', '-3.00 USD', 6), ('d', 'plus', '3.00 USD', 1), ('d', 'more', '1 HOOL {95.00 USD}', 9),
]


def holdings_rows(epoch=0):
    """NEW row objects of #h: (grp, name, inv, pos, amt, n) -- `inv` is an Inventory STORED in the row (a mutable object the
    table hands out as it is, unlike the ledger's `balance` column which hands out copies), `pos` / `amt` its first
    position and that position's units.  epoch 1: OTHER data under the same table name (rows in another order, one
    missing, other numbers)"""
    from beancount.core import inventory
    out = []
    src = HOLDINGS if not epoch else [(g, name, text, n + 2) for g, name, text, n in reversed(HOLDINGS) if name != 'broker']
    for grp, name, text, n in src:
        inv = None if text is None else inventory.from_string(text)
        pos = None if inv is None or inv.is_empty() else sorted(inv)[0]
        out.append((grp, name, inv, pos, pos.units if pos else None, n))
    return out


def holdings_table(rows):
    from beancount.core import amount, inventory, position
    from harness import tables as ht
    t = ht.HarnessTable('h', [('grp', 'str'), ('name', 'str'), ('inv', inventory.Inventory), ('pos', position.Position),
                              ('amt', amount.Amount), ('n', 'int')], [])
    t.rows = rows       # the caller's list and row objects, not a copy
    return t


def frozen(rows):
    """what the rows hold, by value"""
    return [tuple(repr(v) for v in row) for row in rows]


# values of every literal kind, among them values the host language compares (and hashes) as equal although they are
# different BQL values: 1 / TRUE / 1.0 / 1.00, 0 / FALSE / 0.0, 2.5 / 2.50
KIND_VALUES = [1, True, D('1.0'), D('1.00'), 0, False, D('0.0'), D('2.5'), D('2.50'), '1', datetime.date(2020, 1, 1), None]
HOLDINGS_STMTS = [
    ("SELECT grp, sum(inv) AS total FROM #h GROUP BY grp ORDER BY grp", [()]),
    ("SELECT sum(inv) AS total, count(inv) AS k FROM #h WHERE grp != %s", [('b',), ('a',), ('zz',)]),
    ("SELECT grp, units(sum(inv)) AS u, first(inv) AS f, last(inv) AS l FROM #h WHERE name != %(skip)s GROUP BY grp ORDER BY grp",
     [{'skip': 'cash'}, {'skip': 'null'}, {'skip': ''}]),
    ("SELECT name, inv FROM #h ORDER BY name", [()]),
    ("SELECT grp, sum(inv) AS total FROM (SELECT grp, inv FROM #h WHERE n > %s) GROUP BY grp ORDER BY grp", [(0,), (2,), (8,)]),
    ("SELECT grp, sum(pos) AS p, sum(amt) AS u, sum(n) AS k FROM #h GROUP BY grp ORDER BY grp", [()]),
    ("SELECT name, cost(inv) AS c, filter_currency(inv, %s) AS f FROM #h ORDER BY name", [('USD',), ('EUR',)]),
    ("SELECT name, pos, amt, units(inv) AS u FROM #h WHERE n >= %(lo)s ORDER BY name", [{'lo': 2}, {'lo': 0, 'hi': 9}]),
    # the parameter as an output, under type-sensitive functions, inside a FROM-subquery, in an operator, repeated
    ("SELECT str(%s) AS s, %s AS v FROM #", [(v, v) for v in KIND_VALUES]),
    ("SELECT %(v)s AS v, repr(%(v)s) AS r, name FROM #h WHERE n >= %(lo)s ORDER BY name LIMIT 2", [{'v': v, 'lo': 3} for v in KIND_VALUES]),
    ("SELECT count(*) AS k, first(v) AS f FROM (SELECT %s AS v, name FROM #h WHERE n > 2)", [(v,) for v in KIND_VALUES]),
    ("SELECT name, n * %s AS d, %s AS e FROM #h WHERE n < %s ORDER BY name",
     [(v, v, v) for v in (D('2.5'), D('2.50'), 2, D('2.0'), D('2.00'))]),
]


# ---- constants shared between statements ------------------------------------------------------------------
# The same string constant handed, by DIFFERENT statements (and by one statement twice), to operators and functions
# that read it differently: as a regular expression searched ignoring case (~, !~, has_account), as a regular
# expression searched / matched exactly (grep, grepn, subst, findfirst), as a plain string (=, length, upper) -- as a
# parameter and (through the literal twins and the statements below that spell it out) as a literal.  The ledger's
# account names are capitalised: for every constant here letter case decides what is found.  A result is a function of
# the statement, its parameters and the data: which statement met a constant first -- on the connection or in the
# process -- must not show.  The list starts with users of one reading and ends with users of the other: the two
# reference processes (pristine_refs, which run it backwards and forwards) meet every constant through different readings
# first.
SHARED_CONSTS = ['bofa', 'expenses:food', '(check)ing', 'us:.*cash']
_ONE = [(c,) for c in SHARED_CONSTS]
SHARED_STMTS = [
    ("SELECT account, count(*) AS n FROM #postings WHERE account ~ %s GROUP BY account ORDER BY account", _ONE),
    ("SELECT date, lineno, has_account(%(p)s) AS h FROM #postings ORDER BY date, lineno, account, number", [{'p': c} for c in SHARED_CONSTS]),
    ("SELECT DISTINCT account, account = %s AS e, length(%s) AS n, upper(%s) AS u FROM #postings ORDER BY account",
     [(c, c, c) for c in SHARED_CONSTS[:2]]),
    ("SELECT DISTINCT lower(account) AS a, grep(%s, lower(account)) AS g FROM #postings WHERE lower(account) ~ %s ORDER BY a",
     [('Assets', 'Assets'), ('ASSETS:us', 'bofa'), ('bofa', 'ASSETS:us'), ('Income', 'Income')]),
    ("SELECT DISTINCT account, grep('bofa', account) AS g, subst('expenses:food', 'X', account) AS u FROM #postings "
     "WHERE account ~ 'expenses:food' OR account ~ 'bofa' OR has_account('(check)ing') ORDER BY account", [()]),
    ("SELECT DISTINCT account FROM #postings WHERE account !~ %s ORDER BY account", _ONE),
    ("SELECT date, lineno, findfirst(%s, other_accounts) AS f FROM #postings ORDER BY date, lineno, account, number", _ONE),
    ("SELECT DISTINCT account, grepn(%(p)s, account, 0) AS g, subst(%(p)s, '_', account) AS u FROM #postings ORDER BY account",
     [{'p': c} for c in SHARED_CONSTS]),
    ("SELECT DISTINCT account, grep(%s, account) AS g FROM #postings ORDER BY account", _ONE),
]


def literal_twin(text, params):
    """the statement with its parameter values written as literals (k-th `%s` <- k-th value, `%(name)s` <- the value of
    that name), or None when some value has no literal that denotes exactly it (a Decimal without fractional digits)"""
    import re

    def lit(v):
        if isinstance(v, D) and v.as_tuple().exponent >= 0:
            raise ValueError(v)
        return literal(v)
    try:
        if isinstance(params, dict):
            out = re.sub(r'%\((\w+)\)s', lambda m: lit(params[m.group(1)]), text)
        else:
            it = iter(params)
            out = re.sub(r'%s', lambda m: lit(next(it)), text)
    except (ValueError, KeyError, StopIteration):
        return None
    return out if out != text else None


def ledger_statements(entries):
    """LEDGER_STMTS + statements whose FROM clause carries the qualifiers OPEN ON / CLOSE [ON] / CLEAR (alone, together,
    after a filter expression, under BALANCES / JOURNAL), scans of the other ledger table and plain scans of the default
    one -- dates taken from the ledger: a third and two thirds into its transactions -- + HOLDINGS_STMTS (aggregates and
    functions over the stored inventories of #h; parameters of every literal kind)"""
    from beancount.core import data
    dates = [e.date for e in entries if isinstance(e, data.Transaction)] or [datetime.date(2022, 1, 10), datetime.date(2022, 1, 23)]
    d1, d2 = dates[len(dates) // 3], dates[2 * len(dates) // 3]
    none = [()]
    return LEDGER_STMTS + [
        ("SELECT date, account, number ORDER BY date, account, number", none),
        ("SELECT account, sum(number) AS total FROM OPEN ON %s GROUP BY account ORDER BY account" % d1, none),
        ("SELECT date, narration, account, number FROM CLOSE ON %s WHERE number > %%s ORDER BY date, account, number" % d2,
         [(D('0'),), (D('100'),), (D('-100000'),)]),
        ("SELECT account, sum(number) AS total FROM OPEN ON %s CLOSE ON %s CLEAR WHERE number > %%(lo)s GROUP BY account ORDER BY account"
         % (d1, d2), [{'lo': D('0')}, {'lo': D('-100000')}, {'lo': D('50'), 'hi': 0}]),
        ("SELECT count(*) AS n, sum(number) AS s FROM CLEAR", none),
        ("SELECT date, flag, account, number FROM year = %d CLOSE" % d2.year, none),
        ("SELECT account, count(*) AS n FROM account ~ %%s OPEN ON %s GROUP BY account ORDER BY account" % d1, [('Assets',), ('Expenses',)]),
        ("SELECT date, type FROM #entries ORDER BY date, type", none),
        ("SELECT date, type FROM #entries WHERE date < %%(d)s" % (), [{'d': d1}, {'d': d2}]),
        ("BALANCES FROM CLOSE ON %s" % d2, none),
        ("JOURNAL 'Assets:US:BofA:Checking' FROM OPEN ON %s" % d1, none),
    ] + HOLDINGS_STMTS + SHARED_STMTS


def pristine_refs(seed, ntxn, backwards=True, only=None):
    """every ledger statement x parameters on a connection of its own -- run in a NEW process (start_pristine): nothing
    else has been executed there.  backwards: last statement first (the qualified ones before the plain ones), otherwise
    in the order of the list: two statements that share anything process-wide meet it in either order"""
    import beanquery
    entries, errors, options = c08mod.example_ledger(seed, ntxn)
    stmts = ledger_statements(entries)
    out = []
    order = (lambda n: reversed(range(n))) if backwards else range
    for k in order(len(stmts)):
        text, plist = stmts[k]
        for i in order(len(plist)):
            if only is not None and [k, i] != list(only):
                continue
            conn = beanquery.connect('beancount:', entries=entries, errors=errors, options=options)
            conn.tables['h'] = holdings_table(holdings_rows())
            cur = conn.cursor()
            try:
                cur.execute(text, plist[i])
                res = {'ok': True, 'hash': digest(cur.description, cur.fetchall())}
            except Exception as ex:  # noqa
                res = {'ok': False, 'hash': 'EXC', 'exc': type(ex).__name__, 'msg': str(ex)[:120]}
            out.append([k, i, res])
    return out


def start_pristine(ctx, ntxn, backwards=True, only=None):
    import subprocess
    import sys
    from harness import core
    code = ('import json; from harness import core; core.bootstrap_repo(); from harness.props import c09; '
            'print(json.dumps(c09.pristine_refs(%d, %d, %r, %r)))' % (ctx.seed, ntxn, backwards, only))
    return subprocess.Popen([sys.executable, '-c', code], cwd=core.VERIF, stdout=subprocess.PIPE, stderr=subprocess.PIPE, text=True)


def collect_pristine(proc):
    try:
        out, err = proc.communicate(timeout=300)
    except Exception:  # noqa
        proc.kill()
        raise MachineryError('the reference process for the ledger statements did not finish')
    if proc.returncode != 0:
        raise MachineryError('the reference process for the ledger statements failed: %s' % err[-400:])
    return json.loads(out.strip().split('\n')[-1])


# statements whose results must not depend on what ran before on the connection (or in the process): each pair is
# (statement, an equivalent formulation); SELECT * FROM (q) = q is the law C08 model-checks (StarIdentity)
PROBES = [
    ("SELECT * FROM (SELECT x AS a FROM #t)", "SELECT x AS a FROM #t"),
    ("SELECT * FROM (SELECT s AS b, x FROM #t)", "SELECT s AS b, x FROM #t"),
    ("SELECT * FROM (SELECT x, x + 1 AS c, s FROM #t WHERE x > 0)", "SELECT x, x + 1 AS c, s FROM #t WHERE x > 0"),
    ("SELECT * FROM (SELECT y FROM #u)", "SELECT y FROM #u"),
    ("SELECT a FROM (SELECT y AS a FROM #u)", "SELECT y AS a FROM #u"),
]
PROBE_REJECTED = ["SELECT c FROM (SELECT x AS a FROM #t)", "SELECT b FROM (SELECT y AS a FROM #u)", "SELECT a + 1 FROM (SELECT s AS b FROM #t)"]

OTHER_STMTS = [
    "SELECT x FROM #t ORDER BY x DESC",
    "SELECT s, count(*) AS n FROM #t GROUP BY s",
    "SELECT account, balance FROM #postings LIMIT 7",
    "SELECT y IN (SELECT x FROM #t) AS m FROM #u",
    "SELECT count(*) AS n FROM #entries",
]


def digest(desc, rows):
    h = hashlib.blake2b(digest_size=8)
    h.update(repr([(c.name, bm.typename(c.datatype)) for c in desc]).encode())
    for r in rows:
        h.update(repr(r).encode())
    return h.hexdigest()


class Session:
    """ONE connection (ledger + harness tables) on which every history is replayed"""

    def __init__(self, ctx, setup, ledger=True):
        import beanquery
        self.ctx = ctx
        self.st = bm.StrTab()
        self.setup = setup
        self.tabs = setup['tabs']
        self.epoch = 0
        if ledger:
            self.ntxn = ctx.pick(40, 120)
            entries, errors, options = c08mod.example_ledger(ctx.seed, self.ntxn)
            self.entries = entries
            self.entries_snapshot = copy.deepcopy(entries)
            self.ledger = (entries, errors, options)
            self.conn = self.connect()
            self.conn2 = self.connect()      # a second connection over the same data, alive during the whole recording
            # #h on both: two table objects over the SAME rows (as the two connections share the ledger entries)
            self.holdings = holdings_rows()
            self.conn.tables['h'] = holdings_table(self.holdings)
            self.conn2.tables['h'] = holdings_table(self.holdings)
        else:
            self.entries = self.entries_snapshot = []
            self.holdings = []
            self.ledger = None
            self.conn = self.conn2 = beanquery.Connection()
        bm.install_tables(self.conn, self.tabs, self.st)
        self.table_snapshot = {n: list(self.conn.tables[n].rows) for n in self.tabs if n}
        self.holdings_snapshot = frozen(self.holdings)
        self.stmts = [Stmt(s, self.st) for s in setup['stmts']]
        self.params = setup['params']
        self.cursor = self.conn.cursor()
        self.refs = {}
        self.others = [bm.parsed(t) for t in OTHER_STMTS if ledger or 'postings' not in t and 'entries' not in t]
        self.ledger_stmts = [(t, bm.parsed(t), ps) for t, ps in ledger_statements(self.entries)] if ledger else []
        self.cursor2 = self.conn2.cursor()
        self.ledger_refs = {}
        self.leg = 'S2C'
        self.counts = {}
        self.has_tu = 't' in self.conn.tables and 'u' in self.conn.tables and all(
            c in self.conn.tables['t'].columns for c in ('x', 's')) and 'y' in self.conn.tables['u'].columns

    def count(self, k, n=1):
        self.counts[k] = self.counts.get(k, 0) + n

    def connect(self):
        """a NEW connection over the same ledger entries, with a #h of its own (new row objects holding the same values)"""
        import beanquery
        entries, errors, options = self.ledger
        conn = beanquery.connect('beancount:', entries=entries, errors=errors, options=options)
        conn.tables['h'] = holdings_table(holdings_rows(self.epoch))
        return conn

    def new_epoch(self):
        """the data change: the long-lived connections get ANOTHER table #h (new connections are made over equal data)"""
        self.epoch += 1
        self.holdings = holdings_rows(self.epoch)
        self.conn.tables['h'] = holdings_table(self.holdings)
        self.conn2.tables['h'] = holdings_table(self.holdings)
        self.holdings_snapshot = frozen(self.holdings)

    def run_ledger(self, cursor, k, i, op='execute', tree=None):
        """ledger statement k with its i-th parameters -> {'ok', 'hash', ..}"""
        text, parsed, plist = self.ledger_stmts[k]
        try:
            if op == 'execute':
                cursor.execute(tree if tree is not None else parsed, plist[i[0]])
            elif op == 'many':
                cursor.executemany(text, [plist[x] for x in i])
            else:
                cursor.execute(text, plist[i[0]])
            return {'ok': True, 'hash': digest(cursor.description, cursor.fetchall())}
        except Exception as ex:  # noqa
            return {'ok': False, 'hash': 'EXC', 'exc': type(ex).__name__, 'msg': str(ex)[:120]}

    def fresh_ledger(self, k, i):
        """the statement's text executed once on a connection of its own"""
        return self.run_ledger(self.connect().cursor(), k, [i], 'text')

    def literal_ledger(self, k, i):
        """the statement with its i-th parameter values written as literals, executed once on a connection of its own;
        -> (text, result) or None when the values have no exact literal"""
        text, _, plist = self.ledger_stmts[k]
        twin = literal_twin(text, plist[i])
        if twin is None:
            return None
        cursor = self.connect().cursor()
        try:
            cursor.execute(twin)
            return twin, {'ok': True, 'hash': digest(cursor.description, cursor.fetchall())}
        except Exception as ex:  # noqa
            return twin, {'ok': False, 'hash': 'EXC', 'exc': type(ex).__name__, 'msg': str(ex)[:120]}

    def check_ledger(self, rng, case):
        """a ledger statement on the shared connection (whatever ran before) vs on a connection of its own"""
        k = rng.randrange(len(self.ledger_stmts))
        text, tree, plist = self.ledger_stmts[k]
        i = rng.randrange(len(plist))
        if (k, i) not in self.ledger_refs or rng.random() < 0.05:
            ref = self.fresh_ledger(k, i)       # (now and then again: a connection made AFTER the history)
            first = self.ledger_refs.setdefault((k, i), ref)
            if ref != first:
                self.ctx.violation('history:ledger:fresh-connections-differ', 'two fresh connections over the same entries disagree: %s' % text,
                                   dict(case, ledger=text, params=repr(plist[i])), self.leg, first, ref)
        ref = self.ledger_refs[(k, i)]
        obs = self.run_ledger(self.cursor, k, [i], 'execute' if rng.random() < 0.7 else 'text')
        self.count('ledger_checked')
        self.ctx.case('ledger|%d|%d' % (k, i), nontrivial=any(w in text for w in ('OPEN', 'CLOSE', 'CLEAR', '#h')))
        if not self.data_same():
            self.ctx.violation('data-mutated:statement', 'source tables / ledger entries differ after executing: %s' % text,
                               dict(case, ledger=text, params=repr(plist[i])), self.leg)
        if (obs['ok'] != ref['ok'] or obs['hash'] != ref['hash']):
            self.ctx.violation('history:ledger:%s' % ('differs-from-fresh-connection' if obs['ok'] else 'exception:%s' % obs.get('exc')),
                               'a ledger statement after other executions on the connection vs on a fresh connection over the same '
                               'entries: %s' % text, dict(case, ledger=text, params=repr(plist[i])), self.leg, ref, obs)

    def data_same(self):
        """the source data hold what they held (by VALUE: a stored object modified in place counts) -- since the last
        call for #h, so that a modification is reported once, at the call that made it"""
        ok = all(self.conn.tables[n].rows == rows for n, rows in self.table_snapshot.items())
        if self.entries_snapshot:
            t = self.conn.tables['postings']
            ok = ok and t.entries is self.entries and self.entries == self.entries_snapshot
        if self.holdings:
            now = frozen(self.holdings)
            if now != self.holdings_snapshot or any(c.tables['h'].rows is not self.holdings for c in (self.conn, self.conn2)):
                self.holdings_snapshot = now
                ok = False
        return ok

    def reference(self, s, i):
        """a fresh single execution of the literal-substituted text on a fresh connection"""
        key = (s, i)
        if key not in self.refs:
            import beanquery
            st = self.stmts[s]
            conn = beanquery.Connection()
            bm.install_tables(conn, self.tabs, self.st)
            text = literal_text(st.text_q, self.params[s][i], self.st)
            self.refs[key] = (text, bm.project(bm.run_raw(conn, text), self.st))
        return self.refs[key]

    def call(self, objs, op, s, ps):
        """one public call of a history; -> projected observation of the cursor afterwards"""
        st = self.stmts[s]
        params = [py_params(self.params[s][i], self.st) for i in ps]
        cur = self.cursor
        try:
            if op == 'execute':
                cur.execute(objs[s], params[0])
            elif op == 'text':
                # the text (FastParse hands the cursor a fresh statement object or calls the real parser); the rewritten
                # tree of a `swapped` statement exists only as an object: a private, fresh one is submitted
                cur.execute(st.fresh() if st.swapped else st.text, params[0])
            elif op == 'many':
                cur.executemany(st.text, params)
            else:
                raise ValueError(op)
            res = ('ok', cur.description, cur.fetchall())
        except Exception as ex:  # noqa
            res = ('exc', type(ex).__name__, str(ex)[:200])
        return res

    def interleave(self, rng):
        """other statements on the same connection and cursor between the calls of a history"""
        r = rng.random()
        if r < 0.25:
            self.count('interleaved')
            bm.run_raw(self.conn, rng.choice(self.others))
            if r < 0.08:
                self.cursor.execute(rng.choice(self.others))
                self.cursor.fetchone()
        elif r < 0.3 and self.ledger_stmts:
            self.count('interleaved')
            self.check_ledger(rng, {'kind': 'ledger'})


def probe(ctx, sess, rng, case):
    """history independence of statements over FROM-subqueries: after any history, q and SELECT * FROM (q) agree and
    references to names another subquery defined are still rejected"""
    a, b = rng.choice(PROBES)
    ra = bm.run_raw(sess.conn, bm.parsed(a))
    rb = bm.run_raw(sess.conn, bm.parsed(b))
    sess.count('probes')
    if ra[0] != 'ok' or rb[0] != 'ok':
        if ra[0] != rb[0]:
            ctx.violation('history:probe:exception:%s' % (ra[1] if ra[0] != 'ok' else rb[1]),
                          'a statement over a FROM-subquery fails after other executions: %s' % a, dict(case, probe=a), 'S2C', rb[:2], ra[:2])
        return
    da = [(c.name, bm.typename(c.datatype)) for c in ra[1]]
    db = [(c.name, bm.typename(c.datatype)) for c in rb[1]]
    if da != db or ra[2] != rb[2]:
        ctx.violation('history:probe:star-over-subquery', 'SELECT * FROM (q) differs from q after other executions on the connection',
                      dict(case, probe=a), 'S2C', [db, rb[2][:5]], [da, ra[2][:5]])
    t = rng.choice(PROBE_REJECTED)
    rr = bm.run_raw(sess.conn, bm.parsed(t))
    if rr[0] == 'ok' or rr[1] != 'CompilationError':
        ctx.violation('history:probe:stale-name:%s' % (rr[1] if rr[0] != 'ok' else 'accepted'),
                      'a column name defined only by an earlier subquery resolves (or fails oddly): %s' % t, dict(case, probe=t), 'S2C',
                      'CompilationError', rr[:2] if rr[0] != 'ok' else 'accepted')


def is_reexec_defect(obs, st, op, objs_used_before, k_in_many):
    return (not obs['ok'] and obs.get('exc') == 'ProgrammingError' and 'cannot be mixed' in obs.get('msg', '')
            and st.nph >= 2 and all(n == '' for _, n in placeholders(st.q)))


def replay_history(ctx, sess, hist, hid, rng):
    """-> True if every call agreed with the specification, the reference execution and left the data alone"""
    objs = {s: st.fresh() for s, st in enumerate(sess.stmts)}      # parsed once, before the history starts
    executed = set()
    ok = True
    for k, h in enumerate(hist):
        if rng is not None:
            sess.interleave(rng)
        op, s, ps = h['op'], h['s'] - 1, [i - 1 for i in h['ps']]
        if op == 'parse':
            objs[s] = sess.stmts[s].fresh()
            sess.count('parse')
            continue
        st = sess.stmts[s]
        sess.count(op)
        raw = sess.call(objs, op, s, ps)
        obs = bm.project(raw, sess.st)
        case = {'kind': 'history', 'hist': hist, 'step': k, 'setup': sess.setup}
        same = sess.data_same()
        if not same:
            ctx.violation('data-mutated:%s' % op, 'source tables / ledger entries differ after the call', case, 'S2C')
            ok = False
        if not h['match']:
            # parameters that do not fit the placeholders: outside the statement (skipped and counted); the call has
            # nevertheless happened and must not disturb the later ones
            ctx.skipped += 1
            sess.count('mismatching_params')
            if op == 'execute':
                executed.add(s)
            continue
        if not bm.same(obs, h['res']):
            if is_reexec_defect(obs, st, op, s in executed, len(ps)):
                key = KEY_REEXEC
            elif not obs['ok']:
                key = 'history:%s:exception:%s' % (op, obs.get('exc'))
            else:
                key = 'history:%s:%s' % (op, 'desc' if obs['desc'] != h['res']['desc'] else 'rows')
            ctx.violation(key, 'result of call %d (%s on statement %d) vs Denote(text, params, data)' % (k + 1, op, s + 1),
                          case, 'S2C', h['res'], obs)
            ok = False
        else:
            text, ref = sess.reference(s, ps[-1])
            if not bm.same(ref, obs):
                ctx.violation('history:%s:differs-from-literal-text' % op,
                              'call result vs fresh execution of the literal-substituted text', dict(case, literal=text),
                              'S2C', ref, obs)
                ok = False
        if op == 'execute':
            executed.add(s)
    if rng is not None and sess.has_tu and rng.random() < 0.5:
        probe(ctx, sess, rng, {'kind': 'history', 'hist': hist, 'setup': sess.setup})
    return ok


# ---- folding ----------------------------------------------------------------------------------------------------
SPEC_COLTYPE = {'i': 'int', 's': 'str', 'b': 'bool', 'n': 'bool'}      # a NULL constant: a bool column holding NULL


def consts_to_columns(e, cols):
    """replace every constant by a column of the one-row table #k holding it; cols: [(name, type, python value)]"""
    def column(v):
        tag, n = v
        for name, ty, val in cols:
            if (ty, val) == (tag, n):
                return {'k': 'col', 'n': name}
        name = 'k%d' % len(cols)
        cols.append((name, tag, n))
        return {'k': 'col', 'n': name}
    return map_consts(e, column)


def consts_to_params(e, st, named):
    """replace every constant by a placeholder: `%s` (k-th of the text <- k-th value) or `%(pN)s` (one name per
    distinct value: equal constants repeat the name); -> (expression, parameters)"""
    seq, names = [], {}

    def placeholder(v):
        if named:
            nm = names.setdefault(tuple(v), 'p%d' % len(names))
            return {'k': 'ph', 'pos': 0, 'nm': nm}
        seq.append(bm.to_py(v, st))
        return {'k': 'ph', 'pos': len(seq), 'nm': ''}
    e2 = map_consts(e, placeholder)
    return e2, ({nm: bm.to_py(list(v), st) for v, nm in names.items()} if named else tuple(seq))


def fold_case(ctx, conn, st, case, n):
    from beanquery.parser import ast
    from harness import tables as ht
    e, v = case['e'], case['v']
    text = lambda expr, tab: 'SELECT %s AS r FROM #%s' % (render_x(expr, st), tab)      # noqa
    tree = lambda expr, tab: ast.Select([ast.Target(build_x(expr, st), 'r')], ast.Table(tab), None, None, None, None, None, None)  # noqa
    t1 = text(e, '')
    if n % 10 == 0:
        folded = bm.project(bm.run_raw(conn, bm.parsed(t1)), st)
    else:
        folded = bm.project(bm.run_raw(conn, tree(e, '')), st)
    cols = []
    e2 = consts_to_columns(e, cols)
    conn.tables['k'] = ht.HarnessTable('k', [(c[0], SPEC_COLTYPE[c[1]]) for c in cols],
                                       [tuple(bm.to_py([c[1], c[2]], st) for c in cols)])
    perrow = bm.project(bm.run_raw(conn, tree(e2, 'k')), st)
    legs = [('folded', folded), ('per-row', perrow)]
    if n % 8 == 0:
        # the constants as parameters (a placeholder needs its source position: through the parser)
        e3, params = consts_to_params(e, st, named=n % 16 == 0)
        legs.append(('parameters', bm.project(bm.run_raw(conn, bm.parsed(text(e3, '')), params), st)))
    exp = {'ok': True, 'rows': [[v]]}
    rec = {'kind': 'fold', 'e': e, 'v': v, 'text': t1}
    good = True
    for name, obs in legs:
        if not obs['ok'] or obs['rows'] != exp['rows']:
            ctx.violation('fold:%s:%s' % (name, 'value' if obs['ok'] else 'exception:%s' % obs.get('exc')),
                          'constant expression, %s evaluation vs the specification' % name, rec, 'S2C', v, obs)
            good = False
    for name, obs in legs[1:]:
        if good and folded['desc'][0][1] != obs['desc'][0][1]:
            ctx.violation('fold:type' if name == 'per-row' else 'fold:type:' + name,
                          'announced type of the folded constant vs the %s expression' % name, rec, 'S2C', obs['desc'], folded['desc'])
            good = False
    return good


def fold_scans(ctx, conn, st, cases):
    """the constant expressions TLC emitted, per SHAPE (the expression with its constants taken out, their types kept):
    one table whose rows hold the constants of every case of that shape, ONE scan evaluating the expression per row --
    row i must have the value the specification gives case i, whatever the other rows hold"""
    from beanquery.parser import ast
    from harness import tables as ht
    shapes = {}
    for case in cases:
        consts = []

        def column(v, consts=consts):
            consts.append(v)
            return {'k': 'col', 'n': 'k%d' % (len(consts) - 1)}
        e2 = map_consts(case['e'], column)
        key = json.dumps([e2, [SPEC_COLTYPE[c[0]] for c in consts]], sort_keys=True)
        shapes.setdefault(key, (e2, [SPEC_COLTYPE[c[0]] for c in consts], []))[2].append((consts, case))
    n = bad = nscans = 0
    for key, (e2, types, members) in sorted(shapes.items()):
        if len(members) < 2 or not types:
            continue
        tree = ast.Select([ast.Target(build_x(e2, st), 'r')], ast.Table('ks'), None, None, None, None, None, None)
        for direction in ('forwards', 'backwards'):
            ms = members if direction == 'forwards' else members[::-1]
            conn.tables['ks'] = ht.HarnessTable('ks', [('k%d' % i, t) for i, t in enumerate(types)],
                                                [tuple(bm.to_py(list(c), st) for c in consts) for consts, _ in ms])
            obs = bm.project(bm.run_raw(conn, tree), st)
            nscans += 1
            for pos, (consts, case) in enumerate(ms):
                n += 1
                if not obs['ok'] or len(obs['rows']) != len(ms) or obs['rows'][pos] != [case['v']]:
                    bad += 1
                    ctx.violation('fold:scan-row:%s' % ('value' if obs['ok'] else 'exception:%s' % obs.get('exc')),
                                  'constant expression evaluated for one row of a scan over columns holding the constants of other '
                                  'expressions of the same shape in the other rows, vs the specification',
                                  {'kind': 'foldscan', 'e': case['e'], 'v': case['v'], 'text': render_x(case['e'], st), 'shape': render_x(e2, st),
                                   'e2': e2, 'types': types,
                                   'row': pos + 1, 'direction': direction,
                                   'rows': [[list(c) for c in cs] for cs, _ in ms]}, 'S2C', case['v'],
                                  obs['rows'][pos] if obs['ok'] and len(obs['rows']) == len(ms) else obs)
    return n, bad, nscans


RICH = [   # (expression template, [(constant values..)..]) -- `{0}` .. are the constants, written as BQL literals
    ("{0} + {1} * {2}", [(2, 3, 4), (D('1.5'), 2, D('0.25')), (0, 0, 7)]),
    ("{0} - {1} - {2}", [(10, 3, 2), (D('10.0'), 3, D('2.5'))]),
    ("{0} / {1}", [(7, 2), (1, 0), (D('7.5'), D('2.5')), (D('1'), 0)]),
    ("{0} / {1} + {2}", [(1, 0, 5), (6, 3, 1), (D('3'), D('0'), 1)]),
    ("{0} % {1}", [(7, 3), (7, 0), (D('7.5'), 2)]),
    ("({0} % {1}) * {2}", [(7, 0, 2), (9, 4, 3)]),
    ("-{0}", [(5,), (D('2.5'),), (0,)]),
    ("-({0} + {1})", [(5, 2), (D('2.5'), 1)]),
    ("NOT {0} > {1}", [(1, 2), (2, 1)]),
    ("{0} > {1} AND {2} < {1}", [(3, 2, 1), (1, 2, 3)]),
    ("{0} = {1} OR {2} != {2}", [(1, 1, 5), (1, 2, 5)]),
    ("{0} BETWEEN {1} AND {2}", [(2, 1, 3), (5, 1, 3), (D('2.5'), 1, 3)]),
    ("{0} IS NULL", [(1,), ('a',)]),
    ("({0} / {1}) IS NULL", [(1, 0), (1, 2)]),
    ("{0} IN (1, 2, 3)", [(2,), (5,)]),
    ("{0} ~ {1}", [('Expenses:Food', 'food'), ('Assets', '^x')]),
    ("abs({0})", [(D('-3.5'),), (D('2.50'),)]),
    ("abs({0} - {1})", [(D('1.5'), 5), (D('1.5'), D('5'))]),
    ("length({0})", [('hello',), ('',)]),
    ("upper({0})", [('MiXed',)]),
    ("substr({0}, {1}, {2})", [('abcdef', 1, 3), ('abcdef', 4, 99)]),
    ("maxwidth({0}, {1})", [('a long piece of narration text', 12)]),
    ("year({0})", [(datetime.date(2020, 2, 29),)]),
    ("month({0}) + day({0})", [(datetime.date(2020, 2, 29),)]),
    ("{0} + {1}", [(datetime.date(2020, 2, 28), 2)]),
    ("{0} - {1}", [(datetime.date(2020, 3, 1), datetime.date(2020, 2, 1)), (datetime.date(2020, 3, 1), 1)]),
    ("{0} < {1}", [(datetime.date(2020, 3, 1), datetime.date(2020, 2, 1)), ('a', 'b')]),
    ("date_add({0}, {1})", [(datetime.date(2020, 12, 31), 1)]),
    ("date_diff({0}, {1})", [(datetime.date(2020, 12, 31), datetime.date(2020, 1, 1))]),
    ("weekday({0})", [(datetime.date(2020, 12, 31),)]),
    ("quarter({0})", [(datetime.date(2020, 5, 31),)]),
    ("round({0})", [(D('2.5'),), (D('3.5'),)]),
    ("round({0}, {1})", [(D('2.675'), 2), (25, -1)]),
    ("safediv({0}, {1})", [(D('1'), D('0')), (D('1'), D('4'))]),
    ("str({0})", [(12,), (D('1.50'),)]),
    ("int({0})", [('12',), (D('2.7'),)]),
    ("decimal({0}) + {1}", [('1.5', 1)]),
    ("bool({0})", [(0,), (2,), ('',)]),
    ("coalesce({0}, {1})", [(1, 2), ('a', 'b')]),
    ("coalesce({0} / {1}, {2})", [(D('1'), 0, D('9.5')), (D('1'), 4, D('9.5'))]),
    ("root({0}, {1})", [('Assets:US:Bank', 2)]),
    ("parent({0})", [('Assets:US:Bank',), ('Assets',)]),
    ("leaf({0})", [('Assets:US:Bank',)]),
    ("account_sortkey({0})", [('Assets:US:BofA:Checking',), ('Expenses:Food',)]),
    ("open_date({0})", [('Assets:US:BofA:Checking',), ('Assets:Nope',)]),
    ("grep({0}, {1})", [('F.o', 'xxFoodyy'), ('z', 'abc')]),
    ("subst({0}, {1}, {2})", [('o+', '0', 'foo boo')]),
    ("today() > {0}", [(datetime.date(2020, 1, 1),)]),
    # boolean connectives: NULL / TRUE / FALSE operands in every order, NULL-valued operator results (x / 0, x % 0) and
    # operands of other types (truthiness) before and after a deciding constant; observable as an output, under
    # IS NULL, NOT and coalesce
    ("{0} AND {1}", [(None, False), (False, None), (True, None), (None, True), (0, True), ('', None), (D('0.0'), 'x')]),
    ("{0} OR {1}", [(None, True), (True, None), (None, False), (False, None), (0, ''), (None, 'x')]),
    ("{0} AND {1} AND {2}", [(True, None, False), (None, False, True), (True, False, None)]),
    ("{0} OR {1} OR {2}", [(False, None, True), (None, False, False)]),
    ("{0} AND {1} OR {2}", [(None, False, False), (True, None, False)]),
    ("{0} OR {1} AND {2}", [(False, None, False), (None, True, False)]),
    ("({0} AND {1}) IS NULL", [(None, False), (False, None)]),
    ("({0} OR {1}) IS NULL", [(None, False), (None, True)]),
    ("NOT ({0} AND {1})", [(None, False), (True, None)]),
    ("NOT ({0} OR {1})", [(None, False), (None, True)]),
    ("NOT {0}", [(None,), (0,), ('',)]),
    ("coalesce({0} AND {1}, {2})", [(None, False, True)]),
    ("({0} / {1} > {2}) AND {3}", [(D('1.0'), D('0.0'), 0, False), (D('1.0'), D('2.0'), 0, False), (D('1.0'), D('0.0'), 0, True)]),
    ("{3} AND ({0} / {1} > {2})", [(D('1.0'), D('0.0'), 0, False), (D('1.0'), D('0.0'), 0, True)]),
    ("({0} / {1} > {2}) OR {3}", [(D('1.0'), D('0.0'), 0, True), (D('1.0'), D('0.0'), 0, False)]),
    ("({0} % {1} = {2}) AND {3} < {2}", [(7, 0, 1, 2), (7, 0, 1, 0)]),
    ("(({0} % {1} = {2}) AND {3}) IS NULL", [(7, 0, 1, False), (7, 3, 1, False)]),
    ("{0} - {1} < {2} AND {3} ~ {4}", [(datetime.date(2024, 1, 31), datetime.date(2024, 1, 1), 31, 'Assets:Cash', 'cash'),
                                       (datetime.date(2024, 1, 31), datetime.date(2024, 1, 1), 30, 'Assets:Cash', 'cash')]),
]
COLTYPE = {int: 'int', D: 'Decimal', str: 'str', datetime.date: 'date', bool: 'bool', type(None): 'bool'}


def literal(v):
    if v is None:
        return 'NULL'
    if isinstance(v, bool):
        return 'TRUE' if v else 'FALSE'
    if isinstance(v, str):
        return "'%s'" % v
    if isinstance(v, datetime.date):
        return v.isoformat()
    if isinstance(v, D) and '.' not in str(v):
        return str(v) + '.0'
    return str(v)


def as_parameters(tmpl, vals, named):
    """the template with its constants as placeholders: `%s` in text order, or `%(pN)s` (a constant the template uses
    twice repeats its name: it cannot be positional); a parameter is the value its literal denotes"""
    import re
    order = [int(m) for m in re.findall(r'\{(\d+)\}', tmpl)]
    pv = [D(literal(v)) if isinstance(v, D) else v for v in vals]
    if named or len(set(order)) < len(order):
        return tmpl.format(*['%%(p%d)s' % i for i in range(len(vals))]), {'p%d' % i: v for i, v in enumerate(pv)}
    return tmpl.format(*['%s'] * len(vals)), tuple(pv[i] for i in order)


def rich_folding(ctx, conn, trace=None):
    """folded vs per-row vs parameters over decimals, dates, strings, NULL / TRUE / FALSE, the boolean connectives and
    the function library"""
    from harness import tables as ht
    n = bad = 0
    for tmpl, sets in RICH:
        for vals in sets:
            n += 1
            t1 = 'SELECT %s AS r FROM #' % tmpl.format(*[literal(v) for v in vals])
            conn.tables['k'] = ht.HarnessTable('k', [('k%d' % i, COLTYPE[type(v)]) for i, v in enumerate(vals)], [tuple(vals)])
            t2 = 'SELECT %s AS r FROM #k' % tmpl.format(*['k%d' % i for i in range(len(vals))])
            e3, params = as_parameters(tmpl, vals, named=n % 2 == 0)
            t3 = 'SELECT %s AS r FROM #' % e3
            a, b = bm.run_raw(conn, bm.parsed(t1)), bm.run_raw(conn, bm.parsed(t2))
            # (parsing dominates: the parameter form for the connectives and every third of the rest)
            with_params = n % 3 == 0 or any(w in tmpl for w in (' AND ', ' OR ', 'NOT '))
            c = bm.run_raw(conn, bm.parsed(t3), params) if with_params else a
            oa, ob, oc = c08mod.project_opaque(a), c08mod.project_opaque(b), c08mod.project_opaque(c)
            rows = lambda o: o['rows'] if o['ok'] else [['exc', o['exc']]]      # noqa
            if trace is not None:
                trace.append({'op': 'fold', 'id': 900000 + n, 'text': t1, 'folded': rows(oa), 'perrow': rows(ob), 'params': rows(oc)})
            ctx.case('rich-fold|' + t1)
            case = {'kind': 'richfold', 'folded_text': t1, 'perrow_text': t2, 'params_text': t3, 'params': repr(params)}
            if oa['ok'] != ob['ok'] or oa['rows'] != ob['rows']:
                bad += 1
                ctx.violation('fold:rich:%s' % tmpl, 'constant expression folded vs evaluated per row from columns',
                              case, 'S2C', ob, oa)
            elif oa['ok'] and oa['desc'][0][1] != ob['desc'][0][1] and ob['desc'][0][1] != 'object':
                bad += 1
                ctx.violation('fold:rich-type:%s' % tmpl, 'announced type of the folded constant vs the per-row expression',
                              case, 'S2C', ob['desc'], oa['desc'])
            if oa['ok'] != oc['ok'] or oa['rows'] != oc['rows'] or (oa['ok'] and oa['desc'][0][1] != oc['desc'][0][1]):
                bad += 1
                ctx.violation('params:rich:%s' % tmpl, 'constants passed as parameters vs written as literals',
                              case, 'S2C', oa, oc)
    return n, bad


# ---- folding over a SCAN: one column, several different constants ------------------------------------------------
# "evaluated per row from columns holding the same constants": a column holds one constant PER ROW, and a scan evaluates
# the compiled expression once per row -- whatever the compiled expression remembers of the rows it has already seen
# must not show.  The rows of one scan hold constants that are different BQL values although the host language calls
# them equal (1.5 / 1.50 / 1.500, 2.0 / 2.00, 0.0 / 0.00, in an untyped column 1 / TRUE / 1.0 / '1'), the same constant
# twice, and plainly different ones; each row's value must be what the compiler folds the expression over that row's
# constants to (written as literals, and passed as parameters).  Values are compared as they are rendered: digits of a
# decimal included (str(1.50) = '1.50', -(1.50) = -1.50).
_DECS = [D('1.5'), D('1.50'), D('2.0'), D('2.00'), D('0.0'), D('0.00'), D('1.5'), D('-1.50'), D('-1.5')]
_DEC4 = [D('1.5'), D('1.50'), D('-1.500'), D('1.5'), D('2.00')]
_ANYS = [1, True, D('1.0'), D('1.00'), 0, False, D('0.0'), '1', D('1.0'), 'TRUE', True, 1, datetime.date(2020, 1, 1)]
_ONECOL = lambda vs: [(v,) for v in vs]      # noqa
SCANS = [   # (expression template, column types, rows of constants)
    ("str({0})", ('Decimal',), _ONECOL(_DECS)),
    ("repr({0})", ('Decimal',), _ONECOL(_DECS)),
    ("neg({0})", ('Decimal',), _ONECOL(_DECS)),
    ("abs({0})", ('Decimal',), _ONECOL(_DEC4)),
    ("round({0})", ('Decimal',), _ONECOL([D('2.5'), D('2.50'), D('3.5'), D('3.500'), D('2.5')])),
    ("round({0}, {1})", ('Decimal', 'int'), [(D('2.675'), 2), (D('2.6750'), 2), (D('2.675'), 1), (D('2.67500'), 1), (D('2.675'), 2)]),
    ("safediv({0}, {1})", ('Decimal', 'Decimal'), [(D('1.0'), D('4.0')), (D('1.00'), D('4.0')), (D('1.0'), D('4.00')), (D('1.0'), D('0.0')),
                                                   (D('1.000'), D('0.00')), (D('1.0'), D('4.0'))]),
    ("length(str({0}))", ('Decimal',), _ONECOL(_DEC4)),
    ("str({0}) = '1.50'", ('Decimal',), _ONECOL(_DEC4)),
    ("str(abs({0})) != str({0})", ('Decimal',), _ONECOL(_DEC4)),
    ("-{0}", ('Decimal',), _ONECOL(_DEC4)),
    ("{0} + {1}", ('Decimal', 'Decimal'), [(D('1.5'), D('1.0')), (D('1.50'), D('1.0')), (D('1.5'), D('1.00')), (D('1.5'), D('1.0'))]),
    ("{0} * {1}", ('Decimal', 'int'), [(D('1.5'), 2), (D('1.50'), 2), (D('1.500'), 2), (D('1.5'), 3)]),
    ("str({0} * {1})", ('Decimal', 'int'), [(D('1.5'), 2), (D('1.50'), 2), (D('1.500'), 2), (D('1.5'), 3)]),
    ("int({0})", ('Decimal',), _ONECOL([D('2.7'), D('2.70'), D('2.0'), D('2.00')])),
    ("decimal({0})", ('str',), _ONECOL(['1.5', '1.50', '1.5', 'x', '2', '2.0'])),
    ("str({0})", ('object',), _ONECOL(_ANYS)),
    ("repr({0})", ('object',), _ONECOL(_ANYS)),
    ("bool({0})", ('object',), _ONECOL(_ANYS)),
    ("int({0})", ('object',), _ONECOL(_ANYS[:11])),
    ("decimal({0})", ('object',), _ONECOL(_ANYS[:9])),
    ("str({0})", ('int',), _ONECOL([1, 0, 12, 1, -1])),
    ("str({0})", ('bool',), _ONECOL([True, False, True])),
    ("str(decimal({0}))", ('int',), _ONECOL([1, 0, 12, 1])),
    ("upper({0})", ('str',), _ONECOL(['a', 'A', 'a', 'Ab'])),
    ("root({0}, {1})", ('str', 'int'), [('Assets:US:Bank', 1), ('Assets:US:Bank', 2), ('Assets:US:Bank', 1), ('Expenses:Food', 2)]),
    ("parent({0})", ('str',), _ONECOL(['Assets:US:Bank', 'Assets', 'Assets:US', 'Assets:US:Bank'])),
    ("year({0}) + month({0})", ('date',), _ONECOL([datetime.date(2020, 2, 29), datetime.date(2021, 2, 28), datetime.date(2020, 2, 29)])),
    ("grep({0}, {1})", ('str', 'str'), [('F.o', 'xxFoodyy'), ('f.o', 'xxFoodyy'), ('F.o', 'xxfoodyy'), ('F.o', 'xxFoodyy')]),
]


def strict(v):
    """a value as it is rendered: c08's opaque projection, but a decimal keeps its digits"""
    return ['d', str(v)] if isinstance(v, D) else c08mod.opaque(v)


def strict_rows(res):
    return [[strict(v) for v in row] for row in res[2]] if res[0] == 'ok' else [['exc', res[1]]]


def all_scans():
    """SCANS + the value sets of RICH that share a template and a type signature (>= 2 of them), as rows of one scan"""
    out = list(SCANS)
    for tmpl, sets in RICH:
        groups = {}
        for vals in sets:
            groups.setdefault(tuple(COLTYPE[type(v)] for v in vals), []).append(vals)
        out += [(tmpl, sig, rows) for sig, rows in groups.items() if len(rows) >= 2]
    return out


def scan_folding(ctx, conn, trace=None, only=None, verbose=False):
    """every row of a scan over columns holding one constant per row vs the expression folded over that row's constants"""
    from harness import tables as ht
    n = bad = 0
    for sno, (tmpl, sig, rows) in enumerate(all_scans()):
        if only is not None and sno != only:
            continue
        # (a decimal parameter / cell is the value its literal denotes: 2 is written 2.0)
        rows = [tuple(D(literal(v)) if isinstance(v, D) else v for v in vals) for vals in rows]
        names = ['k%d' % i for i in range(len(sig))]
        t2 = 'SELECT %s AS r FROM #ks' % tmpl.format(*names)
        e3, _ = as_parameters(tmpl, rows[0], named=sno % 2 == 0)
        t3 = 'SELECT %s AS r FROM #' % e3
        folded, bound, texts = [], [], []
        for vals in rows:
            t1 = 'SELECT %s AS r FROM #' % tmpl.format(*[literal(v) for v in vals])
            texts.append(t1)
            folded.append(strict_rows(bm.run_raw(conn, bm.parsed(t1))))
            bound.append(strict_rows(bm.run_raw(conn, bm.parsed(t3), as_parameters(tmpl, vals, named=sno % 2 == 0)[1])))
        for direction in ('forwards', 'backwards'):
            order = list(range(len(rows))) if direction == 'forwards' else list(reversed(range(len(rows))))
            conn.tables['ks'] = ht.HarnessTable('ks', list(zip(names, sig)), [rows[i] for i in order])
            res = bm.run_raw(conn, bm.parsed(t2))
            case = {'kind': 'scan', 'scan': sno, 'template': tmpl, 'perrow_text': t2, 'rows': repr([rows[i] for i in order]),
                    'params_text': t3, 'direction': direction}
            if res[0] != 'ok' or len(res[2]) != len(rows):
                if res[0] != 'ok' and any(f[0][0] == 'exc' for f in folded):
                    ctx.skipped += 1        # some row's constants are outside the expression's domain: the scan has no value
                    continue
                bad += 1
                ctx.violation('fold:scan:%s:%s' % (tmpl, 'exception:%s' % res[1] if res[0] != 'ok' else 'rows'),
                              'a scan over columns of constants fails although the expression folds over every row', case, 'S2C',
                              folded, res[1:] if res[0] != 'ok' else len(res[2]))
                continue
            per = strict_rows(res)
            for pos, i in enumerate(order):
                n += 1
                ctx.case('scan-fold|%s|%s|%d' % (t2, direction, i))
                if verbose:
                    print('replay:', direction, texts[i], 'folded', folded[i], 'parameters', bound[i], 'row of the scan', [per[pos]])
                if trace is not None:
                    trace.append({'op': 'fold', 'id': 800000 + n, 'text': texts[i], 'folded': folded[i], 'perrow': [per[pos]],
                                  'params': bound[i], 'scan': sno, 'row': pos + 1, 'of': len(rows), 'direction': direction})
                if trace is not None:
                    continue            # (recorded: TLC judges the line)
                if folded[i] != [per[pos]]:
                    bad += 1
                    ctx.violation('fold:scan:%s' % tmpl, 'constant expression folded vs evaluated for one row of a scan over columns '
                                  'holding other constants in the other rows', dict(case, row=pos + 1, folded_text=texts[i]), 'S2C',
                                  folded[i], [per[pos]])
                if direction == 'forwards' and folded[i] != bound[i]:
                    bad += 1
                    ctx.violation('params:scan:%s' % tmpl, 'constants passed as parameters vs written as literals',
                                  dict(case, folded_text=texts[i]), 'S2C', folded[i], bound[i])
    return n, bad


_REGISTERED = False


def register_row_function():
    """a BQL function without operands that depends on the row (public extension point query_env.function):
    folding it would evaluate it without a row"""
    global _REGISTERED
    if not _REGISTERED:
        from beanquery import query_env

        @query_env.function([], int, pass_row=True, name='c09_first')
        def c09_first(row):
            return row[0]

        @query_env.function([], int, pass_context=True, name='c09_ntables')
        def c09_ntables(context):
            return len(context.tables)
        _REGISTERED = True


def impure_folding(ctx, sess):
    """row- and context-dependent functions whose operands are constants must be evaluated per row"""
    register_row_function()
    conn = sess.conn
    pairs = [
        ("SELECT c09_first() AS r, x FROM #t", "SELECT x AS r, x FROM #t"),
        ("SELECT c09_first() + 1 AS r FROM #t WHERE c09_first() > 0", "SELECT x + 1 AS r FROM #t WHERE x > 0"),
        ("SELECT c09_ntables() AS r FROM #u", "SELECT %d AS r FROM #u" % len(conn.tables)),
    ]
    if sess.entries:
        pairs += [
            ("SELECT has_account('Expenses') AS r, lineno FROM #postings", "SELECT has_account(coalesce('Expenses', 'x')) AS r, lineno FROM #postings"),
            ("SELECT lineno FROM #postings WHERE has_account('Assets:US:BofA')", "SELECT lineno FROM #postings WHERE has_account(coalesce('Assets:US:BofA', 'x'))"),
            ("SELECT account_sortkey('Assets:X') AS r FROM #postings LIMIT 3", "SELECT account_sortkey(coalesce('Assets:X', '')) AS r FROM #postings LIMIT 3"),
            ("SELECT getprice('HOOL', 'USD') AS r FROM #postings LIMIT 2", "SELECT getprice(coalesce('HOOL', ''), 'USD') AS r FROM #postings LIMIT 2"),
            ("SELECT convert(units(position), 'CAD', 2022-03-01) AS r FROM #postings LIMIT 5",
             "SELECT convert(units(position), coalesce('CAD', ''), 2022-03-01) AS r FROM #postings LIMIT 5"),
        ]
    n = 0
    for a, b in pairs:
        n += 1
        ra, rb = bm.run_raw(conn, bm.parsed(a)), bm.run_raw(conn, bm.parsed(b))
        oa, ob = c08mod.project_opaque(ra), c08mod.project_opaque(rb)
        ctx.case('impure-fold|' + a)
        if not oa['ok'] or not ob['ok'] or oa['rows'] != ob['rows'] or not oa['rows']:
            ctx.violation('fold:row-dependent:%s' % a.split('(')[0].split()[-1],
                          'a row- or context-dependent function of constants must equal its per-row evaluation',
                          {'kind': 'impurefold', 'a': a, 'b': b}, 'S2C', ob, oa)
    return n


# ---- legs ---------------------------------------------------------------------------------------------------
def s2c(ctx):
    setups = {}
    for name in ('3', '9', 'k') if ctx.quick else ('2', '5', '9', 'k'):
        r = ctx.tlc('Gen_BQLSession', 'Gen_BQLSession_setup%s.cfg' % name, leg='GEN-setup', workers=1)
        setups[name] = r.printed[0]
    runs = [('Gen_BQLSession_q3.cfg', '3', None)] if ctx.quick else [('Gen_BQLSession_t3.cfg', '5', None), ('Gen_BQLSession_t4.cfg', '2', None)]
    nsim = ctx.pick(600, 8000)
    w = ctx.pick(4, 16)
    # parameters of different literal kinds that the host language calls equal, every history of 2 (3) calls
    runs.append((ctx.pick('Gen_BQLSession_k2.cfg', 'Gen_BQLSession_k3.cfg'), 'k', None))
    runs.append(('Gen_BQLSession_sim.cfg', '9', 'num=%d' % max(1, nsim // (w * 12))))
    sessions = {}
    total = good = 0
    ops_seen = {}
    with FastParse(real_every=ctx.pick(60, 25)) as fp:
        for cfg, setup, sim in runs:
            if setup not in sessions:
                sessions[setup] = Session(ctx, setups[setup])
            sess = sessions[setup]
            if sim:
                res = ctx.tlc('Gen_BQLSession', cfg, leg='GEN-sim', simulate=sim, depth=40, seed=ctx.seed, workers=w)
            else:
                res = ctx.tlc('Gen_BQLSession', cfg, leg='GEN')
            seen = set()
            nb = 0
            for p in res.printed:
                hist = p['hist']
                key = json.dumps([[h['op'], h['s'], h['ps']] for h in hist])
                if key in seen:
                    continue
                seen.add(key)
                nb += 1
                calls = [h for h in hist if h['op'] != 'parse']
                nontrivial = len({(h['op'], h['s']) for h in calls}) < len(calls) or any(h['op'] == 'many' for h in calls)
                ctx.case(cfg + key, nontrivial)
                if replay_history(ctx, sess, hist, nb, ctx.rng):
                    good += 1
                total += 1
                ctx.traces += 1
                for h in hist:
                    ops_seen[h['op']] = ops_seen.get(h['op'], 0) + 1
                if nb == 7 and not sim:
                    ctx.sample({'leg': 'S2C', 'history': [[h['op'], h['s'], h['ps'], h['res']['rows'][:2]] for h in hist]})
            ctx.leg('S2C', **{'histories_' + cfg.split('_')[-1].split('.')[0]: nb})
        for sess in sessions.values():
            if not sess.data_same():
                ctx.violation('data-mutated:end', 'source tables / ledger entries differ at the end of the replay', {'kind': 'end'}, 'S2C')
        ctx.leg('S2C', histories=total, agree=good, calls=ops_seen, parser_calls=fp.n, real_parser_calls=fp.real)
    for sess in sessions.values():
        for k, v in sess.counts.items():
            ctx.leg('S2C', **{k: v})
    for op in ('parse', 'execute', 'text', 'many'):
        if not ops_seen.get(op):
            raise MachineryError('vacuity: call kind %s never replayed' % op)
    # folding
    sess = sessions[sorted(sessions)[0]]
    res = ctx.tlc('Gen_BQLSession', ctx.pick('Gen_BQLSession_foldq.cfg', 'Gen_BQLSession_folda.cfg'), leg='GEN-fold')
    nf = gf = 0
    for n, p in enumerate(res.printed):
        nf += 1
        ctx.case('fold|' + json.dumps(p['e'], sort_keys=True))
        if fold_case(ctx, sess.conn, sess.st, p, n):
            gf += 1
        ctx.traces += 1
    if not nf:
        raise MachineryError('no folding case emitted')
    # ... and per shape as the rows of ONE scan (a column holds another constant in every row)
    nfs, bfs, nscans = fold_scans(ctx, sess.conn, sess.st, res.printed)
    if not nfs:
        raise MachineryError('no two folding cases of one shape: no scan over several rows of constants')
    nr, br = rich_folding(ctx, sess.conn)
    nsr, bsr = scan_folding(ctx, sess.conn)
    if not nsr:
        raise MachineryError('no scan over several rows of constants was evaluated')
    ni = impure_folding(ctx, sess)
    ctx.traces += nr + ni + nfs + nsr
    ctx.leg('S2C', fold_cases=nf, fold_agree=gf, fold_scans=nscans, fold_scan_rows=nfs, fold_scan_rows_bad=bfs,
            rich_fold_cases=nr, rich_fold_bad=br, rich_scan_rows=nsr, rich_scan_rows_bad=bsr, impure_fold_cases=ni)


def c2s(ctx):
    """random histories of <= 40 calls, recorded and judged by TLC"""
    r = ctx.tlc('Gen_BQLSession', 'Gen_BQLSession_setup9.cfg', leg='GEN-setup', workers=1)
    setup = r.printed[0]
    # (run beside the recording: the statements last to first, and first to last)
    pristine = [(order, start_pristine(ctx, ctx.pick(40, 120), order == 'backwards')) for order in ('backwards', 'forwards')]
    sess = Session(ctx, setup)
    bm.install_tables(sess.conn2, sess.tabs, sess.st)
    sess.leg = 'C2S'
    rng = ctx.rng
    st = sess.st
    # the statements of the trace: the modelled ones, then the ledger statements (opaque: placeholders only)
    tstmts = [dict(s, opaque=False) for s in setup['stmts']]
    tparams = [list(p) for p in setup['params']]
    nmod = len(tstmts)
    lobjs = []
    for text, tree, plist in sess.ledger_stmts:
        from beanquery.parser import ast
        phs = sorted((n.parseinfo.pos, n.name if isinstance(n.name, str) else '') for n in tree.walk() if isinstance(n, ast.Placeholder))
        q = {'k': 'select', 'star': False, 'tg': [{'e': {'k': 'ph', 'pos': k + 1, 'nm': nm}, 'nm': 'p%d' % k} for k, (_, nm) in enumerate(phs)],
             'from': {'k': 'tab', 'n': ''}, 'wh': {'k': 'none'}, 'ord': [], 'dis': False, 'lim': -1}
        tstmts.append({'q': q, 'swapped': False, 'opaque': True})
        # parameter values are opaque too: the model only needs their shape
        tparams.append([({'kind': 'seq', 'seq': [['i', 0]] * len(p), 'map': []} if isinstance(p, tuple)
                         else {'kind': 'map', 'seq': [], 'map': [[k, ['i', 0]] for k in p]}) for p in plist])
        lobjs.append((text, plist))
    path = ctx.path('c09-trace.ndjson')
    nhist = ctx.pick(40, 600)      # (the first parse of a statement no longer takes a step of its own: ~20 calls per history)
    nlines = 1
    ncalls = 0
    eid = 0
    nfresh = nliteral = nsweep = npristine = 0

    def literal_events(f):
        """every ledger statement x parameters with the values written as literals, on a connection of its own: what the
        specification DEFINES the result of the parametrised execution to be (DenoteStmt substitutes, then denotes)"""
        nonlocal eid, nlines, nliteral
        for k, (text, plist) in enumerate(lobjs):
            for i in range(len(plist)):
                twin = sess.literal_ledger(k, i)
                if twin is None:
                    continue
                eid += 1
                f.write(json.dumps({'op': 'fresh', 'id': eid, 's': nmod + k + 1, 'ps': [i + 1], 'res': twin[1], 'same': sess.data_same(),
                                    'literal': twin[0]}) + '\n')
                nlines += 1
                nliteral += 1

    def sweep_events(f, only=None):
        """every statement text with each of its parameter sets in turn, forwards and backwards, on ONE connection: the same
        text meets every parameter set right after every neighbouring one (and itself)"""
        nonlocal eid, nlines, ncalls, nsweep
        f.write(json.dumps({'op': 'begin', 'id': eid}) + '\n')
        nlines += 1
        for s in range(len(tstmts)) if only is None else only:
            npar = len(tparams[s])
            for i in list(range(npar)) + list(reversed(range(npar))):
                eid += 1
                if s < nmod:
                    res = bm.project(sess.call({}, 'text', s, [i]), st)
                else:
                    res = sess.run_ledger(sess.cursor, s - nmod, [i], 'text')
                f.write(json.dumps({'op': 'text', 'id': eid, 's': s + 1, 'ps': [i + 1], 'res': res, 'same': sess.data_same(), 'conn': 1,
                                    'epoch': sess.epoch}) + '\n')
                nlines += 1
                ncalls += 1
                nsweep += 1

    def fresh_events(f, only=None):
        """every ledger statement x parameters once on a connection of its own (no history): the reference TLC holds
        all other executions against"""
        nonlocal eid, nlines, nfresh
        for k, (text, plist) in enumerate(lobjs):
            if only is not None and k not in only:
                continue
            for i in range(len(plist)):
                eid += 1
                res = sess.fresh_ledger(k, i)
                f.write(json.dumps({'op': 'fresh', 'id': eid, 's': nmod + k + 1, 'ps': [i + 1], 'res': res, 'same': sess.data_same()}) + '\n')
                nlines += 1
                nfresh += 1

    with open(path, 'w') as f, FastParse(real_every=ctx.pick(50, 20)):
        f.write(json.dumps({'op': 'setup', 'id': 0, 'stmts': tstmts, 'params': tparams, 'tabs': setup['tabs']}) + '\n')
        fresh_events(f)
        literal_events(f)
        for hno in range(nhist):
            f.write(json.dumps({'op': 'begin', 'id': eid}) + '\n')
            nlines += 1
            objs = {}
            for _ in range(rng.randint(3, 40)):
                eid += 1
                sess.interleave(rng)
                s = rng.randrange(nmod) if rng.random() < 0.5 else rng.randrange(nmod, len(tstmts))
                r = rng.random()
                if s not in objs or r < 0.08:
                    if s < nmod:
                        objs[s] = sess.stmts[s].fresh()
                    else:
                        objs[s] = copy.deepcopy(sess.ledger_stmts[s - nmod][1])
                    f.write(json.dumps({'op': 'parse', 'id': eid, 's': s + 1}) + '\n')
                    nlines += 1
                    if r < 0.08:
                        continue        # (a re-parse is a step of its own; the first parse of a statement goes on to use it)
                    eid += 1
                npar = len(tparams[s])
                if r < 0.55:
                    op, ps = 'execute', [rng.randrange(npar)]
                elif r < 0.8:
                    op, ps = 'text', [rng.randrange(npar)]
                else:
                    op, ps = 'many', [rng.randrange(npar) for _ in range(rng.randint(1, 4))]
                conn = 1
                if s < nmod:
                    raw = sess.call(objs, op, s, ps)
                    res = bm.project(raw, st)
                else:
                    # (either of the two connections: the result is a function of text, parameters and data)
                    conn = 1 if rng.random() < 0.7 else 2
                    res = sess.run_ledger(sess.cursor if conn == 1 else sess.cursor2, s - nmod, ps, op, tree=objs[s])
                ev = {'op': op, 'id': eid, 's': s + 1, 'ps': [i + 1 for i in ps], 'res': res, 'same': sess.data_same(), 'conn': conn}
                f.write(json.dumps(ev) + '\n')
                nlines += 1
                ncalls += 1
        sweep_events(f)
        # once more on new connections, made after everything else has run in the process
        f.write(json.dumps({'op': 'begin', 'id': eid}) + '\n')
        nlines += 1
        fresh_events(f)
        # and what NEW processes returned for them (nothing else executed there; one took the statements last to first --
        # the qualified ones first --, the other first to last)
        for order, proc in pristine:
            for k, i, res in collect_pristine(proc):
                eid += 1
                f.write(json.dumps({'op': 'fresh', 'id': eid, 's': nmod + k + 1, 'ps': [i + 1], 'res': res, 'same': True,
                                    'process': 'new', 'order': order}) + '\n')
                nlines += 1
                nfresh += 1
                npristine += 1
        # the data change: #h is replaced on the long-lived connections.  From here on a result is a function of (text,
        # parameters, the NEW data) -- TLC forgets what it has seen --: nothing executed (compiled, cached) before shows
        sess.new_epoch()
        f.write(json.dumps({'op': 'data', 'id': eid}) + '\n')
        nlines += 1
        hs = [k for k, (text, _) in enumerate(lobjs) if '#h' in text]
        fresh_events(f, hs)
        sweep_events(f, [nmod + k for k in hs])
        # folding events: a constant expression folded / evaluated per row / with parameters (values outside the model: opaque)
        folds = []
        rich_folding(ctx, sess.conn, trace=folds)
        # ... and every row of the scans over columns that hold another constant in every row
        scan_folding(ctx, sess.conn, trace=folds)
        for ev in folds:
            f.write(json.dumps(ev) + '\n')
            nlines += 1
    ctx.case('c2s', n=ncalls)
    with open(path) as f:
        lines = f.read().split('\n')
    ctx.sample({'leg': 'C2S', 'events': [json.loads(x) for x in lines[3:6]]})
    res = ctx.tlc('Trace_BQLSession', 'Trace_BQLSession.cfg', leg='C2S', workers=1, env={'TRACE_FILE': path},
                  timeout=ctx.pick(600, 3600))
    done = [p for p in res.printed if isinstance(p, dict) and p.get('verdict') == 'done']
    rejected = [p for p in res.printed if isinstance(p, dict) and p.get('verdict') == 'rejected']
    if res.violated:
        ctx.violation('c2s:trace-invariant:%s' % ','.join(res.violated), 'an invariant fails while replaying recorded calls',
                      {'kind': 'c2s', 'behaviour': res.behaviour[:2000]}, 'C2S')
    elif len(done) != 1 or done[0]['lines'] != nlines or res.post_failed:
        raise MachineryError('trace not consumed: %s of %d lines (%s)' % (done, nlines, res.errors[:2]))
    for rj in rejected:
        ev = json.loads(lines[rj['line'] - 1])
        # the events of that history up to the rejected line
        start = max(i for i in range(rj['line']) if json.loads(lines[i]).get('op') in ('begin', 'setup', 'data'))
        hist = [json.loads(x) for x in lines[start:rj['line']]]
        hist = [{k: v for k, v in h.items() if k != 'res' or h is hist[-1]} for h in hist]
        case = {'kind': 'c2s', 'event': ev, 'history': hist, 'spec': rj, 'setup': setup}
        if ev.get('literal'):
            ctx.violation('c2s:literal:%s' % ('differs-from-parameters' if ev['res']['ok'] else 'exception:%s' % ev['res'].get('exc')),
                          'the statement with the parameter values written as literals vs executed with parameters', case, 'C2S',
                          rj['spec'], ev['res'])
        elif ev['op'] == 'fold':
            ctx.violation('c2s:fold:scan' if ev.get('scan') is not None else 'c2s:fold',
                          'folded, per-row and parameter values differ' + (' (row %d of %d of a scan over columns holding another constant '
                                                                           'in every row)' % (ev['row'], ev['of']) if ev.get('scan') is not None else ''),
                          case, 'C2S', ev['perrow'], [ev['folded'], ev['params']])
        elif not ev.get('same', True):
            ctx.violation('c2s:data-mutated:%s' % ev['op'], 'source data changed by the call', case, 'C2S')
        elif not ev['res']['ok'] and ev['res'].get('exc') == 'ProgrammingError' and 'cannot be mixed' in ev['res'].get('msg', '') \
                and sum(1 for _, nm in placeholders(tstmts[ev['s'] - 1]['q']) if nm == '') >= 2:
            ctx.violation(KEY_REEXEC, 'a matching call fails', case, 'C2S', rj['spec'], ev['res'])
        else:
            what = 'exception:%s' % ev['res'].get('exc') if not ev['res']['ok'] else ('not-a-function-of-text-params-data' if 'hash' in ev['res'] else 'result')
            ctx.violation('c2s:%s:%s' % (ev['op'], what), 'recorded call not explained by the specification', case, 'C2S',
                          rj['spec'], ev['res'])
    if not sess.data_same():
        ctx.violation('data-mutated:end', 'source tables / ledger entries differ at the end of the recording', {'kind': 'end'}, 'C2S')
    ctx.traces += nlines - 1 - len(rejected)
    ctx.leg('C2S', histories=nhist, lines=nlines - 1, calls=ncalls, fresh_connection_calls=nfresh, ledger_statements=len(lobjs),
            literal_twins=nliteral, sweep_calls=nsweep, new_process_calls=npristine,
            shared_constant_statements=len(SHARED_STMTS),
            fold_events=len(folds), rejected=len(rejected), **sess.counts)


def run(ctx):
    ctx.rule = ('S2C: every behaviour of BQLSession up to the stated number of calls (distinct call sequences), plus simulated '
                'deeper ones; non-trivial = some statement is used more than once or through executemany.  Folding: every '
                'constant expression of the explored space + a curated wider set.  C2S: random histories of 3..40 calls')
    ctx.assumptions += ['a call whose parameters do not fit the placeholders is outside the statement: executed, not judged, counted',
                        'execute(text) and executemany mostly receive a fresh copy of the statement the real parser produced '
                        'for that text (TatSu costs 10-50 ms); a fixed fraction goes through the real parser',
                        'ledger statements are outside the model: judged as "result is a function of (text, params, entries)" -- by '
                        'TLC over the recorded calls (history-free executions on connections of their own, in this process and in '
                        'two new ones that take the statements in opposite orders, included), and against a fresh connection '
                        'whenever one runs between the calls of a replayed history',
                        'source data are compared by value (repr of every cell of #h, == on ledger entries and a deep copy of them) '
                        'before and after every call',
                        'a Decimal without fractional digits has no literal denoting exactly it: such parameter sets get no literal twin',
                        'the value of a connective is the pinned one (DESIGN Appendix B: AND stops at the first NULL or false operand, '
                        'OR is Kleene); the relational folding legs (folded = per row = parameters) do not depend on it',
                        'scans over columns of constants compare values as they are rendered: a decimal with its digits (1.5 and 1.50 are '
                        'different results of str(), of neg() and of the arithmetic operators); the statement says "the same value" and '
                        'BQL shows the digits (str(1.50) = \'1.50\')',
                        'TLC 1.8, Json/IOUtils community modules, CPython 3.12']
    only = getattr(ctx, 'only_legs', None)
    if not only or 'MC' in only:
        # (TLC's -coverage bookkeeping does not terminate in reasonable time on this specification: the actions are
        # shown to be taken by the counterexamples of the two shipped-mechanism runs and by the generator's histories)
        res = ctx.tlc('MC_BQLSession', ctx.pick('MC_BQLSession.cfg', 'MC_BQLSession_full.cfg'), leg='MC')
        if res.violated:
            ctx.violation('spec:' + ','.join(res.violated), 'TLC violates history independence on the conforming mechanism',
                          {'kind': 'mc', 'behaviour': res.behaviour[:3000]}, 'MC')
        res = ctx.tlc('MC_BQLSession', 'MC_BQLSession_shipped.cfg', leg='MC-nonvacuity', expect_violation='ResultInv', workers=1)
        if res.behaviour.count('<Execute(') != 2 or '<Parse(' not in res.behaviour or res.behaviour.count('<Number') != 2 \
                or '<Bind' not in res.behaviour or '<Run' not in res.behaviour:
            raise MachineryError('the shipped-mechanism counterexample is not Parse; Execute (Number; Bind; Run); Execute (Number)')
        res = ctx.tlc('MC_BQLSession', 'MC_BQLSession_shipped_many.cfg', leg='MC-nonvacuity', expect_violation='ResultInv',
                      workers=1)     # one worker: breadth-first search reports the shortest counterexample, the executemany one
        if '<ExecuteMany(' not in res.behaviour:
            raise MachineryError('the executemany counterexample on the shipped mechanism was not found')
        # parameters of different literal kinds that the host language calls equal (1 / TRUE, 0 / FALSE) as outputs, on a
        # connection that keeps compiled statements under (text, parameters as BQL values); keyed by the host
        # language's equality instead, execute(text, (1, ..)); execute(text, (TRUE, ..)) must be rejected
        res = ctx.tlc('MC_BQLSession', ctx.pick('MC_BQLSession_kinds.cfg', 'MC_BQLSession_kinds4.cfg'), leg='MC')
        if res.violated:
            ctx.violation('spec:kinds:' + ','.join(res.violated), 'TLC violates history independence with a statement cache keyed by value',
                          {'kind': 'mc', 'behaviour': res.behaviour[:3000]}, 'MC')
        res = ctx.tlc('MC_BQLSession', 'MC_BQLSession_hostcache.cfg', leg='MC-nonvacuity', expect_violation='ResultInv', workers=1)
        if res.behaviour.count('<ExecuteText(') != 2:
            raise MachineryError('the counterexample of the host-equality statement cache is not execute(text); execute(text)')
        res = ctx.tlc('MC_BQLSession', 'MC_BQLSession_fold.cfg', leg='MC-fold', workers=1)
        if res.violated:
            ctx.violation('spec:fold:' + ','.join(res.violated), 'folding changes the value of an expression',
                          {'kind': 'mc', 'behaviour': res.behaviour[:3000]}, 'MC')
        # non-vacuity of the folding law over the connectives: `a constant FALSE decides an AND wherever it stands`
        ctx.tlc('MC_BQLSession', 'MC_BQLSession_fold_absorb.cfg', leg='MC-nonvacuity', expect_violation='FoldLawAbsorb', workers=1)
        # non-vacuity of the scan law (MC_BQLSession_fold.cfg checks it for the row-by-row evaluation and for a memo keyed
        # by the cells as BQL values): a per-row memo keyed as the host language compares the cells -- TRUE, then 1, in one
        # column -- gives a later row the value of an earlier one
        ctx.tlc('MC_BQLSession', 'MC_BQLSession_scan_host.cfg', leg='MC-nonvacuity', expect_violation='ScanLawHost', workers=1)
    if not only or 'S2C' in only:
        s2c(ctx)
    if not only or 'C2S' in only:
        c2s(ctx)
    ctx.exhaustive = False


def replay(ctx, rep):
    case = rep['case']
    if case.get('kind') == 'history':
        sess = Session(ctx, case['setup'], ledger=False)
        before = len(ctx.violations) + sum(v['n'] for v in ctx.known_hits.values())
        with FastParse(real_every=1):
            replay_history(ctx, sess, case['hist'], 0, None)
        after = len(ctx.violations) + sum(v['n'] for v in ctx.known_hits.values())
        for h in case['hist']:
            print('replay:', h['op'], sess.stmts[h['s'] - 1].text, [case['setup']['params'][h['s'] - 1][i - 1] for i in h['ps']])
        print('replay:', 'MISMATCH reproduced' if after > before else 'no mismatch')
        return 1 if after > before else 0
    if case.get('kind') == 'c2s' and case['event']['op'] in ('execute', 'text', 'many'):
        # re-run the recorded history on one connection, then the last call alone on a fresh one: the two must agree
        def last_call(sess, events):
            objs, out = {}, None
            nmod = len(sess.stmts)
            for ev in events:
                s = ev.get('s', 0) - 1
                if ev['op'] == 'parse':
                    objs[s] = sess.stmts[s].fresh() if s < nmod else copy.deepcopy(sess.ledger_stmts[s - nmod][1])
                elif ev['op'] in ('execute', 'text', 'many'):
                    ps = [i - 1 for i in ev['ps']]
                    if s < nmod:
                        out = bm.project(sess.call(objs, ev['op'], s, ps), sess.st)
                    else:
                        text, tree, plist = sess.ledger_stmts[s - nmod]
                        try:
                            if ev['op'] == 'execute':
                                sess.cursor.execute(objs[s], plist[ps[0]])
                            elif ev['op'] == 'text':
                                sess.cursor.execute(text, plist[ps[0]])
                            else:
                                sess.cursor.executemany(text, [plist[i] for i in ps])
                            out = {'ok': True, 'hash': digest(sess.cursor.description, sess.cursor.fetchall())}
                        except Exception as ex:  # noqa
                            out = {'ok': False, 'exc': type(ex).__name__, 'msg': str(ex)[:120]}
            return out
        events = case['history']

        def session():
            sess = Session(ctx, case['setup'])
            if events[-1].get('epoch'):         # recorded after #h had been replaced
                sess.new_epoch()
            return sess
        a = last_call(session(), events)
        last = dict(events[-1], op='text' if events[-1]['op'] == 'execute' else events[-1]['op'])
        b = last_call(session(), [last])
        a.pop('msg', None), b.pop('msg', None)
        print('replay: after the history :', json.dumps(a)[:300])
        print('replay: alone, fresh      :', json.dumps(b)[:300])
        bad = a != b or (bool(case['spec'].get('matches')) and not a['ok'])     # matching parameters never fail
        print('replay:', 'MISMATCH reproduced' if bad else 'no mismatch')
        return 1 if bad else 0
    if case.get('kind') == 'c2s' and case['event'].get('process') == 'new':
        # the statement as the ONLY one a new process executes vs after the others, in the recorded order, in another
        ev = case['event']
        ntxn = ctx.pick(40, 120)
        stmts = ledger_statements(c08mod.example_ledger(ctx.seed, ntxn)[0])
        k, i = ev['s'] - 1 - len(case['setup']['stmts']), ev['ps'][0] - 1
        alone = collect_pristine(start_pristine(ctx, ntxn, True, [k, i]))
        after = [r for r in collect_pristine(start_pristine(ctx, ntxn, ev.get('order') != 'forwards')) if r[:2] == [k, i]]
        print('replay:', stmts[k][0], repr(stmts[k][1][i]))
        print('replay: the only statement of a new process           :', json.dumps(alone[0][2])[:200])
        print('replay: in a new process after the others (%s) :' % ev.get('order', 'backwards'), json.dumps(after[0][2])[:200])
        bad = alone[0][2] != after[0][2]
        if not bad:
            other = [r for r in collect_pristine(start_pristine(ctx, ntxn, ev.get('order') == 'forwards')) if r[:2] == [k, i]]
            print('replay: in a new process after the others (other order):', json.dumps(other[0][2])[:200])
            bad = alone[0][2] != other[0][2]
        print('replay:', 'MISMATCH reproduced' if bad else 'no mismatch')
        return 1 if bad else 0
    if case.get('kind') == 'c2s' and case['event'].get('literal'):
        sess = Session(ctx, case['setup'])
        ev = case['event']
        k, i = ev['s'] - 1 - len(sess.stmts), ev['ps'][0] - 1
        a, b = sess.fresh_ledger(k, i), sess.literal_ledger(k, i)[1]
        print('replay: with parameters :', sess.ledger_stmts[k][0], repr(sess.ledger_stmts[k][2][i]), json.dumps(a)[:200])
        print('replay: as literals     :', ev['literal'], json.dumps(b)[:200])
        print('replay:', 'MISMATCH reproduced' if a != b else 'no mismatch')
        return 1 if a != b else 0
    if case.get('kind') == 'fold':
        import beanquery
        before = len(ctx.violations) + sum(v['n'] for v in ctx.known_hits.values())
        for n in (0, 1):            # through the parser + with parameters, and hand-built
            fold_case(ctx, beanquery.Connection(), bm.StrTab(), case, n)
        after = len(ctx.violations) + sum(v['n'] for v in ctx.known_hits.values())
        print('replay:', case['text'], '-- specification:', case['v'])
        print('replay:', 'MISMATCH reproduced' if after > before else 'no mismatch')
        return 1 if after > before else 0
    if case.get('kind') == 'foldscan':
        import beanquery
        from beanquery.parser import ast
        from harness import tables as ht
        st = bm.StrTab()
        conn = beanquery.Connection()
        tree = ast.Select([ast.Target(build_x(case['e2'], st), 'r')], ast.Table('ks'), None, None, None, None, None, None)
        conn.tables['ks'] = ht.HarnessTable('ks', [('k%d' % i, t) for i, t in enumerate(case['types'])],
                                            [tuple(bm.to_py(list(c), st) for c in row) for row in case['rows']])
        obs = bm.project(bm.run_raw(conn, tree), st)
        print('replay: SELECT %s AS r FROM #ks, rows of #ks:' % case['shape'], case['rows'])
        print('replay: row %d holds the constants of %s -- specification: %s' % (case['row'], case['text'], case['v']))
        print('replay: the scan returns', json.dumps(obs)[:300])
        bad = not obs['ok'] or len(obs['rows']) != len(case['rows']) or obs['rows'][case['row'] - 1] != [case['v']]
        print('replay:', 'MISMATCH reproduced' if bad else 'no mismatch')
        return 1 if bad else 0
    if case.get('kind') == 'scan' or (case.get('kind') == 'c2s' and case['event'].get('scan') is not None):
        # the scan once more on a connection of its own: every row vs the expression folded over that row's constants
        sess = Session(ctx, {'tabs': {}, 'stmts': [], 'params': []})
        before = len(ctx.violations) + sum(v['n'] for v in ctx.known_hits.values())
        scan_folding(ctx, sess.conn, only=case['scan'] if case.get('kind') == 'scan' else case['event']['scan'], verbose=True)
        after = len(ctx.violations) + sum(v['n'] for v in ctx.known_hits.values())
        print('replay:', 'MISMATCH reproduced' if after > before else 'no mismatch')
        return 1 if after > before else 0
    if case.get('kind') == 'ledger':
        print('replay: ledger statement', case.get('ledger'), case.get('params'))
        print('replay: compare its result after other statements on one connection with a fresh connection; re-run the check')
        return 2
    if case.get('kind') in ('richfold', 'impurefold'):

        import beanquery
        from harness import tables as ht  # noqa
        print('replay: folded  ', case.get('folded_text') or case.get('a'))
        print('replay: per row ', case.get('perrow_text') or case.get('b'))
        if case.get('params_text'):
            print('replay: params  ', case['params_text'], case.get('params'))
        print('replay: re-run the check (needs the ledger / the one-row table)')
        return 2
    print('replay: case kind not replayable standalone; re-run the check')
    return 2

