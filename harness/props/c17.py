"""C17 -- numberify decomposes amounts per currency without losing or inventing quantities (spec/Numberify.tla).

legs: MC   TLC checks that every result of the MECHANISM (census pass per column, converters sorted by (count,
           currency) descending, per-row conversion with half-even quantisation, NULL for zero) is accepted by the
           DECLARATIVE statement (Accepts) and satisfies the named sub-properties (no currency dropped, per-row
           per-currency sums, nothing invented, plain columns / rows untouched, frequency order) over every table
           of the input space x formatter off/on -- tables with two columns of one name (and datatype) included:
           the statement is positional, column names need not be distinct.  Non-vacuity: the mechanism as shipped
           BEFORE fix e9990d2 (a NULL cell in an Inventory column raises) must violate Total; six deliberately broken
           mechanisms (among them: a converter finds its column by looking its description up; the converters
           quantise through the display context with its default setting instead of through the formatter given) must
           be rejected.  A formatter is a display context (most common / maximum digits per currency) plus the precision
           setting it was built for; the property is stated over the display precisions of THAT formatter.
      S2C  TLC emits every table of a replay space with the set of acceptable output descriptions and, per row
           and currency, the set of acceptable cells.  The driver builds real Amount / Position / Inventory values
           and beanquery.Column descriptions, calls numberify_results(columns, rows, dformat) and compares by
           membership (formatters built for the default and for the maximum precision, with any rendering settings,
           from contexts whose two precisions differ); a subset is also built as a ledger and taken through run_query(.., numberify=True) and,
           as a text ledger, through BQLShell (`.set numberify true`, csv into a buffer) -- one statement on a fresh
           shell, and SESSIONS on one shell object: statement, the ledger file rewritten (another table; the same
           currencies written with other numbers of digits: Gen_Numberify_shell2.cfg), `.reload`, statement, ...,
           numberify switched on and off in between; every statement is judged against what TLC emitted for its
           table and the formatter of the ledger loaded WHEN THE STATEMENT RUNS.
           The session itself is model-checked too (NumberifySession.tla): the formatter given to a statement is the
           one of the ledger then loaded when the shell builds it per statement or per load; built once per shell
           object it is rejected (non-vacuity).
      C2S  random tables (plain + amount-like columns, many currencies, several lots per currency, NULL cells,
           empty inventories, zero amounts, equally named / equally described columns, display context built from
           the values, formatter built for either precision setting) and random ledgers queried through run_query (PIVOT BY included: NULL inventory cells; one
           alias on several targets) are recorded as ndjson and every line is
           judged by Accepts inside TLC (Trace_Numberify).
"""
import csv
import datetime
import io
import json
import warnings
from decimal import Decimal
from fractions import Fraction

from harness.core import MachineryError

KEY_INV_NULL = 'numberify:inventory-null-cell'
DATE0 = datetime.date(2020, 1, 1)
MAXABS = 20000          # |value| bound of the model's rational arithmetic (products stay below 2^31)
MAXDIG = 4              # fractional digits
AMT = ('Amount', 'Position', 'Inventory')


def _bc():
    from beancount.core.amount import Amount
    from beancount.core.position import Position, Cost
    from beancount.core.inventory import Inventory
    return Amount, Position, Cost, Inventory


def typemap():
    Amount, Position, Cost, Inventory = _bc()
    return {'int': int, 'str': str, 'Decimal': Decimal, 'date': datetime.date, 'bool': bool,
            'Amount': Amount, 'Position': Position, 'Inventory': Inventory}


def typename(t):
    for k, v in typemap().items():
        if v is t:
            return k
    return getattr(t, '__name__', repr(t))


class OutOfDomain(Exception):
    pass


# ---- numbers ----------------------------------------------------------------------------------------
def rat(d):
    """Decimal -> reduced [num, den]; None if outside the model's domain"""
    if not isinstance(d, Decimal) or not d.is_finite():
        return None
    f = Fraction(d)
    if abs(f) >= MAXABS or 10 ** MAXDIG % f.denominator != 0:
        return None
    return [f.numerator, f.denominator]


def dec(nd):
    return Decimal(nd[0]) / Decimal(nd[1])


# ---- abstract <-> real values -----------------------------------------------------------------------
def real_cell(cell, ty):
    """abstract input cell (as emitted by TLC) -> Python value"""
    Amount, Position, Cost, Inventory = _bc()
    if cell['isnull']:
        return None

    def pos(lot):
        cost = Cost(dec(lot['k']), 'USD', DATE0, None) if lot['k'] else None
        return Position(Amount(dec(lot['n']), lot['c']), cost)
    if ty == 'Amount':
        lot = cell['lots'][0]
        return Amount(dec(lot['n']), lot['c'])
    if ty == 'Position':
        return pos(cell['lots'][0])
    inv = Inventory()
    for lot in cell['lots']:
        inv.add_position(pos(lot))
    return inv


def plain_value(tok, ty):
    if ty == 'int':
        return tok
    if ty == 'str':
        return 's%d' % tok
    if ty == 'Decimal':
        return Decimal(tok) / 8          # e.g. 2.625: a plain decimal column must not be touched (nor quantised)
    raise MachineryError('no plain value of type %s' % ty)


def lot_of(units, cost):
    n = rat(units.number)
    if n is None:
        raise OutOfDomain('number %r' % (units.number,))
    k = []
    if cost is not None:
        k = rat(cost.number) if cost.number is not None else None
        if k is None:
            k = [1, 1]      # the model never looks at a cost beyond its presence
    return {'n': n, 'c': units.currency, 'k': k}


def lot_key(lot):
    return (lot['c'], lot['k'], lot['n'])


class Tokens:
    """plain values <-> small integers (identity of a plain cell = same type and same repr); None is 0"""

    def __init__(self):
        self.t = {}

    @staticmethod
    def key(v):
        return (type(v).__name__, repr(v))

    def tok(self, v):
        if v is None:
            return 0
        return self.t.setdefault(self.key(v), len(self.t) + 1)

    def lookup(self, v):
        if v is None:
            return 0
        return self.t.get(self.key(v), -1)


def proj_in_cell(v, ty, tokens):
    """Python value of an input cell -> abstract input cell"""
    if ty not in AMT:
        return {'tok': tokens.tok(v), 'isnull': 1 if v is None else 0, 'lots': []}
    if v is None:
        return {'tok': -1, 'isnull': 1, 'lots': []}
    if ty == 'Amount':
        lots = [lot_of(v, None)]
    elif ty == 'Position':
        lots = [lot_of(v.units, v.cost)]
    else:
        lots = sorted((lot_of(p.units, p.cost) for p in v), key=lot_key)
    return {'tok': -1, 'isnull': 0, 'lots': lots}


def proj_out_cell(v, tokens):
    if v is None:
        num = []
    elif isinstance(v, Decimal):
        num = rat(v) or [0, 0]        # [0, 0] is no rational: the specification rejects it
    else:
        num = [0, 0]
    return {'tok': tokens.lookup(v), 'num': num}


def proj_desc(desc):
    import beanquery
    out = []
    for c in desc:
        ok = isinstance(c, beanquery.Column)
        out.append({'name': c.name if ok else repr(c), 'ty': typename(c.datatype) if ok else 'MALFORMED'})
    return out


def proj_table(desc, rows, tokens):
    cols = proj_desc(desc)
    return cols, [[proj_in_cell(v, c['ty'], tokens) for c, v in zip(cols, row)] for row in rows]


# ---- formatters -------------------------------------------------------------------------------------
PRECS = ('most_common', 'maximum')


def make_dcontext(dc, fixed=False):
    """a display context that writes currency c mostly with dc[c][1] fractional digits and at most with dc[c][2]
    (an entry [c, d] means both are d); a currency not listed stays unknown to it.  fixed: currencies whose two
    numbers agree get a fixed precision (DisplayContext.set_fixed_precision) instead of learned numbers"""
    from beancount.core.display_context import DisplayContext
    ctx = DisplayContext()
    for ent in dc:
        cur, common = ent[0], ent[1]
        most = ent[2] if len(ent) > 2 else common
        if most < common:
            raise MachineryError('no display context has more common digits than maximum digits: %r' % (ent,))
        if most == common:
            if fixed:
                ctx.set_fixed_precision(cur, common)
            else:
                ctx.update(Decimal(1).scaleb(-common), cur)
        else:
            ctx.update(Decimal(1).scaleb(-common), cur)
            ctx.update(Decimal(2).scaleb(-common), cur)
            ctx.update(Decimal(1).scaleb(-most), cur)
    return ctx


def build_formatter(ctx, prec, flavour=0):
    """the formatter of display context ctx for precision setting prec; flavour varies the settings of build()
    that concern rendering only (alignment, commas, reserved width)"""
    from beancount.core.display_context import Align, Precision
    if prec not in PRECS:
        raise MachineryError('precision setting %r' % (prec,))
    kw = {}
    if prec == 'maximum':
        kw['precision'] = Precision.MAXIMUM
    elif flavour % 2:
        kw['precision'] = Precision.MOST_COMMON
    if flavour % 4 == 1:
        kw.update(alignment=Align.RIGHT, commas=True)
    elif flavour % 4 == 2:
        kw.update(alignment=Align.DOT, reserved=2)
    elif flavour % 4 == 3:
        kw.update(commas=True)
    return ctx.build(**kw)


def formatter_of(p, flavour=0):
    """the real formatter of an emitted / recorded case: p['dc'] + p['prec'] (older replay files: p['q'] only)"""
    dc = p.get('dc') or p['q']
    prec = p.get('prec', 'most_common')
    dformat = build_formatter(make_dcontext(dc, fixed=flavour % 8 >= 4), prec, flavour)
    curs = [e[0] for e in dc]
    if q_of(dformat, curs) != sorted(p['q']) or shown_digits(dformat, curs) != sorted(p['q']):
        raise MachineryError('the formatter built for %r / %s has the display precisions %r (renders %r), wanted %r' % (
            dc, prec, q_of(dformat, curs), shown_digits(dformat, curs), p['q']))
    return dformat


def shown_digits(dformat, currencies):
    """the number of fractional digits the formatter renders each currency with (cross-check of q_of)"""
    out = []
    for c in sorted(currencies):
        text = dformat.format(Decimal(1), c).strip()
        out.append([c, len(text.partition('.')[2])])
    return out


def prec_of(dformat):
    from beancount.core.display_context import Precision
    if dformat.precision is Precision.MOST_COMMON:
        return 'most_common'
    if dformat.precision is Precision.MAXIMUM:
        return 'maximum'
    raise OutOfDomain('precision setting %r' % (dformat.precision,))


def dc_of(dformat, currencies):
    """the display context a formatter was built from, per currency [c, most common digits, maximum digits]: an
    INPUT of the property, read through beancount's API; a currency unknown to the context is not listed"""
    from beancount.core.display_context import Precision
    out = []
    for c in sorted(currencies):
        cc = dformat.dcontext.ccontexts.get(c)
        if cc is None:
            continue
        common, most = cc.get_fractional(Precision.MOST_COMMON), cc.get_fractional(Precision.MAXIMUM)
        if common is None and most is None:
            continue
        if common is None or most is None:
            raise OutOfDomain('half-known currency %s' % c)
        out.append([c, common, most])
    return out


def q_of(dformat, currencies):
    """the formatter's precision per currency (the spec derives the same from dc_of / prec_of by FormatterQ)"""
    out = []
    for c in sorted(currencies):
        cc = dformat.dcontext.ccontexts.get(c)
        d = cc.get_fractional(dformat.precision) if cc is not None else None
        if d is not None:
            if d > MAXDIG:
                raise OutOfDomain('precision %d' % d)
            out.append([c, d])
    return out


def case_of(p, route):
    return {'route': route, 'cols': p['cols'], 'rows': p['rows'], 'fmt': p['fmt'], 'q': p['q'],
            'dc': p.get('dc') or p['q'], 'prec': p.get('prec', 'most_common'), 'descs': p['descs'], 'cells': p['cells']}


def currencies_of(rows):
    return {lot['c'] for row in rows for cell in row for lot in cell['lots']}


def has_null_inventory(cols, rows):
    return any(c['ty'] == 'Inventory' and any(r[j]['isnull'] for r in rows) for j, c in enumerate(cols))


def exc_key(cols, rows, ex_name):
    if ex_name == 'AttributeError' and has_null_inventory(cols, rows):
        return KEY_INV_NULL
    return 'numberify:raised:%s' % ex_name


# ---- S2C: compare an observed output with the expectation TLC emitted -----------------------------------
def num_py(v):
    """observed Python cell of a new column -> [] | [n, d] | None (not a number of the model)"""
    if v is None:
        return []
    if isinstance(v, Decimal):
        return rat(v)
    return None


def compare_expected(ctx, p, route, odesc, orows, plain_eq, num_of=num_py, case=None):
    """odesc: [[name, ty|None]..] (ty None = not observable on this route); orows: raw observed rows;
    plain_eq(r, j, raw) decides identity of a plain cell with input cell (r, j); num_of(raw) projects a number."""
    case = case or case_of(p, route)
    kind = '+'.join(c['ty'] for c in p['cols'] if c['ty'] in AMT)
    # the acceptable descriptions with the observed names (and types); equally named input columns can make several
    # of them agree on the names while differing in which input column owns an output column: the observation is
    # acceptable iff it fits one of them
    cands = [d for d in p['descs']
             if len(d) == len(odesc) and all(x[0] == o[0] and (o[1] is None or x[1] == o[1]) for x, o in zip(d, odesc))]
    if not cands:
        ctx.violation('numberify:%s:description:%s' % (route, kind), 'output description is none of the acceptable ones '
                      '(names `name (CUR)`, frequency order, no currency dropped, plain columns in place)', case,
                      'S2C', p['descs'][:4], odesc)
        return False
    if len(orows) != len(p['rows']):
        ctx.violation('numberify:%s:row-count' % route, 'row count changed', case, 'S2C', len(p['rows']), len(orows))
        return False
    for orow in orows:
        if len(orow) != len(odesc):
            ctx.violation('numberify:%s:row-width' % route, 'row width differs from the description', case, 'S2C',
                          len(odesc), len(orow))
            return False
    first = None
    for match in cands:
        bad = _cell_mismatches(p, route, match, orows, plain_eq, num_of)
        if not bad:
            return True
        if first is None:
            first = bad
    for key, clause, expected, observed in first:
        ctx.violation(key, clause, case, 'S2C', expected, observed)
    return False


def _cell_mismatches(p, route, match, orows, plain_eq, num_of):
    """-> [(key, clause, expected, observed)..]: the cells of the observed rows that do not fit description `match`"""
    bad = []
    for r, orow in enumerate(orows):
        for k, (name, _ty, j, cur) in enumerate(match):
            if cur == '':
                if not plain_eq(r, j - 1, orow[k]):
                    bad.append(('numberify:%s:plain-cell' % route, 'a plain cell was changed',
                                'row %d column %s (input column %d) untouched' % (r, name, j), repr(orow[k])))
                continue
            acc = dict((c, a) for c, a in p['cells'][r][j - 1])[cur]
            v = num_of(orow[k])
            if v is None or v not in acc:
                bad.append(('numberify:%s:cell:%s%s' % (route, p['cols'][j - 1]['ty'], fmt_tag(p)),
                            'new cell is not the units of the currency in the original value (quantised when a '
                            'formatter is given; NULL or zero when absent)',
                            {'row': r, 'column': name, 'input_column': j, 'acceptable': acc}, repr(orow[k])))
    return bad


def fmt_tag(p):
    if not p['fmt']:
        return ''
    return ':fmt' if p.get('prec', 'most_common') == 'most_common' else ':fmt-' + p['prec']


def build_direct(p):
    import beanquery
    tm = typemap()
    desc = tuple(beanquery.Column(c['name'], tm[c['ty']]) for c in p['cols'])
    rows = []
    for row in p['rows']:
        rows.append(tuple(real_cell(cell, c['ty']) if c['ty'] in AMT else plain_value(cell['tok'], c['ty'])
                          for c, cell in zip(p['cols'], row)))
    return desc, rows


def same_table(p, desc, rows):
    """are the real values exactly the abstract ones? (e.g. no two lots merged by the Inventory)"""
    cols, prows = proj_table(desc, rows, Tokens())
    if [c['ty'] for c in cols] != [c['ty'] for c in p['cols']] or len(prows) != len(p['rows']):
        return False
    for prow, arow in zip(prows, p['rows']):
        for c, got, cell in zip(cols, prow, arow):
            if c['ty'] in AMT and (got['isnull'] != cell['isnull'] or got['lots'] != sorted(cell['lots'], key=lot_key)):
                return False
    return True


def identical(got, want):
    return got is want or (type(got) is type(want) and got == want and repr(got) == repr(want))


def s2c_direct(ctx, p, n=0):
    from beanquery.numberify import numberify_results
    desc, rows = build_direct(p)
    if n % 50 == 0 and not same_table(p, desc, rows):
        raise MachineryError('the real values built for an emitted case are not the abstract ones: %r' % (p['rows'],))
    if n % 3 == 1:
        rows = [list(r) for r in rows]
    elif n % 3 == 2:
        desc = list(desc)
    dformat = formatter_of(p, n // 3) if p['fmt'] else None
    try:
        if p['fmt'] or n % 2:
            odesc, orows = numberify_results(desc, rows, dformat)
        else:
            odesc, orows = numberify_results(desc, rows)
    except Exception as ex:  # noqa
        ctx.violation(exc_key(p['cols'], p['rows'], type(ex).__name__), 'numberify_results raised %s: %s' % (
            type(ex).__name__, ex), case_of(p, 'direct'), 'S2C', 'a result', type(ex).__name__)
        return False
    od = [[x['name'], x['ty']] for x in proj_desc(odesc)]
    return compare_expected(ctx, p, 'direct', od, orows, lambda r, j, got: identical(got, rows[r][j]))


# ---- S2C through a ledger: run_query(numberify=True) -------------------------------------------------------
def route_shape(p):
    cols = p['cols']
    return len(cols) == 3 and [c['name'] for c in cols] == ['i', 'x', 's'] and cols[1]['ty'] in AMT


def routable(p):
    """cases a query over a ledger can produce: layout i, x, s; NULL only where BQL yields NULL (a missing price)"""
    if not route_shape(p):
        return False
    if p['cols'][1]['ty'] != 'Amount' and any(r[1]['isnull'] for r in p['rows']):
        return False
    return True


QUERIES = {
    'Amount': 'SELECT lineno AS i, price AS x, account AS s ORDER BY account',
    'Position': 'SELECT lineno AS i, position AS x, account AS s ORDER BY account',
    'Inventory': "SELECT count(*) AS i, sum(position) AS x, account AS s WHERE account ~ 'Assets:R' GROUP BY account "
                 "ORDER BY account",
}


def ledger_rows(p):
    """-> per row r: (account, [(units, cost, price)...], expected plain i) with real beancount values"""
    Amount, Position, Cost, Inventory = _bc()
    ty = p['cols'][1]['ty']
    out = []
    for r, row in enumerate(p['rows'], 1):
        cell = row[1]
        acct = 'Assets:R%d' % r
        posts = []
        if ty == 'Amount':
            posts.append((Amount(Decimal(1), 'ZZZ'), None, real_cell(cell, 'Amount')))
            i = 100 + r
        elif ty == 'Position':
            pos = real_cell(cell, 'Position')
            posts.append((pos.units, pos.cost, None))
            i = 100 + r
        else:
            for lot in cell['lots']:
                pos = real_cell({'isnull': 0, 'lots': [lot]}, 'Position')
                posts.append((pos.units, pos.cost, None))
            if not posts:           # an empty inventory: two lots that cancel
                posts = [(Amount(Decimal(1), 'ZZZ'), None, None), (Amount(Decimal(-1), 'ZZZ'), None, None)]
            i = len(posts)
        out.append((acct, posts, i))
    return out


def entries_of(lrows):
    from beancount.core import data
    entries = []
    for r, (acct, posts, _i) in enumerate(lrows, 1):
        meta = data.new_metadata('<c17>', 100 + r)
        t = data.Transaction(meta, DATE0, '*', None, 'row %d' % r, data.EMPTY_SET, data.EMPTY_SET, [])
        for units, cost, price in posts:
            t.postings.append(data.Posting(acct, units, cost, price, None, {'filename': '<c17>', 'lineno': 100 + r}))
        entries.append(t)
    return entries


def options_with(dcontext):
    from beancount.parser import options as bopts
    o = dict(bopts.OPTIONS_DEFAULTS)
    o['dcontext'] = dcontext
    return o


_PARSED = {}


def parsed(text):
    from beanquery import parser
    if text not in _PARSED:
        _PARSED[text] = parser.parse(text)
    return _PARSED[text]


def s2c_run_query(ctx, p):
    import beanquery
    from beanquery.query import run_query
    ty = p['cols'][1]['ty']
    lrows = ledger_rows(p)
    entries = entries_of(lrows)
    # run_query builds the formatter itself, with the defaults of build()
    if p.get('prec', 'most_common') != 'most_common':
        raise MachineryError('run_query builds its formatter with the defaults: only most_common cases are routed')
    options = options_with(make_dcontext(p.get('dc') or p['q']))
    if q_of(options['dcontext'].build(), [e[0] for e in p['q']]) != sorted(p['q']):
        raise MachineryError('run_query route: display precisions are not the emitted ones: %r' % (p['q'],))
    text = QUERIES[ty]
    # the table the query yields must be the emitted one (otherwise the route, not the code, is at fault)
    conn = beanquery.connect('beancount:', entries=entries, errors=[], options=options)
    cur = conn.execute(parsed(text))
    if not same_table(p, cur.description, cur.fetchall()):
        raise MachineryError('run_query route did not rebuild the emitted table: %r' % (p['rows'],))
    if not p['fmt']:
        raise MachineryError('run_query always passes a formatter: only fmt = 1 cases are routed')
    try:
        odesc, orows = run_query(entries, options, text, numberify=True)
    except Exception as ex:  # noqa
        ctx.violation(exc_key(p['cols'], p['rows'], type(ex).__name__), 'run_query(numberify=True) raised %s: %s' % (
            type(ex).__name__, ex), case_of(p, 'run_query'), 'S2C', 'a result', type(ex).__name__)
        return False
    plain = [(i, acct) for acct, _posts, i in lrows]
    od = [[x['name'], x['ty']] for x in proj_desc(odesc)]
    return compare_expected(ctx, p, 'run_query', od, orows,
                            lambda r, j, got: identical(got, plain[r][0] if j == 0 else plain[r][1]))


# ---- S2C through a text ledger and the shell ------------------------------------------------------------------
def fmt_num(d):
    return format(d, 'f')


def ledger_text(p, calib):
    """a text ledger whose `sum(position) GROUP BY account` over Assets:R* is the emitted Inventory table; `calib`
    postings per currency pin the display precision the loader infers to the emitted Q"""
    lrows = ledger_rows(p)
    lines = ['option "booking_method" "NONE"', '2019-01-01 open Equity:Bal', '2019-01-01 open Equity:Cal']
    for acct, _p, _i in lrows:
        lines.append('2019-01-01 open %s' % acct)
    lines.append('2019-06-01 * "calibration of the display precisions"')
    for cur, digits in p['q']:
        for _ in range(calib):
            lines.append('  Equity:Cal  %s %s' % (fmt_num(Decimal(1).quantize(Decimal(1).scaleb(-digits))), cur))
        lines.append('  Equity:Bal  %s %s' % (fmt_num(Decimal(-calib).quantize(Decimal(1).scaleb(-digits))), cur))
    for r, (acct, posts, _i) in enumerate(lrows, 1):
        lines.append('2020-01-%02d * "row %d"' % (r, r))
        for units, cost, _price in posts:
            if cost is not None:
                lines.append('  %s  %s %s {%s %s, %s}' % (acct, fmt_num(units.number), units.currency,
                                                         fmt_num(cost.number), cost.currency, cost.date))
                lines.append('  Equity:Bal  %s %s' % (fmt_num(-units.number * cost.number), cost.currency))
            else:
                lines.append('  %s  %s %s' % (acct, fmt_num(units.number), units.currency))
                lines.append('  Equity:Bal  %s %s' % (fmt_num(-units.number), units.currency))
    return '\n'.join(lines) + '\n', lrows


def shell_routable(p):
    return (route_shape(p) and p['cols'][1]['ty'] == 'Inventory' and not any(r[1]['isnull'] for r in p['rows'])
            and all(lot['n'][0] > 0 for r in p['rows'] for lot in r[1]['lots']))


def _num_csv(s):
    s = s.strip()
    if s == '':
        return []
    try:
        return rat(Decimal(s))
    except Exception:  # noqa
        return None


def _shell_ready(sh, p, text):
    """the ledger the shell has loaded must be the generated one: it loads, the display precisions the loader infers
    are the emitted ones and the query yields the emitted table (otherwise the route, not the code, is at fault)"""
    if sh.context.errors:
        raise MachineryError('shell route: the generated ledger does not load: %r\n%s' % (sh.context.errors[:2], text))
    dformat = sh.context.options['dcontext'].build()
    if q_of(dformat, [c for c, _ in p['q']]) != sorted(p['q']):
        raise MachineryError('shell route: display precisions %r, wanted %r' % (q_of(dformat, [c for c, _ in p['q']]), p['q']))
    cur = sh.context.execute(parsed(QUERIES['Inventory']))
    if not same_table(p, cur.description, cur.fetchall()):
        raise MachineryError('shell route did not rebuild the emitted table: %r\n%s' % (p['rows'], text))


def _shell_statement(ctx, sh, out, p, lrows, route, case):
    """`.set numberify <fmt>` and the query on shell sh (whose loaded ledger is the one of case p); the csv written
    to `out` is compared with what TLC emitted for p"""
    out.seek(0)
    out.truncate()
    try:
        sh.onecmd('.set numberify %s' % ('true' if p['fmt'] else 'false'))
        if sh.settings.numberify is not bool(p['fmt']):
            ctx.violation('numberify:%s:setting' % route, '.set numberify did not change the setting', case, 'S2C')
            return False
        out.seek(0)
        out.truncate()
        sh.onecmd(QUERIES['Inventory'])
    except Exception as ex:  # noqa
        ctx.violation(exc_key(p['cols'], p['rows'], type(ex).__name__), 'shell query with numberify raised %s: %s' % (
            type(ex).__name__, ex), case, 'S2C', 'a rendered table', type(ex).__name__)
        return False
    table = list(csv.reader(io.StringIO(out.getvalue())))
    if not table:
        ctx.violation('numberify:%s:no-output' % route, 'nothing rendered', case, 'S2C')
        return False
    if not p['fmt']:
        # numberify off: the Inventory column is rendered as such, one column x
        if [h.strip() for h in table[0]] != ['i', 'x', 's'] or len(table) - 1 != len(p['rows']):
            ctx.violation('numberify:%s:off' % route, 'with numberify off the table is not rendered unchanged', case, 'S2C',
                          ['i', 'x', 's'], table[0])
            return False
        return True
    od = [[h, None] for h in table[0]]
    plain = [(str(i), acct) for acct, _posts, i in lrows]
    return compare_expected(ctx, p, route, od, table[1:],
                            lambda r, j, got: got.strip() == (plain[r][0] if j == 0 else plain[r][1]), _num_csv,
                            case=case)


def s2c_shell(ctx, p, n):
    """one fresh shell, one statement"""
    from beanquery import shell as bshell
    text, lrows = ledger_text(p, 12)
    path = ctx.path('c17_shell_%d.beancount' % (n % 4))
    with open(path, 'w') as f:
        f.write(text)
    out = io.StringIO()
    saved = warnings.showwarning
    try:
        sh = bshell.BQLShell(path, out, interactive=False, runinit=False, format='csv', numberify=False)
        _shell_ready(sh, p, text)
        return _shell_statement(ctx, sh, out, p, lrows, 'shell', case_of(p, 'shell'))
    finally:
        warnings.showwarning = saved


def stale_matters(p, prev_q):
    """would the output for p differ if it were quantised with the display precisions prev_q (those of a ledger the
    shell had loaded earlier) instead of its own?  some row holds, in one currency, a sum that is no multiple of
    10^-d for the smaller d of the two precisions of the currency, the two being different"""
    if not p['fmt'] or prev_q is None:
        return False
    mine, other = dict(map(tuple, p['q'])), dict(map(tuple, prev_q))
    for row in p['rows']:
        sums = {}
        for lot in row[1]['lots']:
            sums[lot['c']] = sums.get(lot['c'], 0) + Fraction(*lot['n'])
        for c, v in sums.items():
            a, b = mine.get(c), other.get(c)
            if a != b and (v * 10 ** min(x for x in (a, b) if x is not None)).denominator != 1:
                return True
    return False


def s2c_shell_session(ctx, steps, n, stats=None):
    """HISTORY ON ONE SHELL OBJECT: the shell is opened on the ledger of steps[0]; before every later statement the
    ledger FILE is rewritten (another table, and -- when the step comes from the other display context -- other
    display precisions of the same currencies) and the shell is told to `.reload` it (now and then the reload is
    repeated, or the statement is); numberify is switched as each step says.  Every statement's output is judged
    against what TLC emitted for (table, formatter of the ledger loaded when the statement runs)."""
    from beanquery import shell as bshell
    path = ctx.path('c17_session_%d.beancount' % (n % 4))
    out = io.StringIO()
    saved = warnings.showwarning
    ok = True
    sh = None
    last_on_q = None        # display precisions under which the last numberified statement of this shell ran
    try:
        for k, p in enumerate(steps):
            text, lrows = ledger_text(p, 12)
            with open(path, 'w') as f:
                f.write(text)
            how = 'open'
            if sh is None:
                sh = bshell.BQLShell(path, out, interactive=False, runinit=False, format='csv',
                                     numberify=bool(steps[0]['fmt']) if n % 2 else False)
            else:
                how = 'reload'
                sh.onecmd('.reload')
                if (n + k) % 5 == 0:
                    sh.onecmd('.reload')
            _shell_ready(sh, p, text)
            case = case_of(p, 'shell-session')
            case['session'] = [{f: q[f] for f in ('cols', 'rows', 'fmt', 'q', 'dc', 'prec', 'descs', 'cells')} for q in steps[:k + 1]]
            matters = stale_matters(p, last_on_q)
            for _rep in range(2 if (n + k) % 4 == 1 else 1):
                good = _shell_statement(ctx, sh, out, p, lrows, 'shell-session', case)
                ok = ok and good
                ctx.traces += 1
                if stats is not None:
                    stats['statements'] += 1
                    stats['after_' + how] += 1
                    stats['numberified'] += p['fmt']
                    stats['precisions_changed_and_matter'] += 1 if matters else 0
            if p['fmt']:
                last_on_q = p['q']
    finally:
        warnings.showwarning = saved
    return ok


def session_steps(rng, pools, length):
    """a session: tables drawn from the pools (one pool per display context), the context changing at most steps"""
    which = rng.randrange(len(pools))
    steps = []
    for _ in range(length):
        if rng.random() < 0.7:
            which = (which + 1 + rng.randrange(len(pools) - 1)) % len(pools) if len(pools) > 1 else which
        steps.append(rng.choice(pools[which]))
    return steps


# ---- C2S: recorders ---------------------------------------------------------------------------------
CURS = ['USD', 'EUR', 'CAD', 'JPY', 'AAPL', 'VTI', 'GLD', 'X', 'BTC', 'RSU.A']
PLAIN_TYPES = ['int', 'str', 'Decimal', 'date', 'bool']
NAMES = ['account', 'amount', 'balance', 'pos', 'n', 'd', 'flag', 'total', 'cost_basis', 'market value', 'x', 'y']


def rnd_number(rng, zero_ok=True, digs=(0, 0, 1, 2, 2, 2, 3, 4), mags=(9, 99, 1999)):
    if zero_ok and rng.random() < 0.10:
        return Decimal(0).scaleb(-rng.choice([0, 0, 2]))
    digits = rng.choice(digs)
    mag = rng.choice(mags)
    n = rng.randint(-mag * 10 ** digits, mag * 10 ** digits)
    if n == 0 and not zero_ok:
        n = 1
    return Decimal(n).scaleb(-digits)


def rnd_cost(rng, top=500):
    Amount, Position, Cost, Inventory = _bc()
    return Cost(Decimal(rng.randint(1, top)).scaleb(-rng.choice([0, 1, 2])), rng.choice(['USD', 'EUR']),
                DATE0 + datetime.timedelta(days=rng.randint(0, 3)), rng.choice([None, None, 'lot']))


def rnd_plain(rng, ty):
    if rng.random() < 0.1:
        return None
    if ty == 'int':
        return rng.randint(-5, 1000)
    if ty == 'str':
        return rng.choice(['Assets:Cash', 'Expenses:Food', '', 'x (USD)', 'a,b', 'Income:Salary'])
    if ty == 'Decimal':
        return rnd_number(rng)
    if ty == 'date':
        return DATE0 + datetime.timedelta(days=rng.randint(0, 400))
    return rng.random() < 0.5


def rnd_table(rng):
    """-> (desc, rows, dformat|None): a random result table with real values"""
    import beanquery
    from beancount.core.display_context import DisplayContext
    Amount, Position, Cost, Inventory = _bc()
    tm = typemap()
    pool = rng.sample(CURS, rng.randint(1, 7))
    weights = [rng.choice([1, 1, 2, 5]) for _ in pool]
    ncols = rng.randint(1, 6)
    names = rng.sample(NAMES, ncols)
    tys = [rng.choice(AMT) if rng.random() < 0.55 else rng.choice(PLAIN_TYPES) for _ in range(ncols)]
    if not any(t in AMT for t in tys) and rng.random() < 0.9:
        tys[rng.randrange(ncols)] = rng.choice(AMT)
    if ncols > 1 and rng.random() < 0.3:
        # equally named columns (BQL: `SELECT units(position) AS amt, cost(position) AS amt`), mostly of one datatype
        # too: their descriptions are then equal although their contents differ
        for _k in range(rng.choice([1, 1, 2])):
            i, j = rng.sample(range(ncols), 2)
            names[j] = names[i]
            if rng.random() < 0.75:
                tys[j] = tys[i]
    nrows = rng.choice([0, 1, 2, 3, 3, 4, 5, 6, 8, 12])
    inv_null_ok = rng.random() < 0.5           # NULL cells in Inventory columns (raised AttributeError before e9990d2)
    pnull = [rng.choice([0, 0, 0.15, 0.5]) for _ in tys]
    dc = DisplayContext()
    skip_cur = rng.choice(pool) if rng.random() < 0.3 else None

    def cur():
        return rng.choices(pool, weights)[0]

    def upd(number, c):
        if c != skip_cur:
            dc.update(number, c)

    def amount():
        a = Amount(rnd_number(rng), cur())
        upd(a.number, a.currency)
        return a

    def position(zero_ok=True):
        u = Amount(rnd_number(rng, zero_ok), cur())
        upd(u.number, u.currency)
        c = rnd_cost(rng) if rng.random() < 0.4 else None
        if c is not None:
            upd(c.number, c.currency)
        return Position(u, c)
    rows = []
    for _ in range(nrows):
        row = []
        for j, ty in enumerate(tys):
            if ty not in AMT:
                row.append(rnd_plain(rng, ty))
            elif rng.random() < pnull[j] and (ty != 'Inventory' or inv_null_ok):
                row.append(None)
            elif ty == 'Amount':
                row.append(amount())
            elif ty == 'Position':
                row.append(position())
            else:
                inv = Inventory()
                for _k in range(rng.choice([0, 1, 1, 2, 3, 5, 8])):
                    p = position(zero_ok=False)
                    if rng.random() < 0.2 and not inv.is_empty():       # another lot of a currency already held
                        q = rng.choice(list(inv))
                        p = Position(Amount(p.units.number, q.units.currency), p.cost)
                    if rng.random() < 0.08 and not inv.is_empty():      # a lot cancelling one already held
                        q = rng.choice(list(inv))
                        p = Position(Amount(-q.units.number, q.units.currency), rnd_cost(rng) if rng.random() < 0.5 else q.cost)
                    inv.add_position(p)
                row.append(inv)
        rows.append(tuple(row) if rng.random() < 0.5 else row)
    desc = [beanquery.Column(n, tm[t]) for n, t in zip(names, tys)]
    if rng.random() < 0.5:
        # one description object per (name, datatype), as a caller that interns its descriptions would pass
        seen = {}
        desc = [seen.setdefault((c.name, c.datatype), c) for c in desc]
    # the formatter, when one is given: built for either precision setting (the context has seen every number of the
    # table: the most common and the maximum number of digits of a currency often differ), any rendering settings
    dformat = None
    if rng.random() < 0.6:
        dformat = build_formatter(dc, rng.choice(['most_common', 'most_common', 'maximum']), rng.randrange(4))
    return tuple(desc), rows, dformat


def record_line(f, cid, route, desc, rows, dformat, call):
    """project the input, perform the call, project the output; -> the event written (None if out of domain)"""
    tokens = Tokens()
    try:
        cols, prow = proj_table(desc, rows, tokens)
        q, dc, prec = [], [], 'most_common'
        if dformat is not None:
            curs = currencies_of(prow)
            q, dc, prec = q_of(dformat, curs), dc_of(dformat, curs), prec_of(dformat)
            if [e[0] for e in q] != [e[0] for e in dc]:
                raise MachineryError('formatter read inconsistently: %r / %r' % (q, dc))
    except OutOfDomain:
        return None
    # q (the display precisions of the formatter) is informative: the specification derives them from dc and prec
    ev = {'id': cid, 'route': route, 'fmt': 1 if dformat is not None else 0, 'q': q, 'dc': dc, 'prec': prec,
          'cols': cols, 'rows': prow, 'exc': '', 'ocols': [], 'orows': []}
    try:
        odesc, orows = call()
        ev['ocols'] = proj_desc(odesc)
        ev['orows'] = [[proj_out_cell(v, tokens) for v in orow] for orow in orows]
    except Exception as ex:  # noqa
        ev['exc'] = type(ex).__name__
        ev['msg'] = str(ex)[:200]
    f.write(json.dumps(ev) + '\n')
    return ev


def rnd_ledger(rng):
    """-> (entries, options): a random ledger built from directives (no booking, no validation: any lot goes)"""
    from beancount.core import data
    from beancount.core.display_context import DisplayContext
    Amount, Position, Cost, Inventory = _bc()
    pool = rng.sample(CURS, rng.randint(1, 5))
    accounts = ['Assets:A%d' % k for k in range(1, rng.randint(2, 5))]
    dc = DisplayContext()
    entries = []
    for t in range(rng.randint(1, 9)):
        date = datetime.date(rng.choice([2019, 2020, 2020, 2021]), rng.randint(1, 12), rng.randint(1, 28))
        txn = data.Transaction(data.new_metadata('<c17>', 10 + t), date, '*', None, 't%d' % t, data.EMPTY_SET,
                               data.EMPTY_SET, [])
        for k in range(rng.randint(1, 4)):
            # cost(position) multiplies: keep products within the model's 4 fractional digits / magnitude
            units = Amount(rnd_number(rng, rng.random() < 0.3, (0, 0, 1, 2), (9, 99)), rng.choice(pool))
            dc.update(units.number, units.currency)
            cost = rnd_cost(rng, 90) if rng.random() < 0.35 else None
            price = None
            if rng.random() < 0.3:
                price = Amount(abs(rnd_number(rng)), rng.choice(pool))
                dc.update(price.number, price.currency)
            if cost is not None:
                dc.update(cost.number, cost.currency)
            txn.postings.append(data.Posting(rng.choice(accounts), units, cost, price, None,
                                             {'filename': '<c17>', 'lineno': 100 * t + k}))
        entries.append(txn)
    entries.sort(key=lambda e: e.date)
    return entries, options_with(dc)


LEDGER_QUERIES = [
    'SELECT account, sum(position) AS inv, count(*) AS n GROUP BY account ORDER BY account',
    'SELECT lineno, position AS pos, price, units(position) AS u, account ORDER BY lineno',
    'SELECT account, year, sum(position) AS inv GROUP BY account, year PIVOT BY account, year',
    'SELECT account, sum(cost(position)) AS book, sum(units(position)) AS u, last(price) AS p GROUP BY account ORDER BY account',
    'SELECT account, currency, sum(position) AS inv GROUP BY account, currency PIVOT BY account, currency',
    'SELECT date, units(sum(position)) AS held, cost(sum(position)) AS book GROUP BY date ORDER BY date',
    # one alias on several targets: equal names, equal datatypes, different contents
    'SELECT account AS what, narration AS what, units(position) AS amt, cost(position) AS amt, lineno ORDER BY lineno',
    'SELECT account, sum(units(position)) AS total, sum(cost(position)) AS total, count(*) AS total GROUP BY account '
    'ORDER BY account',
    'SELECT lineno AS n, price AS v, position AS v, year AS n, units(position) AS v ORDER BY lineno',
]
DUP_QUERIES = LEDGER_QUERIES[-3:]


def record_c2s(ctx, path, ntables, nledgers):
    from beanquery.numberify import numberify_results
    from beanquery.query import run_query
    rng = ctx.rng
    stats = {'direct': 0, 'run_query': 0, 'raised': 0, 'fmt': 0, 'fmt_maximum': 0, 'fmt_maximum_differs': 0,
             'fmt_common_differs': 0, 'null_inventory': 0, 'amount_like_columns': 0,
             'dup_named': 0, 'dup_described': 0, 'dup_named_ledger': 0}
    nev = 0
    with open(path, 'w') as f:
        for _ in range(ntables):
            desc, rows, dformat = rnd_table(rng)
            ev = record_line(f, nev + 1, 'direct', desc, rows, dformat,
                             lambda: numberify_results(desc, rows, dformat))
            if ev is None:
                ctx.skipped += 1
                continue
            nev += 1
            stats['direct'] += 1
            _tally(ctx, ev, stats)
        for _ in range(nledgers):
            entries, options = rnd_ledger(rng)
            text = rng.choice(LEDGER_QUERIES)
            if text in DUP_QUERIES:
                stats['dup_named_ledger'] += 1
            try:
                desc, rows = run_query(entries, options, text)
            except Exception as ex:  # noqa
                raise MachineryError('C2S ledger query failed without numberify: %s: %s' % (text, ex))
            dformat = options['dcontext'].build()
            ev = record_line(f, nev + 1, 'run_query', desc, rows, dformat,
                             lambda: run_query(entries, options, text, numberify=True))
            if ev is None:
                ctx.skipped += 1
                continue
            ev['query'] = text
            nev += 1
            stats['run_query'] += 1
            _tally(ctx, ev, stats)
    return nev, stats


def _tally(ctx, ev, stats):
    namt = sum(1 for c in ev['cols'] if c['ty'] in AMT)
    stats['amount_like_columns'] += namt
    stats['fmt'] += ev['fmt']
    if ev['fmt']:
        # formatters under which some cell of the table is quantised differently by the other precision setting
        differs = _settings_differ(ev)
        if ev['prec'] == 'maximum':
            stats['fmt_maximum'] += 1
            stats['fmt_maximum_differs'] += differs
        else:
            stats['fmt_common_differs'] += differs
    if ev['exc']:
        stats['raised'] += 1
    if has_null_inventory(ev['cols'], ev['rows']):
        stats['null_inventory'] += 1
    names = [c['name'] for c in ev['cols']]
    if len(set(names)) < len(names):
        stats['dup_named'] += 1
        if len({(c['name'], c['ty']) for c in ev['cols']}) < len(names):
            stats['dup_described'] += 1
    ctx.case(json.dumps([ev['cols'], ev['rows'], ev['fmt'], ev['dc'], ev['prec']]), nontrivial=namt > 0 and len(ev['rows']) > 0)


def _settings_differ(ev):
    """does some lot of the table carry more fractional digits than the smaller of the two precisions of its
    currency, the two being different? (then the precision setting of the formatter matters for this table)"""
    dc = {c: (a, b) for c, a, b in ev['dc']}
    for row in ev['rows']:
        for cell in row:
            for lot in cell['lots']:
                a, b = dc.get(lot['c'], (0, 0))
                if a != b and 10 ** min(a, b) % lot['n'][1] != 0:
                    return 1
    return 0


def validate_trace(ctx, path, nev, what):
    res = ctx.tlc('Trace_Numberify', 'Trace_Numberify.cfg', leg='C2S', workers=1, env={'TRACE_FILE': path},
                  timeout=ctx.pick(600, 3600))
    rejected = [p for p in res.printed if isinstance(p, dict) and p.get('verdict') == 'rejected']
    with open(path) as f:
        lines = f.read().split('\n')
    for rj in rejected:
        ev = json.loads(lines[rj['line'] - 1])
        if ev['exc']:
            key = exc_key(ev['cols'], ev['rows'], ev['exc'])
            clause = '%s raised %s: %s' % (ev['route'], ev['exc'], ev.get('msg', ''))
        else:
            kind = '+'.join(sorted({c['ty'] for c in ev['cols'] if c['ty'] in AMT}))
            key = 'numberify:%s:%s:%s%s' % (ev['route'], rj['clauses'][0], kind, fmt_tag(ev))
            clause = 'recorded call not accepted by the specification: ' + ', '.join(rj['clauses'])
        ctx.violation(key, clause, {'route': ev['route'], 'event': ev}, 'C2S', 'Accepts', rj['clauses'])
    if res.violated:
        raise MachineryError('Trace_Numberify has no invariants, yet TLC reports %s' % res.violated)
    if res.post_failed or res.depth - 1 != nev:
        raise MachineryError('trace not consumed: depth %d, events %d (%s)' % (res.depth, nev, res.errors[:2]))
    ctx.traces += nev - len(rejected)
    ctx.leg('C2S', lines=nev, rejected=len(rejected), what=what)
    return rejected


# ---- the check --------------------------------------------------------------------------------------
NONVACUITY = [('MC_Numberify_shipped.cfg', 'Total'), ('MC_Numberify_cap2.cfg', 'NoCurrencyDropped'),
              ('MC_Numberify_ctxdefault.cfg', 'SumPreserved'),
              ('MC_Numberify_asc.cfg', 'FreqOrdered'), ('MC_Numberify_poscost.cfg', 'SumPreserved'),
              ('MC_Numberify_noquant.cfg', 'SumPreserved'), ('MC_Numberify_lot1.cfg', 'Correct'),
              ('MC_Numberify_byname.cfg', 'Correct')]


def run(ctx):
    ctx.rule = ('S2C: every table of the replay space (kind x <= 3 rows x 3 currencies x lots x NULL / empty, and pairs of '
                'equally named columns) x formatter '
                'off/on, each a distinct (table, formatter) pair; non-trivial = at least one row and one non-NULL '
                'amount-like cell; C2S: random tables / ledgers, non-trivial = an amount-like column and a row')
    ctx.assumptions += [
        'frequency of a currency = number of rows (cells) of the column in which it occurs; occurrences with the number '
        'zero may or may not count, and a currency occurring only with zero may or may not get a column',
        'a quantity of zero (absent currency, lots that cancel, a number that quantises to zero) may be NULL or 0',
        'quantised = a nearest multiple of 10^-precision (an exact tie may go either way); a currency the formatter '
        'does not know is not quantised; "the currency\'s display precision when a formatter is given" is the precision '
        'THE FORMATTER GIVEN displays the currency with: a formatter is a display context plus one precision setting '
        '(most common / maximum number of fractional digits, DisplayContext.build(precision=..)), both read through the '
        'beancount API and combined by the specification (FormatterQ)',
        'input column names need not be distinct: ownership of the output columns is positional, and where equal '
        'names leave the boundary between two groups of new columns open, any assignment satisfying every clause is '
        'accepted; |numbers| < 20000 with <= 4 fractional digits (32-bit rationals in TLC), anything else is skipped '
        'and counted',
        'shell route: "the currency\'s display precision" of a numberified statement is the one of the ledger the shell '
        'has loaded when the statement runs (after `.reload` of an edited file: the edited file\'s), as for every other '
        'rendering of the shell',
        'TLC 1.8, Json/IOUtils community modules, CPython 3.12, beancount 3.2',
    ]
    legs = getattr(ctx, 'only_legs', None)

    def want(leg):
        return not legs or leg in legs

    import os
    import time
    marks = [(time.time(), os.times())]

    def cpu(leg):
        """CPU seconds (driver + TLC children) and wall seconds spent since the previous mark"""
        t, o = time.time(), os.times()
        t0, o0 = marks[-1]
        marks.append((t, o))
        ctx.leg(leg, wall_s=round(t - t0, 1), cpu_driver_s=round(o.user + o.system - o0.user - o0.system, 1),
                cpu_tlc_s=round(o.children_user + o.children_system - o0.children_user - o0.children_system, 1))

    # ---- MC ------------------------------------------------------------------------------------------
    if want('MC'):
        # per-action coverage (vacuity guard) on the quick space only: -coverage costs ~25 % on the 6 M state run, whose
        # actions are the same
        res = ctx.tlc('MC_Numberify', ctx.pick('MC_Numberify.cfg', 'MC_Numberify_thorough.cfg'), leg='MC',
                      must_cover=ctx.pick(('AddRow', 'Call', 'IdentityColumn', 'CensusRow', 'BuildConverters',
                                           'StartConversion', 'ConvertRow', 'Return'), ()))
        if res.violated:
            ctx.violation('spec:' + ','.join(res.violated), 'TLC: the mechanism violates the declarative statement',
                          {'behaviour': res.behaviour[:4000]}, 'MC')
        # the formatter given is built for the precision setting "maximum" (the display context distinguishes the two)
        res = ctx.tlc('MC_Numberify', 'MC_Numberify_max.cfg', leg='MC')
        if res.violated:
            ctx.violation('spec:max:' + ','.join(res.violated), 'TLC: the mechanism violates the declarative statement '
                          'for a formatter built with precision=MAXIMUM', {'behaviour': res.behaviour[:4000]}, 'MC')
        for cfg, inv in NONVACUITY:
            # MC_Numberify_shipped.cfg is the mechanism as the code had it before fix e9990d2 (None.currencies() raises):
            # TLC exhibits the counterexample on the specification; on the code the conformance legs report it under
            # the key numberify:inventory-null-cell
            ctx.tlc('MC_Numberify', cfg, leg='MC-nonvacuity', expect_violation=inv, workers=2)
        # the shell as a caller over a session (statement, file edited, `.reload`, statement ..): the formatter given to
        # a statement's numberification is the one of the ledger loaded when the statement runs; the mechanism builds
        # it per statement (the code) or per load; built once per shell object it must be rejected
        for cfg in ctx.pick(['MC_NumberifySession.cfg'], ['MC_NumberifySession.cfg', 'MC_NumberifySession_perload.cfg']):
            res = ctx.tlc('NumberifySession', cfg, leg='MC', workers=2)
            if res.violated:
                ctx.violation('spec:session:' + ','.join(res.violated), 'TLC: the session mechanism gives a statement '
                              'another formatter than the one of the loaded ledger', {'behaviour': res.behaviour[:4000]}, 'MC')
        ctx.tlc('NumberifySession', 'MC_NumberifySession_once.cfg', leg='MC-nonvacuity',
                expect_violation='FormatterOfLoadedLedger', workers=2)
        cpu('MC')
    # ---- S2C -----------------------------------------------------------------------------------------
    if want('S2C'):
        n = nroute = 0
        kinds = {}
        cfgs = ctx.pick(['Gen_Numberify.cfg', 'Gen_Numberify_max.cfg'],
                        ['Gen_Numberify_thorough1.cfg', 'Gen_Numberify_thorough2.cfg', 'Gen_Numberify_thorough3.cfg',
                         'Gen_Numberify_max.cfg'])
        nmax = 0
        for cfg in cfgs:
            res = ctx.tlc('Gen_Numberify', cfg, leg='GEN')
            cases = res.printed
            del res
            cand = [i for i, p in enumerate(cases) if routable(p) and p['fmt'] and p['prec'] == 'most_common']
            pick_rq = set(ctx.rng.sample(cand, min(ctx.pick(120, 600), len(cand))))
            for i, p in enumerate(cases):
                n += 1
                nontrivial = bool(p['rows']) and any(cell['lots'] for row in p['rows'] for cell in row)
                ctx.case(json.dumps([p['cols'], p['rows'], p['fmt'], p['prec'] if p['fmt'] else '']), nontrivial)
                kind = '+'.join(c['ty'] for c in p['cols'] if c['ty'] in AMT) + fmt_tag(p)
                nmax += 1 if p['fmt'] and p['prec'] == 'maximum' else 0
                kinds[kind] = kinds.get(kind, 0) + 1
                if nontrivial and p['fmt'] and len(ctx.samples) < 2 and len(p['rows']) > 1 and n % 97 == 0:
                    ctx.sample({'leg': 'S2C', 'cols': p['cols'], 'rows': p['rows'], 'fmt': p['fmt'], 'q': p['q'],
                                'dc': p['dc'], 'prec': p['prec'],
                                'acceptable_descriptions': p['descs'][:3], 'acceptable_cells': p['cells']})
                s2c_direct(ctx, p, n)
                ctx.traces += 1
                if i in pick_rq:
                    s2c_run_query(ctx, p)
                    nroute += 1
                    ctx.traces += 1
                cases[i] = None
            del cases
        if n == 0:
            raise MachineryError('Gen_Numberify emitted nothing')
        ctx.leg('S2C', cases=n, by_kind=kinds, run_query_cases=nroute, formatter_maximum_cases=nmax)
        if nroute == 0:
            raise MachineryError('vacuity: no case went through run_query')
        if nmax == 0:
            raise MachineryError('vacuity: no case with a formatter built for the maximum precision')
        # the shell
        res = ctx.tlc('Gen_Numberify', 'Gen_Numberify_shell.cfg', leg='GEN-shell', workers=4)
        cand = [p for p in res.printed if shell_routable(p)]
        nsh = 0
        for k, p in enumerate(ctx.rng.sample(cand, min(ctx.pick(16, 120), len(cand)))):
            s2c_shell(ctx, p, k)
            ctx.case(json.dumps(['shell', p['rows'], p['fmt']]), bool(p['rows']))
            nsh += 1
            ctx.traces += 1
        # sessions: history on one shell object -- statement, the ledger file edited (other display precisions of the
        # same currencies), `.reload`, statement, ...: the formatter of each statement is the one of the ledger loaded
        # when it runs
        res = ctx.tlc('Gen_Numberify', 'Gen_Numberify_shell2.cfg', leg='GEN-shell', workers=4)
        cand2 = [p for p in res.printed if shell_routable(p)]
        del res
        if not cand or not cand2:
            raise MachineryError('vacuity: a shell replay space is empty')

        def busy(pool):
            # tables on which quantisation shows (a 3/2 lot) are three times as likely as the others, numberified six times
            frac = [p for p in pool if any(lot['n'][1] != 1 for r in p['rows'] for lot in r[1]['lots'])]
            return pool + 2 * frac + 3 * [p for p in frac if p['fmt']]
        pools = [busy(cand), busy(cand2)]
        sstats = {'sessions': 0, 'statements': 0, 'after_open': 0, 'after_reload': 0, 'numberified': 0,
                  'precisions_changed_and_matter': 0}
        for k in range(ctx.pick(6, 40)):
            steps = session_steps(ctx.rng, pools, ctx.rng.randint(4, ctx.pick(8, 12)))
            s2c_shell_session(ctx, steps, k, sstats)
            sstats['sessions'] += 1
            for j, p in enumerate(steps):
                ctx.case(json.dumps(['shell-session', [[q['rows'], q['fmt'], q['q']] for q in steps[:j + 1]]]), bool(p['rows']))
        ctx.leg('S2C', shell_sessions=sstats)
        if sstats['after_reload'] == 0 or sstats['precisions_changed_and_matter'] < 3:
            raise MachineryError('vacuity: no shell session in which a reloaded ledger changes the quantisation of a '
                                 'numberified statement: %r' % (sstats,))
        # the known defect through the public routes: NULL inventory cells come out of PIVOT BY
        ctx.leg('S2C', shell_cases=nsh)
        if nsh == 0:
            raise MachineryError('vacuity: no case went through the shell')
        cpu('S2C')
    # ---- C2S -----------------------------------------------------------------------------------------
    if want('C2S'):
        path = ctx.path('numberify_trace.ndjson')
        nev, stats = record_c2s(ctx, path, ctx.pick(2000, 15000), ctx.pick(80, 600))
        with open(path) as f:
            for line in f:
                ev = json.loads(line)
                if ev['fmt'] and len(ev['rows']) > 1 and not ev['exc'] and any(c['ty'] == 'Inventory' for c in ev['cols']):
                    ctx.sample({'leg': 'C2S', 'event': ev})
                    break
        validate_trace(ctx, path, nev, 'random tables through numberify_results; random ledgers through run_query')
        ctx.leg('C2S', **stats)
        if stats['run_query'] == 0 or stats['direct'] == 0:
            raise MachineryError('vacuity: a C2S route recorded nothing')
        if stats['fmt_maximum_differs'] == 0 or stats['fmt_common_differs'] == 0:
            raise MachineryError('vacuity: no C2S table on which the precision setting of the formatter matters')
        if stats['dup_described'] == 0 or stats['dup_named_ledger'] == 0:
            raise MachineryError('vacuity: no C2S table with two columns of one name and datatype')
        cpu('C2S')
    ctx.exhaustive = False


def replay(ctx, rep):
    case = rep['case']
    if 'behaviour' in case:
        print('replay: a TLC counterexample on the specification; re-run the check')
        return 2
    if 'event' in case:
        # a recorded call: rebuild the input from its abstract form, call numberify_results, let TLC judge
        ev = case['event']
        p = {'cols': ev['cols'], 'rows': ev['rows'], 'fmt': ev['fmt'], 'q': ev['q'], 'dc': ev.get('dc') or ev['q'],
             'prec': ev.get('prec', 'most_common')}
        from beanquery.numberify import numberify_results
        desc, rows = build_abstract(p)
        dformat = formatter_of(p) if p['fmt'] else None
        path = ctx.path('replay.ndjson')
        with open(path, 'w') as f:
            new = record_line(f, 1, 'direct', desc, rows, dformat, lambda: numberify_results(desc, rows, dformat))
        rejected = validate_trace(ctx, path, 1, 'replay')
        print('replay:', ('MISMATCH reproduced: %s' % (rejected[0]['clauses'],)) if rejected else 'no mismatch',
              '(exception %s)' % new['exc'] if new['exc'] else '')
        return 1 if rejected else 0
    if 'descs' in case:
        route = case.get('route', 'direct')
        fn = {'direct': lambda: s2c_direct(ctx, case, 1), 'run_query': lambda: s2c_run_query(ctx, case),
              'shell': lambda: s2c_shell(ctx, case, 0),
              # the whole history up to the failing statement is re-run on one shell (n = 2: no repeated statements)
              'shell-session': lambda: s2c_shell_session(ctx, case.get('session') or [case], 2)}[route]
        ok = fn()
        bad = (ok is False) or bool(ctx.violations) or bool(ctx.known_hits)
        print('replay:', 'MISMATCH reproduced' if bad else 'no mismatch')
        return 1 if bad else 0
    print('replay: case kind not replayable standalone; re-run the check')
    return 2


def build_abstract(p):
    """abstract table of a recorded event -> real values (plain cells become ints carrying their token)"""
    import beanquery
    tm = typemap()
    desc = tuple(beanquery.Column(c['name'], tm.get(c['ty'], object)) for c in p['cols'])
    rows = []
    for row in p['rows']:
        vals = []
        for c, cell in zip(p['cols'], row):
            if c['ty'] in AMT:
                if cell['isnull']:
                    vals.append(None)
                elif c['ty'] == 'Inventory':
                    Amount, Position, Cost, Inventory = _bc()
                    inv = Inventory()
                    for k, lot in enumerate(cell['lots']):
                        cost = Cost(dec(lot['k']), 'USD', DATE0 + datetime.timedelta(days=k), None) if lot['k'] else None
                        inv.add_position(Position(Amount(dec(lot['n']), lot['c']), cost))
                    vals.append(inv)
                else:
                    vals.append(real_cell(cell, c['ty']))
            else:
                vals.append(None if cell['isnull'] else cell['tok'])
        rows.append(tuple(vals))
    return desc, rows
