"""C11 -- ledger tables present the Beancount directives faithfully and completely (spec/Ledger.tla).

legs: MC   TLC checks, for every well-formed ledger of <= 3 (4) directives over a 16-letter alphabet (and over a 10-letter
           alphabet of repeated open / close / commodity directives) and every table,
           that the iteration mechanism of the code (one reusable row context, rowid, isinstance filter, open/close
           map fold, commodity map) yields exactly the declarative rows, plus the flattening / partition / NULL laws;
           two deliberately broken mechanisms must be rejected (non-vacuity)
      S2C  TLC emits ledgers over a 104-letter alphabet (every cost x price x posting-metadata option, payee x
           narration x tags, every directive kind) with the rows the specification says the ten tables must show;
           the driver builds the directives with beancount.core.data constructors, connects, introspects the LIVE
           tables, selects every column of every table plus every metadata lookup for every key, projects and compares
      C2S  windows of the beancount example ledger, random directly-constructed ledgers (postings without metadata,
           null metadata, closes without open ...), random printed-and-reloaded ledgers (booking, padding) and a
           reloaded subset of the S2C ledgers are recorded (abstract window + all tables' projected rows) and judged
           by TLC (Trace_Ledger: Rows(ledger, keys) is the oracle)

The connection's history is part of every case: before the tables are read, a history of statements (FROM clauses with
OPEN ON / CLOSE [ON] / CLEAR on the default table in several statement forms, failing statements, abandoned cursors,
table references, other tables) is executed on the SAME connection -- chosen by the specification in S2C (Gen_Ledger:
HistOf), at random in C2S and recorded in the trace line; the oracle is RowsAfter(history, ledger, keys) (= the ledger's
rows: Ledger.tla part 3, HistoryFree is model-checked over up to 3 statements per connection, a mechanism that sets the
qualifiers on the registered table must be rejected).  Relational laws on the history statements themselves (their result
is a function of ledger and statement: the same when executed again at the end, and on a fresh connection).

Metadata keys range over the whole Beancount key syntax [a-z][a-zA-Z0-9\\-_]+ (only the first character is lower case):
the alphabets of the specification and the random ledgers carry camel-case keys, keys with dash / underscore / digit and
pairs of keys that differ in the case of a letter only (in one dictionary, across posting and transaction, on open and
commodity directives); every lookup function is evaluated for the present keys AND for case variants of them (different
keys: NULL unless the ledger has that twin).  Ledger.tla states the lookups as exact, character-by-character key
matches, model-checks the code's dict.get mechanism against them (LookupsEqDecl) and a mechanism that lower-cases the
key must be rejected.

The dictionaries are presented whole: the keys Beancount writes itself (booking: __tolerances__ on every transaction,
interpolation: __automatic__ / __residual__ on postings, plugins: any __key__) are in the vocabulary (ledgergen.abs_meta
keeps them, a dictionary value is the MV type "map"), in the alphabets of the specification, in the random direct ledgers,
natively in every loaded ledger, and they are always among the keys looked up (user_keys); a `meta` column that hides them
(meta() / any_meta() read that column) must be rejected (Mech = "publicmeta").

Directive counts are free ("any directive types and counts"): an account may be opened / closed and a currency declared by
several directives (Beancount reports that and keeps every directive; directly constructed entry lists carry them freely).
#accounts / #commodities then have ONE row per account / currency and open_meta / open_date / close_date / commodity_meta
read ONE directive -- the one Beancount takes for THE open / close / commodity directive (Ledger.tla: OpenIdx, CloseIdx,
CommodityIdx: the chronologically earliest open / close, the first listed on equal dates; the commodity directive listed
last: a later declaration supersedes).  MC: the open/close map fold and the commodity map of the code against that
declaration over an alphabet of repeated directives (a map that keeps the first commodity directive / the first listed open
directive must be rejected); S2C: every ledger of <= 3 directives with such a repetition over that alphabet; C2S: the
random ledgers re-declare commodities with other metadata and open / close accounts again.

Columns without counterpart in the model (`id`, `balance`, unknown future columns) get generic checks only
(declared type, id stability / consistency) and are counted as uncovered.
"""
import dataclasses
import datetime
import decimal
import hashlib
import json
import random

from harness import ledgergen as lg
from harness.core import MachineryError

GEN_PARTS = 8       # Gen_Ledger2 is emitted in 8 portions (by first directive)
DUP_QUICK = 180     # ledgers of Gen_LedgerDup replayed in the quick tier
OWN_KEYS = 4        # double-underscore keys (written by Beancount's booking / interpolation / plugins) looked up per ledger
OOD_AMOUNT = {'n': [0, 0], 'c': '<out of the 32-bit domain>'}


class Unprojectable(Exception):
    pass


# ---- projection of observed values to the specification's cells ----------------------------------------------
def p_str(v, o):
    if not isinstance(v, str):
        raise Unprojectable('str expected, got %r' % (v,))
    return v


def p_ostr(v, o):
    if v is None:
        return []
    return [p_str(v, o)]


def p_int(v, o):
    if not isinstance(v, int) or isinstance(v, bool):
        raise Unprojectable('int expected, got %r' % (v,))
    return v


def p_oint(v, o):
    return [] if v is None else [p_int(v, o)]


def p_date(v, o):
    if not isinstance(v, datetime.date):
        raise Unprojectable('date expected, got %r' % (v,))
    return v.toordinal()


def p_odate(v, o):
    return [] if v is None else [p_date(v, o)]


def p_num(v, o):
    if not isinstance(v, decimal.Decimal):
        raise Unprojectable('Decimal expected, got %r' % (v,))
    return lg.abs_num(v)


def p_onum(v, o):
    return [] if v is None else [p_num(v, o)]


def p_set(v, o):
    if not isinstance(v, (list, set, frozenset, tuple)) or not all(isinstance(x, str) for x in v):
        raise Unprojectable('collection of str expected, got %r' % (v,))
    return sorted(set(v))


def p_oset(v, o):
    return [] if v is None else [p_set(v, o)]


def p_ometa(v, o):
    if v is None:
        return []
    if not isinstance(v, dict):
        raise Unprojectable('dict expected, got %r' % (v,))
    return [lg.abs_meta(v)]


def p_amount(v, o):
    from beancount.core.amount import Amount
    if not isinstance(v, Amount):
        raise Unprojectable('Amount expected, got %r' % (v,))
    return lg.abs_amount(v)


def p_oamount(v, o):
    return [] if v is None else [p_amount(v, o)]


def p_weight(v, o):
    from beancount.core.amount import Amount
    if not isinstance(v, Amount):
        raise Unprojectable('Amount expected, got %r' % (v,))
    try:
        return lg.abs_amount(v)
    except lg.OutOfDomain:
        o.ood_cells += 1
        return dict(OOD_AMOUNT)


def p_position(v, o):
    from beancount.core.position import Position
    if not isinstance(v, Position):
        raise Unprojectable('Position expected, got %r' % (v,))
    return {'u': lg.abs_amount(v.units), 'cost': lg.opt(v.cost, lg.abs_cost)}


def p_entry(v, o):
    i = o.index.get(id(v))
    if i is None:
        raise Unprojectable('not one of the ledger\'s directives: %r' % (v,))
    return i


def p_oentry(v, o):
    return [] if v is None else [p_entry(v, o)]


def p_omv(v, o):
    return [] if v is None else [lg.abs_mv(v)]


DATEPARTS = {'date': p_date, 'year': p_int, 'month': p_int, 'day': p_int}
TXNCOLS = {'flag': p_ostr, 'payee': p_ostr, 'narration': p_ostr, 'description': p_ostr, 'tags': p_oset, 'links': p_oset}
MODEL = {
    'entries': dict(DATEPARTS, **TXNCOLS, type=p_str, filename=p_ostr, lineno=p_oint, meta=p_ometa),
    'postings': dict(DATEPARTS, **TXNCOLS, type=p_str, filename=p_ostr, lineno=p_oint, meta=p_ometa, location=p_ostr,
                     posting_flag=p_ostr, account=p_str, other_accounts=p_set, number=p_num, currency=p_str,
                     cost_number=p_onum, cost_currency=p_ostr, cost_date=p_odate, cost_label=p_ostr,
                     position=p_position, price=p_oamount, weight=p_weight, entry=p_entry),
    'transactions': dict(meta=p_ometa, date=p_date, flag=p_ostr, payee=p_ostr, narration=p_ostr, tags=p_oset, links=p_oset),
    'prices': dict(meta=p_ometa, date=p_date, currency=p_str, amount=p_amount),
    'balances': dict(meta=p_ometa, date=p_date, account=p_str, amount=p_amount, tolerance=p_onum, discrepancy=p_oamount),
    'notes': dict(meta=p_ometa, date=p_date, account=p_str, comment=p_str, tags=p_oset, links=p_oset),
    'events': dict(meta=p_ometa, date=p_date, type=p_str, description=p_str),
    'documents': dict(meta=p_ometa, date=p_date, account=p_str, filename=p_str, tags=p_oset, links=p_oset),
    'accounts': dict(account=p_str, open=p_oentry, close=p_oentry),
    'commodities': dict(meta=p_ometa, date=p_date, name=p_str),
}
# derived targets: (name, BQL text, projector)
EXTRA = {
    'accounts': [('open_date', 'open.date', p_odate), ('close_date', 'close.date', p_odate), ('open_meta', 'open.meta', p_ometa)],
}
SET_TABLES = ('accounts', 'commodities')       # compared as sets of rows
TABLES = ('postings', 'entries', 'transactions', 'prices', 'balances', 'notes', 'events', 'documents', 'accounts',
          'commodities')
LK_POSTINGS = (('m', 'meta'), ('em', 'entry_meta'), ('am', 'any_meta'), ('om', 'open_meta'), ('cm', 'commodity_meta'))

_PARSED = {}


def parsed(text):
    from beanquery import parser
    if text not in _PARSED:
        _PARSED[text] = parser.parse(text)
    return _PARSED[text]


def lookup_select(table, keys, as_text=False):
    """SELECT of every metadata lookup for every key -- built as an AST (TatSu needs ~1 s for 50 targets) or as text"""
    from beanquery.parser import ast
    targets = []
    texts = []

    def add(name, fname, args, argtext):
        targets.append(ast.Target(ast.Function(fname, args), name))
        texts.append('%s(%s) AS %s' % (fname, argtext, name))

    def q(k):
        return "'%s'" % k
    if table == 'postings':
        add('open_date', 'open_date', [ast.Column('account')], 'account')
        add('close_date', 'close_date', [ast.Column('account')], 'account')
    for n, k in enumerate(keys):
        if table == 'postings':
            add('m%d' % n, 'meta', [ast.Constant(k)], q(k))
            add('em%d' % n, 'entry_meta', [ast.Constant(k)], q(k))
            add('am%d' % n, 'any_meta', [ast.Constant(k)], q(k))
            add('om%d' % n, 'open_meta', [ast.Column('account'), ast.Constant(k)], 'account, ' + q(k))
            add('cm%d' % n, 'commodity_meta', [ast.Column('currency'), ast.Constant(k)], 'currency, ' + q(k))
        else:
            add('m%d' % n, 'meta', [ast.Constant(k)], q(k))
    if as_text:
        return 'SELECT %s FROM #%s' % (', '.join(texts), table)
    return ast.Select(targets, ast.Table(table), None, None, None, None, None, None)


# ---- the connection's history: statements executed before the tables are read (vocabulary of Ledger.tla part 3) ----
FROM_FORMS = {      # forms with a FROM clause on the default table: the qualifiers are filled into the parsed template
    'count': 'SELECT count(*) AS n FROM TRUE',
    'agg': 'SELECT account, sum(position) AS s FROM TRUE GROUP BY account',
    'rows': 'SELECT date, account, number FROM year >= 1900',
    'balances': 'BALANCES FROM TRUE',
    'error': 'SELECT nosuchcolumn FROM TRUE',
    'partial': 'SELECT date, account, number FROM year >= 1900',
}
REF_FORMS = {       # forms without: the registered table object itself / another table
    'tableref': 'SELECT count(*) AS n FROM #postings',
    'default': 'SELECT count(*) AS n',
    'entries': 'SELECT count(*) AS n FROM #entries',
}
KEEP_EXPRESSION = ('rows', 'partial')
SLOW_FORMS = ('balances',)     # BALANCES re-parses its SELECT template at every compilation (~0.1 s): executed once only


def history_statement(h):
    """abstract statement {form, open: [] | [ordinal], close: [] | [0] | [ordinal], clear} -> AST"""
    from beanquery.parser import ast
    form = h['form']
    if form in REF_FORMS:
        if h['open'] or h['close'] or h['clear']:
            raise MachineryError('history: form %s cannot carry qualifiers' % form)
        return parsed(REF_FORMS[form])
    st = parsed(FROM_FORMS[form])
    o = lg.date_of(h['open'][0]) if h['open'] else None
    c = (True if h['close'][0] == 0 else lg.date_of(h['close'][0])) if h['close'] else None
    expr = st.from_clause.expression if form in KEEP_EXPRESSION else None
    return dataclasses.replace(st, from_clause=ast.From(expr, o, c, True if h['clear'] else None))


def run_statement(conn, h):
    """execute one history statement; what it gave, as a comparable digest (the error path too)"""
    try:
        cur = conn.execute(history_statement(h))
        rows = [cur.fetchone()] if h['form'] == 'partial' else cur.fetchall()
    except MachineryError:
        raise
    except Exception as ex:  # noqa   a failing statement is history as well
        return ['error', type(ex).__name__]
    return ['ok', len(rows), hashlib.blake2b(repr(rows).encode(), digest_size=8).hexdigest()]


def describe(h):
    q = []
    if h['open']:
        q.append('OPEN ON %s' % lg.date_of(h['open'][0]))
    if h['close']:
        q.append('CLOSE' if h['close'][0] == 0 else 'CLOSE ON %s' % lg.date_of(h['close'][0]))
    if h['clear']:
        q.append('CLEAR')
    return '%s[%s]' % (h['form'], ' '.join(q))


def random_history(rng, abstract):
    """a seeded random history of 0..4 statements; the qualifier dates are taken from the ledger"""
    if rng.random() < 0.4:
        return []
    dates = sorted({d['date'] for d in abstract}) or [737425]
    out = []
    for _ in range(rng.randint(1, 4)):
        form = rng.choice(['count', 'count', 'agg', 'agg', 'rows', 'rows', 'error', 'partial', 'tableref', 'default',
                           'entries', 'balances'])
        if form == 'balances' and rng.random() < 0.7:
            form = 'agg'
        h = {'form': form, 'open': [], 'close': [], 'clear': False}
        if form in FROM_FORMS:
            shape = rng.random()
            if shape < 0.45:
                h['clear'] = True       # CLEAR alone
            else:
                if rng.random() < 0.5:
                    h['open'] = [rng.choice(dates) + rng.choice((0, 1))]
                if rng.random() < 0.5:
                    h['close'] = [0] if rng.random() < 0.3 else [rng.choice(dates) + rng.choice((0, 1, 40))]
                h['clear'] = rng.random() < 0.5
        out.append(h)
    return out


class Observation:
    """everything the live tables of one connection show AFTER the history was executed on it, projected to the
    specification's vocabulary"""

    def __init__(self, entries, options, keys, text_lookups=False, history=()):
        self.history = list(history)
        self.statements = 0        # history statements executed (first run, replay, fresh connection)
        self.entries = entries
        self.options = options
        self.keys = list(keys)
        self.index = {id(e): i + 1 for i, e in enumerate(entries)}
        self.rows = {}
        self.problems = []         # (key, clause, expected, observed): violations detected while observing
        self.uncovered = {}        # table.column -> cells
        self.cells = 0
        self.ood_cells = 0
        self.text_lookups = text_lookups
        try:
            self.conn = lg.connect(entries, options)
        except Exception as ex:  # noqa   the ledger cannot even be attached: no table presents anything
            self.conn = None
            self.problem('connect:exception:%s' % type(ex).__name__, 'beanquery.connect(\'beancount:\', entries=...) raises',
                         None, '%s: %s' % (type(ex).__name__, str(ex)[:200]))

    def problem(self, key, clause, expected=None, observed=None):
        self.problems.append((key, clause, expected, observed))

    def run(self):
        if self.conn is None:
            self.rows = {name: None for name in TABLES}
            return self
        live = {n: t for n, t in self.conn.tables.items() if n}
        first = [run_statement(self.conn, h) for h in self.history]       # before any table is read
        for name in TABLES:
            if name not in live:
                self.problem('%s:table-missing' % name, 'table #%s is not registered' % name)
                self.rows[name] = None
                continue
            self.observe_table(name, live[name])
        for name in live:
            if name not in TABLES:
                self.uncovered['#' + name] = self.uncovered.get('#' + name, 0) + 1
        self.history_laws(first)
        return self

    def history_laws(self, first):
        """what a statement gives is a function of the ledger and the statement -- not of what ran before it on the
        connection: executed again after all the table scans, and alone on a fresh connection, it gives the same"""
        self.statements = len(first)
        for n, (h, was) in enumerate(zip(self.history, first)):
            if h['form'] in SLOW_FORMS:
                continue
            again = run_statement(self.conn, h)
            if again != was:
                self.problem('history:replay:%s' % h['form'], 'statement %d of the history, %s, gives a different result '
                             'when executed again on the same connection after the table scans' % (n + 1, describe(h)), was, again)
            fresh = run_statement(lg.connect(self.entries, self.options), h)
            self.statements += 2
            if fresh != was:
                self.problem('history:fresh:%s' % h['form'], 'statement %d of the history, %s, gives a different result '
                             'than alone on a fresh connection over the same ledger' % (n + 1, describe(h)), fresh, was)

    def execute(self, name, stmt, what):
        try:
            cur = self.conn.execute(stmt)
            return cur, cur.fetchall()
        except lg.OutOfDomain:
            raise
        except Exception as ex:  # noqa
            self.problem('%s:exception:%s:%s' % (name, what, type(ex).__name__),
                         'selecting %s of #%s raises' % (what, name), None, '%s: %s' % (type(ex).__name__, str(ex)[:200]))
            return None, None

    def observe_table(self, name, table):
        model = MODEL[name]
        cols = list(table.columns)
        missing = [c for c in model if c not in cols]
        if missing:
            self.problem('%s.%s:column-missing' % (name, missing[0]), 'modelled column absent from the live table',
                         sorted(model), cols)
            self.rows[name] = None
            return
        extra = EXTRA.get(name, [])
        text = 'SELECT %s FROM #%s' % (', '.join(cols + ['%s AS %s' % (t, n) for n, t, _ in extra]), name)
        cur, raw = self.execute(name, parsed(text), 'all columns')
        if raw is None:
            self.rows[name] = None
            return
        # a table can be scanned any number of times on one connection: the second scan yields the same rows
        cur2, raw2 = self.execute(name, parsed(text), 'all columns (second scan)')
        if raw2 is not None and (len(raw2) != len(raw) or repr(raw2) != repr(raw)):
            self.problem('%s:rescan' % name, 'a second scan of the table on the same connection yields different rows',
                         len(raw), len(raw2))
        desc = cur.description
        names = [d.name for d in desc]
        if names != cols + [n for n, _, _ in extra]:
            self.problem('%s:description' % name, 'result columns are not the selected columns', cols, names)
        out = []
        for r, row in enumerate(raw):
            cells = {}
            for c, v in zip(names, row):
                proj = model.get(c) or next((p for n, _, p in extra if n == c), None)
                if proj is None:
                    self.generic(name, c, table.columns[c].dtype, v)
                    continue
                try:
                    cells[c] = proj(v, self)
                    self.cells += 1
                except Unprojectable as ex:
                    self.problem('%s.%s:unprojectable' % (name, c), 'value outside the column\'s vocabulary: %s' % ex,
                                 None, repr(v)[:200])
                    cells[c] = 'UNPROJECTABLE'
            out.append(cells)
        if name in ('postings', 'entries'):
            self.ids(name, names, raw)
            self.lookups(name, out)
        self.rows[name] = out

    def generic(self, name, col, dtype, v):
        k = '%s.%s' % (name, col)
        self.uncovered[k] = self.uncovered.get(k, 0) + 1
        if v is not None and isinstance(dtype, type) and not isinstance(v, dtype):
            self.problem('%s:declared-type' % k, 'uncovered column: value is not of the declared type', dtype.__name__,
                         type(v).__name__)

    def ids(self, name, names, raw):
        """`id`: no counterpart in the model -- one value per directive, equal directives aside distinct, stable"""
        if 'id' not in names:
            return
        i = names.index('id')
        ids = [row[i] for row in raw]
        if not all(isinstance(x, str) and x for x in ids):
            self.problem('%s.id:type' % name, 'id is not a non-empty string')
            return
        if name == 'entries':
            self.entry_ids = ids
            for a in range(len(ids)):
                for b in range(a + 1, min(len(ids), a + 6)):
                    if ids[a] == ids[b] and tuple(self.entries[a]) != tuple(self.entries[b]):
                        self.problem('entries.id:unique', 'two different directives share one id')
        else:
            e = names.index('entry') if 'entry' in names else None
            if e is not None:
                by = {}
                for row in raw:
                    by.setdefault(id(row[e]), set()).add(row[i])
                if any(len(s) != 1 for s in by.values()):
                    self.problem('postings.id:per-entry', 'postings of one transaction show different ids')
            self.posting_ids = (ids, [self.index.get(id(row[e])) for row in raw] if e is not None else None)

    def lookups(self, name, out):
        if not self.keys and name != 'postings':
            for r in out:
                r['lk'] = []
            return
        stmt = lookup_select(name, self.keys, as_text=self.text_lookups)
        cur, raw = self.execute(name, stmt, 'metadata lookups')
        if raw is None:
            self.rows[name] = None
            return
        if len(raw) != len(out):
            self.problem('%s:row-count:lookups' % name, 'two scans of the table give different numbers of rows', len(out), len(raw))
            return
        names = [d.name for d in cur.description]
        for row, cells in zip(raw, out):
            d = dict(zip(names, row))
            lk = []
            try:
                for n, k in enumerate(self.keys):
                    item = {'k': k}
                    for short, _ in (LK_POSTINGS if name == 'postings' else LK_POSTINGS[:1]):
                        item[short] = p_omv(d['%s%d' % (short, n)], self)
                        self.cells += 1
                    lk.append(item)
                if name == 'postings':
                    cells['open_date'] = p_odate(d['open_date'], self)
                    cells['close_date'] = p_odate(d['close_date'], self)
                    self.cells += 2
            except Unprojectable as ex:
                self.problem('%s.lookup:unprojectable' % name, str(ex))
            cells['lk'] = lk

    def cross_checks(self):
        """uncovered column `id` is the same in #entries and #postings for the same directive"""
        ids = getattr(self, 'entry_ids', None)
        pid = getattr(self, 'posting_ids', None)
        if ids and pid and pid[1]:
            for x, i in zip(*pid):
                if i is not None and i <= len(ids) and ids[i - 1] != x:
                    self.problem('postings.id:entries.id', 'id of a posting row differs from the id of its transaction in #entries')
                    break


# ---- canonical forms and comparison (S2C: the expected rows come from TLC's JSON) ----------------------------
def _skey(x):
    return json.dumps(x, sort_keys=True)


def canon_cell(col, v):
    if col == 'other_accounts' and isinstance(v, list):
        return sorted(v)
    if col in ('tags', 'links') and isinstance(v, list) and v:
        return [sorted(v[0])]
    if col in ('meta', 'open_meta') and isinstance(v, list) and v:
        return [sorted(v[0], key=lambda kv: kv[0])]
    return v


def canon_row(row):
    return {c: canon_cell(c, v) for c, v in row.items()}


def compare(report, spec_rows, obs):
    """compare the rows the specification emitted with the observation; report(key, clause, expected, observed) per
    mismatching cell; returns their number"""
    bad = 0
    for key, clause, exp, got in obs.problems:
        report(key, clause, exp, got)
        bad += 1
    for name in TABLES:
        rows = obs.rows.get(name)
        if rows is None:
            continue
        srows = [canon_row(r) for r in spec_rows[name]]
        orows = [canon_row(r) for r in rows]
        if name in SET_TABLES:
            if sorted(map(_skey, srows)) != sorted(map(_skey, orows)):
                report('%s:rows' % name, 'the table does not show exactly the corresponding directives', srows[:6], orows[:6])
                bad += 1
            continue
        if len(srows) != len(orows):
            report('%s:row-count' % name, 'number of rows', len(srows), len(orows))
            bad += 1
            continue
        for n, (s, o) in enumerate(zip(srows, orows)):
            for c, v in o.items():
                if c == 'lk':
                    for sk, ok in zip(s['lk'], v):
                        for short, got in ok.items():
                            if got != sk[short] and not (short == 'am' and got == sk['am_alt']):
                                fn = dict(LK_POSTINGS).get(short, short)
                                report('%s.%s()' % (name, fn), '%s(%r) of row %d' % (fn, sk['k'], n + 1), sk[short], got)
                                bad += 1
                    if len(s['lk']) != len(v):
                        report('%s.lookups' % name, 'lookup list', len(s['lk']), len(v))
                        bad += 1
                    continue
                if v != s[c] and not (c == 'cost_label' and v == s['cost_label_alt']):
                    report('%s.%s' % (name, c), 'column %s of row %d of #%s' % (c, n + 1, name), s[c], v)
                    bad += 1
    return bad


def mixed_case_hits(posting_rows):
    """lookups (per function) of a key that carries an upper-case letter and that have a value (non-vacuity of the key
    space: such keys are looked up where they are present)"""
    hits = {}
    for r in posting_rows or []:
        for item in r.get('lk', []):
            if item['k'] != item['k'].lower():
                for short, fn in LK_POSTINGS:
                    if item.get(short):
                        hits[fn] = hits.get(fn, 0) + 1
    return hits


def own_key_hits(posting_rows, entry_rows=()):
    """lookups (per function) of a key Beancount wrote itself (double underscore) that have a value, and meta cells that
    hold such a key (non-vacuity: these keys are looked up where they are present)"""
    hits = {}
    for r in posting_rows or []:
        for item in r.get('lk', []):
            if item['k'].startswith('__'):
                for short, fn in LK_POSTINGS:
                    if item.get(short):
                        hits[fn] = hits.get(fn, 0) + 1
    for name, rows in (('postings.meta', posting_rows), ('entries.meta', entry_rows)):
        for r in rows or []:
            m = r.get('meta')
            if isinstance(m, list) and m and any(kv[0].startswith('__') for kv in m[0]):
                hits[name] = hits.get(name, 0) + 1
    return hits


def ties(abstract_entries):
    """accounts opened / closed and currencies declared by more than one directive: {kind: how many of them}"""
    seen = {}
    for d in abstract_entries:
        if d['k'] in ('open', 'close', 'commodity'):
            k = (d['k'], d['account'] if d['k'] != 'commodity' else d['currency'])
            seen[k] = seen.get(k, 0) + 1
    out = {}
    for (kind, _), n in seen.items():
        if n > 1:
            out[kind] = out.get(kind, 0) + 1
    return out


def ledger_key(abstract_entries, history=()):
    return hashlib.blake2b(json.dumps([abstract_entries, list(history)], sort_keys=True).encode(), digest_size=8).hexdigest()


def case_variants(keys, taken, limit=4):
    """keys that differ from a key of the ledger in the case of letters only: metadata keys are case-sensitive (only
    the first character of a Beancount key has to be lower case), so these are different keys -- present in the ledger
    only if it has such a twin, otherwise missing; the specification decides"""
    out = []
    for k in keys:
        for v in (k.lower(), k.upper(), k[:1] + k[1:].swapcase()):
            if v != k and v not in taken and v not in out:
                out.append(v)
                break
        if len(out) >= limit:
            break
    return out


def user_keys(abstract_entries, limit=8):
    """the keys looked up: the located ones, the keys Beancount wrote itself (__tolerances__, __automatic__ ...: up to
    OWN_KEYS of them), the first `limit` user keys of the ledger (those with an upper-case letter first: every key shape
    is looked up), case variants of them, a key no dictionary has"""
    keys = []
    for d in abstract_entries:
        metas = [d['meta']] + [p['meta'][0] for p in d.get('postings', []) if p['meta']]
        for m in metas:
            for k, _ in m:
                if k not in keys and "'" not in k:
                    keys.append(k)
    keys = [k for k in keys if k not in ('filename', 'lineno')]
    own = [k for k in keys if k.startswith('__')][:OWN_KEYS]      # written by Beancount itself: always looked up
    keys = [k for k in keys if k not in own]
    mixed = [k for k in keys if k != k.lower()][:limit // 2]
    front = mixed + [k for k in keys if k not in mixed][:limit - len(mixed)]
    cands = mixed[:2] + [k for k in front if k not in mixed][:2] + mixed[2:]
    return ['filename', 'lineno'] + own + front + case_variants(cands, front + own) + ['no_such_key']


# ---- C2S recording ------------------------------------------------------------------------------------------------
class Recorder:
    """records one ndjson line per observed ledger; the file is handed to TLC (Trace_Ledger) in portions of at most
    CHUNK lines / CHUNK_BYTES bytes so that neither TLC nor this process ever holds the whole trace"""
    CHUNK = 500
    CHUNK_BYTES = 40 * 1000 * 1000

    def __init__(self, ctx, path):
        self.ctx = ctx
        self.path = path
        self.f = open(path, 'w')
        self.n = 0                # ids handed out (all portions)
        self.in_file = 0
        self.bytes = 0
        self.cases = {}
        self.kinds = {}
        self.uncovered = {}
        self.cells = 0
        self.lines = 0
        self.rejected = 0
        self.not_wellformed = 0
        self.selftested = False
        self.first_with_posting = None
        self.with_history = 0
        self.statements = 0
        self.forms = {}
        self.mixed = {}
        self.own = {}
        self.ties = {}

    def add(self, entries, options, kind, abstract=None, text_lookups=False, history=None):
        """observe one ledger on the real code -- after `history` (a list of abstract statements, or a function of the
        abstract ledger giving one) was executed on the connection -- and append the event; returns False if skipped
        (out of domain)"""
        ctx = self.ctx
        try:
            if abstract is None:
                abstract = lg.abstract_of(entries)['entries']
            keys = user_keys(abstract)
            history = history(abstract) if callable(history) else list(history or [])
            obs = Observation(entries, options, keys, text_lookups=text_lookups, history=history).run()
            obs.cross_checks()
        except lg.OutOfDomain as ex:
            ctx.skipped += 1
            ctx.leg('C2S', skipped_reason=str(ex)[:80])
            return False
        case = {'kind': kind, 'ledger': abstract, 'keys': keys, 'history': history}
        for key, clause, exp, got in obs.problems:
            ctx.violation(key, clause, case, 'C2S', exp, got)
        if any(obs.rows.get(t) is None for t in TABLES):
            return False          # structural problem already reported
        self.n += 1
        self.with_history += 1 if history else 0
        self.statements += obs.statements
        for h in history:
            self.forms[h['form']] = self.forms.get(h['form'], 0) + 1
        ev = {'id': self.n, 'kind': kind, 'ledger': abstract, 'keys': keys, 'history': history, 'rows': obs.rows}
        line = json.dumps(ev)
        self.f.write(line + '\n')
        self.in_file += 1
        self.bytes += len(line)
        if self.first_with_posting is None and obs.rows['postings']:
            self.first_with_posting = line
        self.cases[self.n] = case
        self.kinds[kind] = self.kinds.get(kind, 0) + 1
        for k, v in obs.uncovered.items():
            self.uncovered[k] = self.uncovered.get(k, 0) + v
        self.cells += obs.cells
        for k, v in mixed_case_hits(obs.rows['postings']).items():
            self.mixed[k] = self.mixed.get(k, 0) + v
        for k, v in own_key_hits(obs.rows['postings'], obs.rows['entries']).items():
            self.own[k] = self.own.get(k, 0) + v
        for k in ties(abstract):
            self.ties[k] = self.ties.get(k, 0) + 1
        ctx.skipped += obs.ood_cells
        ctx.case(ledger_key(abstract, history), any(d['k'] == 'txn' for d in abstract), n=obs.cells)
        if self.n <= 1:
            ctx.sample({'leg': 'C2S', 'kind': kind, 'directives': len(abstract), 'keys': keys, 'history': history,
                        'first_posting_row': (obs.rows['postings'] or [None])[0]})
        if self.in_file >= self.CHUNK or self.bytes >= self.CHUNK_BYTES:
            self.judge()
        return True

    def selftest_line(self):
        """binding self-test: a copy of a recorded line with ONE cell corrupted (account of the first posting row);
        TLC must reject exactly that cell"""
        if self.first_with_posting is None:
            return None
        ev = json.loads(self.first_with_posting)
        self.n += 1
        ev['id'] = self.n
        ev['kind'] = 'selftest-corrupted'
        ev['rows']['postings'][0]['account'] += ':Corrupted'
        self.f.write(json.dumps(ev) + '\n')
        self.in_file += 1
        self.selftested = True
        return self.n

    def judge(self):
        """TLC (Trace_Ledger) judges every line of the current portion; returns the rejected verdicts"""
        ctx = self.ctx
        if self.in_file == 0:
            return []
        selftest = None if self.selftested else self.selftest_line()
        self.f.close()
        res = ctx.tlc('Trace_Ledger', 'Trace_Ledger.cfg', leg='C2S', workers=1, env={'TRACE_FILE': self.path},
                      timeout=ctx.pick(900, 3600), jvm=('-Xss64m', '-Xmx4g'))
        rejected = [p for p in res.printed if isinstance(p, dict) and p.get('verdict') == 'rejected']
        skipped = [p for p in res.printed if isinstance(p, dict) and p.get('verdict') == 'skipped']
        if selftest is not None:
            mine = [rj for rj in rejected if rj['id'] == selftest]
            if not mine or not any(m[0] == 'postings' and m[2] == 'account' for m in mine[0]['mism']):
                raise MachineryError('binding self-test: the deliberately corrupted trace line %d was not rejected' % selftest)
            rejected = [rj for rj in rejected if rj['id'] != selftest]
        for rj in rejected:
            case = self.cases.get(rj['id'])
            seen = set()
            for t, n, c, exp in sorted(rj['mism'], key=lambda x: (x[0], x[1], x[2])):
                key = '%s.%s' % (t, c) if n else '%s:%s' % (t, c)
                if key in seen:
                    continue
                seen.add(key)
                try:
                    exp = json.loads(exp)
                except ValueError:
                    pass
                ctx.violation(key, 'row %d of #%s, column %s: not what the specification\'s traversal gives' % (n, t, c),
                              case, 'C2S', exp, None)
        if res.violated:
            raise MachineryError('Trace_Ledger reports %s' % res.violated)
        if res.post_failed or res.depth - 1 != self.in_file:
            raise MachineryError('trace not consumed: depth %d, lines %d (%s)' % (res.depth, self.in_file, res.errors[:2]))
        ctx.skipped += len(skipped)
        ctx.traces += self.in_file - len(rejected) - len(skipped) - (1 if selftest is not None else 0)
        self.lines += self.in_file
        self.rejected += len(rejected)
        self.not_wellformed += len(skipped)
        self.in_file = 0
        self.bytes = 0
        self.cases = {}
        self.f = open(self.path, 'w')
        return rejected

    def finish(self, what):
        rejected = self.judge()
        self.f.close()
        if not self.selftested and self.lines:
            raise MachineryError('binding self-test: no recorded line has a posting')
        self.ctx.leg('C2S', lines=self.lines, rejected=self.rejected, skipped_not_wellformed=self.not_wellformed,
                     kinds=self.kinds, cells=self.cells, uncovered_cells=self.uncovered, what=what,
                     ledgers_read_after_a_history=self.with_history, history_statements_executed=self.statements,
                     history_forms=self.forms, lookups_of_keys_with_upper_case_letters_having_a_value=self.mixed,
                     lookups_and_meta_cells_with_keys_written_by_beancount_itself=self.own,
                     ledgers_with_an_account_or_currency_of_several_directives=self.ties)
        return rejected


# ---- the check --------------------------------------------------------------------------------------------------------
def sort_metas(ledger):
    """the generator writes metadata in reading order; the vocabulary (and abstract_of) has it sorted by key"""
    for d in ledger:
        d['meta'].sort(key=lambda kv: kv[0])
        for q in d.get('postings', []):
            if q['meta']:
                q['meta'][0].sort(key=lambda kv: kv[0])
    return ledger


def s2c_eval(arg):
    """one generated case against the real code (runs in a worker process): returns what the main process reports"""
    p, textual = arg
    sort_metas(p['ledger'])
    abstract = {'entries': p['ledger'], 'options': {}}
    entries, options = lg.build_entries(abstract)
    if lg.abstract_of(entries)['entries'] != p['ledger']:
        return {'machinery': 'ledgergen does not round-trip a generated ledger: %s' % json.dumps(p['ledger'])[:300]}
    hist = p.get('hist', [])
    obs = Observation(entries, options, p['keys'], text_lookups=textual, history=hist).run()
    obs.cross_checks()
    viol = []
    bad = compare(lambda *a: len(viol) < 40 and viol.append(a), p['rows'], obs)
    kinds = {}
    for d in p['ledger']:
        kinds[d['k']] = kinds.get(d['k'], 0) + 1
    out = {'viol': viol, 'bad': bad, 'cells': obs.cells, 'uncovered': obs.uncovered, 'kinds': kinds,
           'mixed': mixed_case_hits(p['rows']['postings']), 'ties': ties(p['ledger']),
           'own': own_key_hits(p['rows']['postings'], p['rows']['entries']),
           'key': ledger_key(p['ledger'], hist), 'nontrivial': 'txn' in kinds, 'hist': hist, 'statements': obs.statements}
    if viol or p.get('want_ledger'):
        out.update(ledger=p['ledger'], keys=p['keys'], row1=p['rows']['postings'][:1])
    return out


class S2C:
    """the spec->code replay: a pool of worker processes forked BEFORE any TLC output is held in memory"""

    def __init__(self, ctx, rec, reload_every, procs):
        import multiprocessing
        self.ctx = ctx
        self.rec = rec
        self.reload_every = reload_every
        self.stats = {'n': 0, 'cells': 0, 'bad': 0, 'uncovered': {}, 'kinds': {}, 'unprintable': 0, 'with_history': 0,
                      'statements': 0, 'forms': {}, 'mixed': {}, 'own': {}, 'ties': {}}
        self.seen = set()
        # parse the per-table statements (about 1 s each with TatSu) once, before the workers are forked
        Observation([], lg.default_options(), []).run()
        for text in list(FROM_FORMS.values()) + list(REF_FORMS.values()):
            parsed(text)
        self.pool = multiprocessing.get_context('fork').Pool(procs) if procs > 1 else None

    def close(self):
        if self.pool is not None:
            self.pool.close()
            self.pool.join()

    def batch(self, printed, alphabet=''):
        ctx, stats = self.ctx, self.stats
        args = []
        for p in printed:
            k = (alphabet,) + tuple(p['lx'])       # lx = indices into the alphabet of the generator configuration
            if k in self.seen:
                continue
            self.seen.add(k)
            n = len(self.seen)
            if n in (2, 70) or (self.reload_every and n % self.reload_every == 0):
                p['want_ledger'] = True
            args.append((p, n % 50 == 0))
        it = self.pool.imap(s2c_eval, args, chunksize=16) if self.pool is not None else map(s2c_eval, args)
        for r in it:
            if 'machinery' in r:
                raise MachineryError(r['machinery'])
            if r['viol']:
                case = {'kind': 'gen', 'ledger': r['ledger'], 'keys': r['keys'], 'history': r['hist']}
                for key, clause, exp, got in r['viol']:
                    ctx.violation(key, clause, case, 'S2C', exp, got)
            stats['n'] += 1
            stats['cells'] += r['cells']
            stats['bad'] += r['bad']
            stats['with_history'] += 1 if r['hist'] else 0
            stats['statements'] += r['statements']
            for h in r['hist']:
                stats['forms'][h['form']] = stats['forms'].get(h['form'], 0) + 1
            for k, v in r['uncovered'].items():
                stats['uncovered'][k] = stats['uncovered'].get(k, 0) + v
            for k, v in r['kinds'].items():
                stats['kinds'][k] = stats['kinds'].get(k, 0) + v
            for k, v in r['mixed'].items():
                stats['mixed'][k] = stats['mixed'].get(k, 0) + v
            for k, v in r['own'].items():
                stats['own'][k] = stats['own'].get(k, 0) + v
            for k in r['ties']:
                stats['ties'][k] = stats['ties'].get(k, 0) + 1
            ctx.case(r['key'], r['nontrivial'], n=r['cells'])
            ctx.traces += 1
            if 'ledger' not in r:
                continue
            if stats['n'] in (2, 70):
                ctx.sample({'leg': 'S2C', 'ledger': r['ledger'], 'history': r['hist'], 'expected_postings_rows': r['row1']})
            if self.rec is not None and self.reload_every and stats['n'] % self.reload_every == 0 and r['ledger']:
                # the same ledger through beancount's own pipeline (print, parse, book, pad, validate): judged by TLC
                # in the trace leg
                try:
                    es, errs, opts = lg.load_entries({'entries': r['ledger'], 'options': {}})
                except Exception:  # noqa  (printer limits: unprintable values) -- not a property matter
                    stats['unprintable'] += 1
                    continue
                if es:
                    self.rec.add(es, opts, 'gen-reloaded', history=lambda a: random_history(self.ctx.rng, a))


def tlc(ctx, module, cfg, **kw):
    """TLC with a 4 GB heap bound: the machine is shared, and an unbounded parallel-GC heap invites the OOM killer"""
    kw.setdefault('jvm', ('-Xmx4g',))
    return ctx.tlc(module, cfg, **kw)


def run(ctx):
    ctx.rule = ('one case = one ledger read after one history of statements on its connection; evaluations = projected '
                'cells compared (every modelled column of every row of the ten tables + every metadata lookup per key); '
                'distinct = distinct (ledger, history) pairs (hash of the abstract ledger and history); '
                'non-trivial = the ledger has at least one transaction')
    ctx.assumptions += [
        'ledgers in the domain: directive and posting metadata dictionaries carry filename (str) and lineno (int); others '
        'are skipped and counted',
        'an account opened / closed or a currency declared by several directives: the statement says "the corresponding '
        'directives" / "the account-open and commodity metadata lookups" without saying which of several directives '
        'that is; taken from Beancount, whose directives the tables present (beancount.core.getters): the chronologically '
        'earliest open / close directive, the first listed one on equal dates (get_account_open_close, documented); the '
        'commodity directive listed last -- a later declaration supersedes (get_commodity_directives); one row per '
        'account / currency in #accounts / #commodities',
        'freedom left by the statement: cost_label of a posting without cost may be \'\' or NULL; any_meta of a posting '
        'without metadata dictionary may be NULL or the transaction\'s value; #accounts and #commodities are compared as '
        'sets of rows; other_accounts, tags, links, metadata dictionaries are compared as sets',
        'metadata dictionaries are presented whole: the keys Beancount writes itself while booking / interpolating / in '
        'plugins (__tolerances__, __automatic__, __residual__ ...) are keys of "the metadata" of the directive / posting '
        'like any other (the statement makes no exception: "every column equals the corresponding attribute", "NULL for '
        'missing keys"); a dictionary-valued entry (the inferred tolerances) is compared by value (currency -> number)',
        'metadata keys are case-sensitive strings (Beancount: [a-z][a-zA-Z0-9-_]+, two keys that differ in the case of a '
        'letter are different keys of one dictionary): a lookup with a case variant of a present key is a lookup of a '
        'missing key (NULL) unless the dictionary has that variant too',
        'numbers are exact reduced rationals below 2^31; a weight whose product leaves that range is skipped (counted)',
        'what a statement with OPEN / CLOSE / CLEAR qualifiers itself returns is not stated by C11: history statements are '
        'only required to give the same result again later on the connection and alone on a fresh connection (law), the '
        'specification models the prepared entries by their shape only',
        'id (hash of the directive) and balance (C12) have no counterpart in the model: declared type / consistency only',
        'TLC 1.8, Json/IOUtils community modules, CPython 3.12, Beancount 3.2.3',
    ]
    only = getattr(ctx, 'only_legs', None)
    # ---- MC
    if not only or 'MC' in only:
        # -coverage slows TLC down threefold: per-action coverage is measured on the <= 1 directive instance
        # (MC_Ledger_dup*: the alphabet of repeated open / close / commodity directives)
        for cfg, kw in [('MC_Ledger.cfg', {}), ('MC_Ledger_dup.cfg', {})] + (
                [] if ctx.quick else [('MC_Ledger4.cfg', {}), ('MC_Ledger_dup4.cfg', {})]) + [
                        ('MC_Ledger_cov.cfg', dict(coverage=True, workers=4, must_cover=(
                            'Build', 'Start', 'NextEntryE', 'NextEntryP', 'NextPosting', 'NextTyped', 'NextDirectory', 'NextCommodity', 'Finish')))]:
            res = tlc(ctx, 'MC_Ledger', cfg, leg='MC', **kw)
            if res.violated:
                ctx.violation('spec:' + ','.join(res.violated), 'TLC: the mechanism does not yield the declarative rows',
                              {'behaviour': res.behaviour[:3000]}, 'MC')
        # the connection: up to 3 statements one after the other (any table, any FROM qualifiers on the default table)
        for cfg, kw in [('MC_Ledger_conn.cfg', dict(workers=4))] + ([] if ctx.quick else [('MC_Ledger_conn3.cfg', {})]):
            res = tlc(ctx, 'MC_Ledger', cfg, leg='MC', **kw)
            if res.violated:
                ctx.violation('spec:' + ','.join(res.violated), 'TLC: a statement on a connection with a history does not '
                              'present the ledger', {'behaviour': res.behaviour[:3000]}, 'MC')
        tlc(ctx, 'MC_Ledger', 'MC_Ledger_skipfirst.cfg', leg='MC-nonvacuity', expect_violation='MechEqDecl', workers=2)
        tlc(ctx, 'MC_Ledger', 'MC_Ledger_rowid.cfg', leg='MC-nonvacuity', expect_violation='RowidInv', workers=2)
        tlc(ctx, 'MC_Ledger', 'MC_Ledger_inplace.cfg', leg='MC-nonvacuity', expect_violation='HistoryFree', workers=2)
        # the key space distinguishes keys by the case of their letters: a lookup that lower-cases the key is rejected
        tlc(ctx, 'MC_Ledger', 'MC_Ledger_foldcase.cfg', leg='MC-nonvacuity', expect_violation='LookupsEqDecl', workers=2)
        # the meta column is the dictionary itself -- the keys Beancount wrote (__tolerances__, __automatic__) included: a
        # column that hides them (so that meta() / any_meta(), which read that column, miss present keys) is rejected
        tlc(ctx, 'MC_Ledger', 'MC_Ledger_publicmeta.cfg', leg='MC-nonvacuity', expect_violation='LookupsEqDecl', workers=2)
        tlc(ctx, 'MC_Ledger', 'MC_Ledger_publicmeta_col.cfg', leg='MC-nonvacuity', expect_violation='MechEqDecl', workers=2)
        # several directives for one currency / account: a commodity map that keeps the FIRST directive (dict.setdefault)
        # is rejected for #commodities (and, thorough tier, for commodity_meta; an open/close map that keeps the first
        # LISTED directive whatever its date for #accounts)
        tlc(ctx, 'MC_Ledger', 'MC_Ledger_firstcommodity.cfg', leg='MC-nonvacuity', expect_violation='MechEqDecl', workers=2)
        if not ctx.quick:
            tlc(ctx, 'MC_Ledger', 'MC_Ledger_firstcommodity_lk.cfg', leg='MC-nonvacuity', expect_violation='LookupsEqDecl',
                workers=4)
            tlc(ctx, 'MC_Ledger', 'MC_Ledger_listedopen.cfg', leg='MC-nonvacuity', expect_violation='MechEqDecl', workers=2)
    rec = Recorder(ctx, ctx.path('ledger_trace.ndjson'))
    # ---- S2C
    if not only or 'S2C' in only:
        s2c = S2C(ctx, rec, ctx.pick(9, 29), procs=ctx.pick(4, 8))
        stats = s2c.stats
        # the generator output is consumed in bounded portions (a 2-directive ledger line is ~10 kB of JSON)
        # Gen_LedgerDup: every ledger of <= 3 directives in which an account is opened / closed or a currency declared
        # by more than one directive (alphabet of 2 transactions + 9 such directives)
        runs = [('Gen_Ledger1.cfg', dict(env={'GEN_PART': -1})), ('Gen_LedgerDup.cfg', dict(env={'GEN_PART': -1}))]
        if not ctx.quick:
            runs += [('Gen_Ledger2.cfg', dict(env={'GEN_PART': part})) for part in range(GEN_PARTS)]
        # simulated walks of 6 directives; every walk emits ~600 ledgers (all successors of each of its states)
        for n in range(ctx.pick(1, 4)):
            w = ctx.pick(2, 8)
            runs.append(('Gen_LedgerSim.cfg', dict(simulate='num=1', depth=6, seed=ctx.seed + n, workers=w,
                                                   env={'GEN_PART': -1})))
        try:
            for cfg, kw in runs:
                res = tlc(ctx, 'Gen_Ledger', cfg, leg='GEN', **kw)
                printed = res.printed
                if cfg == 'Gen_LedgerDup.cfg' and ctx.quick and len(printed) > DUP_QUICK:
                    # quick tier: a seeded sample of the ~650 ledgers (a replay costs ~20 ms per ledger)
                    printed = random.Random(ctx.seed).sample(printed, DUP_QUICK)
                s2c.batch(printed, alphabet='dup' if cfg == 'Gen_LedgerDup.cfg' else '')
                del printed
                del res
                ctx.log('S2C %s: %d ledgers so far, %d cells, %d mismatching' % (cfg, stats['n'], stats['cells'], stats['bad']))
        finally:
            s2c.close()
        missing = [k for k in ('txn', 'open', 'close', 'commodity', 'pad', 'balance', 'note', 'event', 'query', 'price',
                               'document', 'custom') if not stats['kinds'].get(k)]
        if missing:
            raise MachineryError('vacuity: directive kinds never generated: %s' % missing)
        ctx.leg('S2C', ledgers=stats['n'], cells=stats['cells'], mismatching_cells=stats['bad'],
                directives_by_kind=stats['kinds'], uncovered_cells=stats['uncovered'],
                unprintable_for_reload=stats['unprintable'], ledgers_read_after_a_history=stats['with_history'],
                history_statements_executed=stats['statements'], history_forms=stats['forms'],
                lookups_of_keys_with_upper_case_letters_having_a_value=stats['mixed'],
                lookups_and_meta_cells_with_keys_written_by_beancount_itself=stats['own'],
                ledgers_with_an_account_or_currency_of_several_directives=stats['ties'])
        missing = [k for k in ('open', 'close', 'commodity') if not stats['ties'].get(k)]
        if missing:
            raise MachineryError('vacuity: no generated ledger has several %s directives for one account / currency' % missing)
        # (open_meta / commodity_meta need an open / commodity directive and a posting in ONE ledger: every pair in the
        # thorough tier, as the simulated walks happen to go in the quick one -- the recorded leg has its own guard)
        missing = [fn for fn in ('meta', 'entry_meta', 'any_meta') + (() if ctx.quick else ('open_meta', 'commodity_meta'))
                   if not stats['mixed'].get(fn)]
        if missing:
            raise MachineryError('vacuity: no generated ledger has a key with an upper-case letter where %s finds it' % missing)
        missing = [fn for fn in ('meta', 'entry_meta', 'any_meta', 'postings.meta', 'entries.meta') if not stats['own'].get(fn)]
        if missing:
            raise MachineryError('vacuity: no generated ledger has a key written by Beancount itself (__key__) where %s '
                                 'shows it' % missing)
        if not stats['with_history'] or not stats['forms'].get('agg') or stats['with_history'] == stats['n']:
            raise MachineryError('vacuity: the generator emitted %d of %d ledgers with a history (forms %s)'
                                 % (stats['with_history'], stats['n'], stats['forms']))
    # ---- C2S
    if not only or 'C2S' in only:
        rng = ctx.rng

        def hist(a):
            return random_history(rng, a)
        entries, errors, options = lg.example_entries(seed=ctx.seed % 1000)
        wins = lg.windows(entries, 40)
        if ctx.quick:
            wins = wins[:2] + rng.sample(wins[2:], min(8, max(0, len(wins) - 2)))
        for n, wdw in enumerate(wins):
            rec.add(wdw, options, 'example-window', text_lookups=(n == 0), history=hist if n else [])
        for n in range(ctx.pick(100, 2000)):
            a = lg.random_ledger(rng, rng.randint(3, 36), direct=True)
            es, opts = lg.build_entries(a)
            rec.add(es, opts, 'random-direct', abstract=a['entries'], history=hist)
        for n in range(ctx.pick(40, 600)):
            a = lg.random_ledger(rng, rng.randint(8, 40), direct=False)
            es, errs, opts = lg.load_entries(a)
            rec.add(es, opts, 'random-loaded', history=hist)
        if rec.n == 0 and ctx.violations:
            ctx.log('C2S: no ledger could be observed (violations already reported); nothing for TLC to judge')
        elif rec.n == 0:
            raise MachineryError('C2S: nothing recorded')
        else:
            rec.finish('example ledger windows of 40 directives; random direct ledgers; random printed+loaded ledgers '
                       '(booking, padding; both with commodities re-declared and accounts opened / closed again); reloaded '
                       'generator ledgers; each read after a random history of 0..4 statements on the same connection')
            if rec.lines and not rec.with_history:
                raise MachineryError('vacuity: no recorded ledger was read after a history')
            if rec.lines and not ctx.violations and not (rec.ties.get('commodity') and rec.ties.get('open')):
                raise MachineryError('vacuity: no recorded ledger declares a currency / opens an account by several '
                                     'directives (%s)' % rec.ties)
            missing = [fn for fn in ('meta', 'entry_meta', 'any_meta', 'postings.meta', 'entries.meta') if not rec.own.get(fn)]
            if rec.lines and not ctx.violations and missing:
                raise MachineryError('vacuity: no recorded ledger has a key written by Beancount itself (__tolerances__, '
                                     '__automatic__ ...) where %s shows it (%s)' % (missing, rec.own))
            if rec.lines and not ctx.violations and not (rec.mixed.get('open_meta') and rec.mixed.get('commodity_meta')):
                raise MachineryError('vacuity: no recorded ledger has a key with an upper-case letter on an open and on a '
                                     'commodity directive that a posting looks up (%s)' % rec.mixed)
    ctx.exhaustive = False


def replay(ctx, rep):
    """rebuild the saved ledger, observe the current tree, let TLC judge it"""
    case = rep['case']
    if 'ledger' not in case:
        print('replay: case kind not replayable standalone; re-run the check')
        return 2
    a = {'entries': case['ledger'], 'options': {}}
    entries, options = lg.build_entries(a)
    rec = Recorder(ctx, ctx.path('replay.ndjson'))
    before = len(ctx.violations)
    rec.selftested = True      # a replay judges one line only
    rec.add(entries, options, 'replay', abstract=case['ledger'], history=case.get('history', []))
    rejected = rec.finish('replay') if rec.n else []
    bad = len(ctx.violations) > before or bool(rejected) or bool(ctx.known_hits)
    print('replay:', 'MISMATCH reproduced' if bad else 'no mismatch')
    return 1 if bad else 0
