"""C07 -- result shape and naming (spec/Naming.tla, BQLSelect).

MC   ShapeLaw / NameLaw on the naming model (targets written with every separator style, 0..2 pairs of outer
     parentheses, with and without alias, plain and aggregate shapes, with clauses that introduce hidden helper targets)
S2C  every single-target statement of the model (2160 plain + aggregate ones) and simulated 2..4-target statements are
     laid out as TEXT, parsed and executed by the real code on a harness table and on a subquery table: description
     names = the model's names, every row has one value per described column, and every expression-named column
     re-parses to the same expression AST; SELECT * on every table kind = the table's default columns in order
C2S  statements recorded from the real code (names written by the generator's layout, description, row arities) on
     harness, subquery and Beancount-backed tables are judged by TLC (Trace_Naming); the SELECT recorders of
     C01/C02/C03/C15 check names / datatypes / arity of every execution as well
"""
import decimal
import datetime
import json
import multiprocessing
import sys

from harness import selectcheck, selectq
from harness import tables as ht
from harness.core import MachineryError, REPO, VERIF

ROWS = [(1, 'a', 1, decimal.Decimal('0.5'), 1), (2, 'b', None, None, 2), (1, 'b', 2, decimal.Decimal('1.5'), 3), (None, None, 0, None, 4)]
LEDGER = '''
option "title" "t"
2020-01-01 open Assets:Cash USD
2020-01-01 open Expenses:Food
2020-01-01 commodity USD
  name: "dollar"
2020-01-02 * "Payee" "Narr" #tag ^link
  Assets:Cash  -10.00 USD
  Expenses:Food  10.00 USD
2020-01-03 price USD 1.1 CAD
2020-01-04 balance Assets:Cash -10.00 USD
2020-01-05 note Assets:Cash "a note"
2020-01-06 event "loc" "here"
2020-01-07 document Assets:Cash "/tmp/x.pdf"
'''


def _worker(args):
    items, repo, verif = args
    for p in (repo, verif):
        if p not in sys.path:
            sys.path.insert(0, p)
    import beanquery
    import beanquery.query_env  # noqa
    from beanquery import parser
    from harness import tables as ht2
    conn = ht2.connection(ht2.HarnessTable('g', selectcheck.COLS, ROWS))
    out = []
    for iid, m, frm in items:
        text = 'SELECT ' + ' , '.join(m['written']) + ' FROM ' + frm + m['helper']
        ev = {'id': iid, 'text': text, 'status': 'ok', 'desc': [], 'arities': [], 'reparse': []}
        try:
            stmt = parser.parse(text)
            cur = conn.execute(stmt)
            ev['desc'] = [c.name for c in cur.description]
            ev['arities'] = sorted({len(r) for r in cur.fetchall()})
            for i, t in enumerate(stmt.targets):
                if not m['bare'][i] and ' AS ' not in m['written'][i]:
                    try:
                        again = parser.parse('SELECT ' + ev['desc'][i]).targets[0].expression
                        ev['reparse'].append(again == t.expression)
                    except Exception as ex:  # noqa
                        ev['reparse'].append(False)
        except Exception as ex:  # noqa
            ev['status'] = '%s: %s' % (type(ex).__name__, str(ex)[:120])
        out.append(ev)
    return out


def run(ctx):
    ctx.rule = ('S2C: every single-target statement of the naming model (12 plain + 5 aggregate expression shapes x 4 separator '
                'styles x 0..2 outer parentheses x 3 aliases x helper clauses) and simulated 2..4-target statements, on a base table '
                'and on a subquery table; distinct by statement text; non-trivial = an expression-named or wrapped target or a helper clause')
    ctx.assumptions += ['output names of the generated statements may repeat (naming is positional)',
                        'the wildcard lists of the Beancount tables are pinned in spec/Naming.tla (Wildcard)',
                        'TLC 1.8, TatSu parser as shipped (C06 decides parser = grammar), CPython 3.12']
    msgs = []
    for cfg, kw in (('Gen_Naming1.cfg', {}), ('Gen_NamingAgg.cfg', {}),
                    ('Gen_NamingSim.cfg', dict(simulate='num=%d' % ctx.pick(3, 60), depth=6, seed=ctx.seed, workers=4)),
                    ('Gen_NamingAggSim.cfg', dict(simulate='num=%d' % ctx.pick(3, 60), depth=6, seed=ctx.seed + 1, workers=4))):
        res = ctx.tlc('Naming', cfg, leg='MC+GEN', on_json=msgs.append, **kw)
        if res.violated:
            ctx.violation('spec:' + ','.join(res.violated), 'naming law fails on the model', {'behaviour': res.behaviour[:2000]}, 'MC')
    cap = ctx.pick(2600, 40000)
    if len(msgs) > cap:
        head = [m for m in msgs if len(m['written']) == 1]
        rest = [m for m in msgs if len(m['written']) > 1]
        ctx.rng.shuffle(rest)
        ctx.rng.shuffle(head)
        msgs = head[:cap * 2 // 3] + rest[:max(0, cap - min(len(head), cap * 2 // 3))]
    items = []
    for i, m in enumerate(msgs):
        frm = '#g' if i % 3 else '(SELECT * FROM #g)'
        items.append((i, m, frm))
    nproc = 12
    with multiprocessing.get_context('fork').Pool(nproc) as pool:
        results = pool.map(_worker, [(items[k::nproc], REPO, VERIF) for k in range(nproc)])
    events = {e['id']: e for r in results for e in r}
    trace = []
    for iid, m, frm in items:
        ev = events[iid]
        nontrivial = any((not b) for b in m['bare']) or bool(m['helper'])
        ctx.case(ev['text'], nontrivial)
        ctx.traces += 1
        if iid < 2:
            ctx.sample({'leg': 'S2C', 'text': ev['text'], 'spec_names': m['names'], 'observed': ev['desc']})
        key = 'naming:' + ('agg' if 'count' in ev['text'] or 'sum' in ev['text'] else 'plain')
        if ev['status'] != 'ok':
            ctx.violation(key + ':' + ev['status'].split(':')[0], 'generated statement fails: ' + ev['status'], {'text': ev['text']}, 'S2C')
            continue
        if ev['desc'] != list(m['names']):
            ctx.violation(key + ':names', 'description names', {'text': ev['text']}, 'S2C', m['names'], ev['desc'])
            continue
        if any(a != len(m['names']) for a in ev['arities']):
            ctx.violation(key + ':arity', 'row arity', {'text': ev['text']}, 'S2C', len(m['names']), ev['arities'])
        if not all(ev['reparse']):
            ctx.violation(key + ':reparse', 'an expression-named column does not parse back to its expression', {'text': ev['text']}, 'S2C',
                          m['names'], ev['reparse'])
        trace.append({'id': iid, 'ntargets': len(m['names']), 'star': 0, 'kind': 'harness', 'cols': [], 'names': m['names'],
                      'desc': ev['desc'], 'arities': ev['arities']})
    ctx.leg('S2C', statements=len(items))
    if len(items) < 1500:
        raise MachineryError('too few naming statements: %d' % len(items))
    # ---- wildcard on every table kind + C2S
    import beanquery
    from beancount import loader
    entries, errors, options = loader.load_string(LEDGER)
    lconn = beanquery.connect('beancount:', entries=entries, errors=errors, options=options)
    hconn = ht.connection(ht.HarnessTable('g', selectcheck.COLS, ROWS))
    nid = 10 ** 6
    kinds = {'postings': 'postings', 'entries': 'other', 'accounts': 'other', 'commodities': 'other'}
    for conn, tname in [(hconn, 'g')] + [(lconn, n) for n in lconn.tables if n]:
        table = conn.tables[tname]
        cols = list(table.columns.keys())
        kind = kinds.get(tname, 'typed' if conn is lconn else 'harness')
        for frm, k2, c2 in [('#' + tname, kind, cols)]:
            nid += 1
            status, desc, rows = selectq.run_query(conn, 'SELECT * FROM ' + frm)
            if status != 'ok':
                ctx.violation('wildcard:%s:%s' % (tname, type(desc).__name__), 'SELECT * fails: %s' % desc, {'table': tname}, 'C2S')
                continue
            trace.append({'id': nid, 'ntargets': 0, 'star': 1, 'kind': k2, 'cols': c2, 'names': [],
                          'desc': [c.name for c in desc], 'arities': sorted({len(r) for r in rows})})
            # the same through a subquery: q's description unchanged
            nid += 1
            st2, d2, r2 = selectq.run_query(conn, 'SELECT * FROM (SELECT * FROM %s)' % frm)
            if st2 == 'ok':
                trace.append({'id': nid, 'ntargets': 0, 'star': 1, 'kind': 'other', 'cols': [c.name for c in desc], 'names': [],
                              'desc': [c.name for c in d2], 'arities': sorted({len(r) for r in r2})})
            else:
                ctx.violation('wildcard:%s:subquery:%s' % (tname, type(d2).__name__), 'SELECT * FROM (SELECT * ...) fails: %s' % d2, {'table': tname}, 'C2S')
    # a parsed `SELECT *` is re-used: the wildcard follows the table the statement runs against each time
    from beanquery import parser as _parser
    star = _parser.parse('SELECT * FROM #items')
    star_sub = _parser.parse('SELECT * FROM (SELECT * FROM #items)')
    layouts = [[('sku', 'str'), ('qty', 'int')], [('qty', 'int'), ('price', 'Decimal'), ('sku', 'str')], [('x', 'int')],
               [('sku', 'str'), ('qty', 'int')]]
    shared = ht.connection()
    for stmt, label in ((star, 'star'), (star_sub, 'star-subquery')):
        for lay in layouts:
            row = tuple({'str': 'a', 'int': 1, 'Decimal': decimal.Decimal('1.5')}[t] for _, t in lay)
            for conn in (ht.connection(ht.HarnessTable('items', lay, [row])), shared):
                conn.tables['items'] = ht.HarnessTable('items', lay, [row])
                nid += 1
                status, desc, rows = selectq.run_query(conn, stmt)
                if status != 'ok':
                    ctx.violation('wildcard:reused-ast:%s:%s' % (label, type(desc).__name__), 're-executing a parsed SELECT * fails: %s' % desc,
                                  {'layout': lay}, 'C2S')
                    continue
                trace.append({'id': nid, 'ntargets': 0, 'star': 1, 'kind': 'harness', 'cols': [n for n, _ in lay], 'names': [],
                              'desc': [c.name for c in desc], 'arities': sorted({len(r) for r in rows})})
    # a table that declares its own default columns (wildcard_columns): another order than, and a subset of, its columns
    class OwnDefaults(ht.HarnessTable):
        wildcard_columns = ('symbol', 'qty', 'day')

    own = OwnDefaults('own', [('id', 'int'), ('day', 'date'), ('symbol', 'str'), ('qty', 'int'), ('note', 'str')],
                      [(1, datetime.date(2020, 1, 2), 'a', 3, 'x'), (2, None, 'b', None, None)])
    oconn = ht.connection(own)
    for text in ('SELECT * FROM #own', 'SELECT * FROM (SELECT * FROM #own)', 'SELECT * FROM #own WHERE id > 5', 'SELECT * FROM #own ORDER BY id DESC'):
        nid += 1
        status, desc, rows = selectq.run_query(oconn, text)
        if status != 'ok':
            ctx.violation('wildcard:own-defaults:%s' % type(desc).__name__, 'SELECT * fails: %s' % desc, {'text': text}, 'C2S')
            continue
        trace.append({'id': nid, 'ntargets': 0, 'star': 1, 'kind': 'harness', 'cols': list(OwnDefaults.wildcard_columns), 'names': [],
                      'desc': [c.name for c in desc], 'arities': sorted({len(r) for r in rows})})
        if rows and text.endswith('#own') and [tuple(r) for r in rows] != [('a', 3, datetime.date(2020, 1, 2)), ('b', None, None)]:
            ctx.violation('wildcard:own-defaults:values', 'SELECT * : the values are not those of the default columns in their declared order',
                          {'text': text}, 'C2S', "[('a', 3, 2020-01-02), ('b', None, None)]", repr(rows))
    # ledger statements with expression names and hidden helpers
    for text, names in [
            ('SELECT account, number * 2, year(date) AS y FROM #postings ORDER BY date, lineno', ['account', 'number * 2', 'y']),
            ('SELECT account, sum(number) FROM #postings GROUP BY account, account_sortkey(account), currency ORDER BY account_sortkey(account)', ['account', 'sum(number)']),
            ('SELECT  ( narration ) , payee FROM #transactions ORDER BY date DESC', ['narration', 'payee']),
            ('SELECT account, count( * ) FROM #notes GROUP BY account HAVING count(*) > 0', ['account', 'count( * )']),
            ('SELECT date, type FROM #entries WHERE type = "open" ORDER BY id', ['date', 'type'])]:
        nid += 1
        status, desc, rows = selectq.run_query(lconn, text)
        if status != 'ok':
            ctx.violation('naming:ledger:' + type(desc).__name__, 'ledger statement fails: %s' % desc, {'text': text}, 'C2S')
            continue
        trace.append({'id': nid, 'ntargets': len(names), 'star': 0, 'kind': 'ledger', 'cols': [], 'names': names,
                      'desc': [c.name for c in desc], 'arities': sorted({len(r) for r in rows})})
    path = ctx.path('naming.ndjson')
    with open(path, 'w') as f:
        for ev in trace:
            f.write(json.dumps(ev) + '\n')
    res = ctx.tlc('Trace_Naming', 'Trace_Naming.cfg', leg='C2S', workers=1, env={'TRACE_FILE': path})
    nrej = 0
    for rj in res.printed:
        if isinstance(rj, dict) and rj.get('verdict') == 'rejected':
            ev = trace[rj['line'] - 1]
            nrej += 1
            ctx.violation('naming:%s:%s:%s' % (ev['kind'], 'star' if ev['star'] else 'targets', rj['clause']),
                          'recorded description not explained by the naming rule', ev, 'C2S', rj.get('expected'), ev['desc'])
    if res.post_failed or res.depth - 1 != len(trace):
        raise MachineryError('Trace_Naming did not consume the trace')
    ctx.traces += len(trace) - nrej
    ctx.leg('C2S', lines=len(trace), rejected=nrej)
    # ---- hidden targets never leak: the SELECT mechanism's projection, replayed on the real code
    selectcheck.run_mc_and_replay(ctx, 'group', 2, 3, 3, 5)
    ctx.exhaustive = False


def replay(ctx, rep):
    case = rep['case']
    if 'q' in case:
        return selectcheck.replay_case(ctx, rep)
    print(json.dumps(case)[:800])
    return 1
