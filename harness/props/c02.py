"""C02 -- aggregation: groups partition rows, aggregates fold each group, HAVING filters (spec/BQLSelect.tla).

MC   the stepped store mechanism (one action per source row: create / update the row's group; finalize; HAVING) against
     GroupLaw (partition by key, first-appearance order), Additivity, HavingLaw, GroupIsolation (action property) on all
     tables of <= 3 rows x ~170 aggregate query shapes (grouping by expression / output name / position, visible /
     hidden / implicit, every aggregate, arithmetic over aggregates, WHERE, HAVING); non-vacuity: one accumulator
     shared by all groups must be refuted
S2C  each (table, query) state with the terminal rows replayed on the real code (hand-built AST, every 37th as text)
C2S  random 0..30-row tables x random aggregate queries executed on the real code and judged by TLC (Trace_Select)
"""
from harness import selectcheck


def run(ctx):
    ctx.rule = ('S2C: all tables of <= 3 (quick, every 2nd) / <= 4 rows drawn from 8 row values x the aggregate query space; '
                'distinct = (query skeleton, table); non-trivial = table non-empty; C2S: random tables / queries')
    ctx.assumptions += ['group keys compare by Python equality; decimals exact small rationals',
                        'expressions over aggregates limited to arithmetic / comparison / AND / OR / NOT / IS NULL',
                        'TLC 1.8, CPython 3.12, harness/bql.py + selectq.py (projection)']
    selectcheck.run_mc_and_replay(ctx, 'group', 3, 2, 4, 3, nonvac=('sharedgroup', 'GroupLaw'))
    selectcheck.record_and_validate(ctx, 'group', ctx.pick(1500, 20000), 30)
    selectcheck.typed_tables_leg(ctx, 'group', ctx.pick(120, 1500))
    # grouping over FROM (subquery): keys that are columns of the subquery, selected or not
    selectcheck.record_and_validate(ctx, 'nested', ctx.pick(500, 8000), 16)
    ctx.exhaustive = False


def replay(ctx, rep):
    return selectcheck.replay_case(ctx, rep)
