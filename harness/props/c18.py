"""C18 -- scalar function library: calendar, account-name, string, numeric laws and casts.

spec: Calendar.tla, Accounts.tla, Strings.tla, Numeric.tla (operators transcribed from the statement and Python's
      documented semantics), ScalarLib.tla (the function table Apply(form, constants, column arguments)).

legs: MC   TLC checks the laws of the statement on the model: MC_Calendar (every date of 1900..2100, all units,
           strides, origins; quick strides through the range), MC_Accounts, MC_Strings, MC_Numeric;
           MC_Calendar_walk: date_bin as the code computes it (walk from the origin) satisfies the same laws;
           MC_Accounts also renames every account into other type tables (the five root names are ledger options)
           and checks the laws and possign as the code computes it there;
           MC_DateCast: date(<text>) read in the format %Y-%m-%d (month / day of one or two digits) inverts every such
           spelling of every date, rejects the other ISO 8601 spellings and near misses, as a left-to-right scan does;
           non-vacuity: MC_DateCast_iso (a conversion reading ISO 8601 calendar dates) must violate CastInv,
           MC_Calendar_shipped (the walk before repair 5c4d63a, `n >= source`) must violate BinInv,
           MC_Accounts_default_types (possign consulting the built-in names, not the ledger's) must violate MechInv
      S2C  Gen_C18 emits spec-derived boundary cases with the value the spec demands; every case is evaluated
           THROUGH BQL (SELECT f(consts, x0, ..) FROM #cases over a harness table, one query per job) and compared
      C2S  the recorder evaluates every function form through BQL over exhaustive harness tables (all dates of
           1900..2100, all account names, all short strings x index arguments, decimals, cast inputs, plus
           seeded random longer inputs), writes ndjson batches, and Trace_C18 judges every row inside TLC
      S2C and C2S evaluate account_sortkey / possign (decimal, amount, position, inventory; account from a column or a
           literal) also on connections whose ledger options rename the root types (the "_t" forms: the type table is
           the constant part of the case), several such connections open side by side in one process

The oracle is always ScalarLib!Apply evaluated by TLC; Python only builds tables / statements, projects result
cells into the spec's vocabulary and compares for equality.
"""
import concurrent.futures as cf
import datetime
import decimal
import fractions
import json
import os
import time

from harness import tables as ht
from harness import tlc as tlcmod
from harness.core import MachineryError

D = decimal.Decimal
LO = datetime.date(1900, 1, 1).toordinal()
HI = datetime.date(2100, 12, 31).toordinal()
ALPHABET = ['a', 'B', ':', ' ']
ROOTS = ['Assets', 'Liabilities', 'Equity', 'Income', 'Expenses']
INT32 = 2 ** 31
JVM = ('-Xmx4g', '-XX:ParallelGCThreads=4')


# ---------------------------------------------------------------------------------------------------------
# vocabulary: spec value -> Python cell value, Python result -> tagged spec value
# ---------------------------------------------------------------------------------------------------------
def dec_of(nd):
    return D(nd[0]) / D(nd[1])


def pat_text(p):
    return (('^' if p['bol'] else '') + p['pre'] + ('(' + p['grp'] + ')' if p['g'] else p['grp']) + p['post']
            + ('$' if p['eol'] else ''))


def obj_of(t):
    tag = t[0]
    if tag == 'i':
        return int(t[1])
    if tag == 'b':
        return bool(t[1])
    if tag == 'q':
        return D(t[1]) / D(t[2])
    if tag == 's':
        return t[1]
    if tag == 'd':
        return datetime.date.fromordinal(t[1])
    if tag == 'x':
        return D(t[1])
    raise ValueError(t)


CURRENCY = 'USD'


def amt_of(nd):
    from beancount.core import amount
    return amount.Amount(dec_of(nd), CURRENCY)


def pos_of(nd):
    from beancount.core import position
    return position.Position(amt_of(nd), None)


def inv_of(nd):
    from beancount.core import inventory
    return inventory.Inventory([pos_of(nd)])


DECODE = {'date': datetime.date.fromordinal, 'int': int, 'str': str, 'dec': dec_of, 'pat': pat_text,
          'set': set, 'bool': bool, 'obj': obj_of, 'decx': obj_of, 'amt': amt_of, 'pos': pos_of, 'inv': inv_of}
DTYPE = {'date': 'date', 'int': 'int', 'str': 'str', 'dec': 'Decimal', 'pat': 'str', 'set': 'set', 'bool': 'bool',
         'obj': 'object', 'decx': 'Decimal'}


def dtype_of(kind):
    """column datatype of a cell kind (a name known to harness.tables or the class itself)"""
    if kind in DTYPE:
        return DTYPE[kind]
    from beancount.core import amount, inventory, position
    return {'amt': amount.Amount, 'pos': position.Position, 'inv': inventory.Inventory}[kind]


def proj(x):
    """result cell -> tagged value of the spec's vocabulary"""
    if x is None:
        return ['n']
    if x is True or x is False:
        return ['b', 1 if x else 0]
    if isinstance(x, int):
        return ['i', x] if abs(x) < INT32 else ['ood', 'bigint']
    if isinstance(x, D):
        if x.is_nan():
            return ['x', 'NaN']
        if x.is_infinite():
            return ['x', '-Infinity' if x < 0 else 'Infinity']
        fr = fractions.Fraction(x)
        if abs(fr.numerator) < INT32 and fr.denominator < INT32:
            return ['q', fr.numerator, fr.denominator]
        if abs(x) < 2000:
            return ['qa', int((x * 1000000).to_integral_value(rounding=decimal.ROUND_FLOOR))]
        return ['ood', 'bigdec']
    if isinstance(x, datetime.date):
        return ['d', x.toordinal()]
    if isinstance(x, str):
        return ['s', x]
    return ['ood', type(x).__name__]


def qs(s):
    assert "'" not in s
    return "'%s'" % s


def qi(n):
    return str(n) if n >= 0 else '(%d)' % n


def qd(o):
    return datetime.date.fromordinal(o).isoformat()


def ivl(n, unit):
    """interval('N unit') in one of the spellings the function documents"""
    k = (n * 7 + len(unit)) % 4
    text = ['%d %s', '%d %ss', '%+d %s', '%d  %ss'][k] % (n, unit)
    return 'interval(%s)' % qs(text)


CAST_RT = {'bool': 'b', 'int': 'i', 'decimal': 'q', 'str': 's', 'date': 'd'}

# form -> (column kinds, BQL expression text, regular result tag); each may be a function of the constants c
FORMS = {
    'date_trunc': (['date'], lambda c: 'date_trunc(%s, x0)' % qs(c[0]), 'd'),
    'date_part': (['date'], lambda c: 'date_part(%s, x0)' % qs(c[0]), 'i'),
    'year': (['date'], 'year(x0)', 'i'),
    'month': (['date'], 'month(x0)', 'i'),
    'day': (['date'], 'day(x0)', 'i'),
    'yearmonth': (['date'], 'yearmonth(x0)', 'd'),
    'quarter': (['date'], 'quarter(x0)', 's'),
    'weekday': (['date'], 'weekday(x0)', 's'),
    'date_add': (['date'], lambda c: 'date_add(x0, %s)' % qi(c[0]), 'd'),
    'date_add_col': (['date', 'int'], 'date_add(x0, x1)', 'd'),
    'date_diff': (['date', 'date'], 'date_diff(x0, x1)', 'i'),
    'add_date_int': (['date'], lambda c: 'x0 + %s' % qi(c[0]), 'd'),
    'add_int_date': (['date'], lambda c: '%s + x0' % qi(c[0]), 'd'),
    'sub_date_int': (['date'], lambda c: 'x0 - %s' % qi(c[0]), 'd'),
    'sub_date_date': (['date', 'date'], 'x0 - x1', 'i'),
    'add_date_ival': (['date'], lambda c: 'x0 + %s' % ivl(c[0], c[1]), 'd'),
    'add_ival_date': (['date'], lambda c: '%s + x0' % ivl(c[0], c[1]), 'd'),
    'sub_date_ival': (['date'], lambda c: 'x0 - %s' % ivl(c[0], c[1]), 'd'),
    'add_date_ival2': (['date'], lambda c: 'x0 + (%s + %s)' % (ivl(c[0], c[1]), ivl(c[2], c[3])), 'd'),
    'date_bin': (['date'], lambda c: 'date_bin(%s, x0, %s)' % (ivl(c[0], c[1]), qd(c[2])), 'd'),
    'date_bin_s': (['date'], lambda c: 'date_bin(%s, x0, %s)' % (qs('%d %s' % (c[0], c[1])), qd(c[2])), 'd'),
    'date_bin_col': (['date', 'date'], lambda c: 'date_bin(%s, x0, x1)' % ivl(c[0], c[1]), 'd'),
    'date_ymd': (['int', 'int', 'int'], 'date(x0, x1, x2)', 'd'),
    'root': (['str', 'int'], 'root(x0, x1)', 's'),
    'root1': (['str'], 'root(x0)', 's'),
    'parent': (['str'], 'parent(x0)', 's'),
    'leaf': (['str'], 'leaf(x0)', 's'),
    'account_sortkey': (['str'], 'account_sortkey(x0)', 's'),
    'possign': (['dec', 'str'], 'possign(x0, x1)', 'q'),
    # the same on a connection to a ledger whose options name the five root types c[0..4] (TYPED forms)
    'account_sortkey_t': (['str'], 'account_sortkey(x0)', 's'),
    'possign_t': (['dec', 'str'], 'possign(x0, x1)', 'q'),
    'possign_tk': (['dec'], lambda c: 'possign(x0, %s)' % qs(c[5]), 'q'),
    'possign_amt': (['amt', 'str'], 'number(possign(x0, x1))', 'q'),
    'possign_pos': (['pos', 'str'], 'number(units(possign(x0, x1)))', 'q'),
    'possign_inv': (['inv', 'str'], 'number(only(%s, possign(x0, x1)))' % qs(CURRENCY), 'q'),
    'upper': (['str'], 'upper(x0)', 's'),
    'lower': (['str'], 'lower(x0)', 's'),
    'length': (['str'], 'length(x0)', 'i'),
    'length_set': (['set'], 'length(x0)', 'i'),
    'substr': (['str', 'int', 'int'], 'substr(x0, x1, x2)', 's'),
    'splitcomp': (['str', 'str', 'int'], 'splitcomp(x0, x1, x2)', 's'),
    'maxwidth': (['str', 'int'], 'maxwidth(x0, x1)', 's'),
    'grep': (['pat', 'str'], 'grep(x0, x1)', 's'),
    'grepn': (['pat', 'str', 'int'], 'grepn(x0, x1, x2)', 's'),
    'subst': (['pat', 'str', 'str'], 'subst(x0, x1, x2)', 's'),
    'findfirst': (['pat', 'set'], 'findfirst(x0, x1)', 's'),
    'joinstr': (['set'], 'joinstr(x0)', 's'),
    'abs': (['dec'], 'abs(x0)', 'q'),
    'neg': (['dec'], 'neg(x0)', 'q'),
    'round1': (['dec'], 'round(x0)', 'q'),
    'round': (['dec', 'int'], 'round(x0, x1)', 'q'),
    'round_int1': (['int'], 'round(x0)', 'i'),
    'round_int': (['int', 'int'], 'round(x0, x1)', 'i'),
    'safediv': (['dec', 'dec'], 'safediv(x0, x1)', 'q'),
    'safediv_int': (['dec', 'int'], 'safediv(x0, x1)', 'q'),
    'cast': (lambda c: [c[1]], lambda c: '%s(x0)' % c[0], lambda c: CAST_RT[c[0]]),
    # the cast of a text written as a literal in the statement (the column only gives the table its rows)
    'cast_k': (['int'], lambda c: '%s(%s)' % (c[0], qs(c[1])), lambda c: CAST_RT[c[0]]),
}


# forms evaluated on the connection whose ledger options name the root types c[0..4]
TYPED = {'account_sortkey_t', 'possign_t', 'possign_tk', 'possign_amt', 'possign_pos', 'possign_inv'}
OPTION_NAMES = ('name_assets', 'name_liabilities', 'name_equity', 'name_income', 'name_expenses')
TYPE_TABLES = [['Assets', 'Liabilities', 'Equity', 'Income', 'Expenses'],
               ['Actif', 'Passif', 'Capital', 'Revenus', 'Depenses'],
               ['Assets', 'Liabilities', 'Equity', 'Revenue', 'Costs'],
               ['Cash', 'Liabilities', 'Equity', 'Income', 'Expenses'],
               ['Income', 'Assets', 'Expenses', 'Liabilities', 'Equity']]


def types_of(f, c):
    return tuple(c[:5]) if f in TYPED else None


def form(f, c):
    kinds, text, rt = FORMS[f]
    return (kinds(c) if callable(kinds) else kinds, text(c) if callable(text) else text,
            rt(c) if callable(rt) else rt)


def generic_key(f, c):
    if f in TYPED:        # the type table is part of the case, not of the identity of what fails
        return ':'.join([f, 'default-types' if list(c[:5]) == TYPE_TABLES[0] else 'renamed-types'])
    if f == 'cast_k':     # the text is part of the case
        return ':'.join([f, c[0]])
    return ':'.join([f] + [x for x in c if isinstance(x, str)])


# ---------------------------------------------------------------------------------------------------------
# evaluation through BQL
# ---------------------------------------------------------------------------------------------------------
_PARSED = {}


def parsed(text):
    from beanquery import parser
    if text not in _PARSED:
        _PARSED[text] = parser.parse(text)
    return _PARSED[text]


def make_conn(types=None):
    """a connection to an (empty) Beancount ledger: with the default options, or with the options that name the
    five root account types `types` (possign / account_sortkey read the account types of their connection)"""
    import beanquery
    from beancount.parser import options
    opts = options.OPTIONS_DEFAULTS
    if types is not None:
        opts = dict(opts)
        opts.update(zip(OPTION_NAMES, types))
    return beanquery.connect('beancount:', entries=[], errors=[], options=opts)


def _run(conn, stmt, cols, cells):
    import beanquery
    conn.tables['cases'] = ht.HarnessTable('cases', cols, cells)
    try:
        rows = conn.execute(stmt).fetchall()
    except (beanquery.CompilationError, beanquery.ParseError) as ex:
        return [['err', type(ex).__name__]] * len(cells)
    except Exception as ex:  # noqa  (a row raised: find which)
        if len(cells) == 1:
            return [['err', type(ex).__name__]]
        mid = len(cells) // 2
        return _run(conn, stmt, cols, cells[:mid]) + _run(conn, stmt, cols, cells[mid:])
    if len(rows) != len(cells):
        raise MachineryError('query over %d harness rows returned %d rows' % (len(cells), len(rows)))
    return [proj(r[0]) for r in rows]


def evaluate(f, c, vrows):
    """evaluate form f with constants c on every tuple of column arguments; returns tagged observations.  The
    connections of one process (one per type table) stay open side by side and are used in turn"""
    conn = _conn(types_of(f, c))
    kinds, text, _ = form(f, c)
    dec = [DECODE[k] for k in kinds]
    cells = [tuple(d(x) for d, x in zip(dec, v)) for v in vrows]
    cols = [('x%d' % i, dtype_of(k)) for i, k in enumerate(kinds)]
    stmt = parsed('SELECT %s AS r FROM #cases' % text)
    return _run(conn, stmt, cols, cells)


# ---------------------------------------------------------------------------------------------------------
# trace files and the TLC judge
# ---------------------------------------------------------------------------------------------------------
class TraceWriter:
    def __init__(self, path, chunk):
        self.path = path
        self.chunk = chunk
        self.f = open(path, 'w')
        self.lines = 0
        self.cells = 0
        self.index = []          # per line: (f, c)

    def add(self, f, c, vrows, obs):
        _, _, rt = form(f, c)
        w = len(vrows[0]) + 1 if vrows else 1
        for i in range(0, len(vrows), self.chunk):
            flat, xrows = [], []
            for v, o in zip(vrows[i:i + self.chunk], obs[i:i + self.chunk]):
                if o[0] == rt and rt != 'q':
                    flat.extend(v)
                    flat.append(o[1])
                elif o[0] == rt:
                    flat.extend(v)
                    flat.append([o[1], o[2]])
                else:
                    xrows.append(list(v) + [o])
            self.f.write(json.dumps({'f': f, 'c': c, 'w': w, 'rt': rt, 'flat': flat, 'xrows': xrows}) + '\n')
            self.lines += 1
            self.index.append((f, c))
        self.cells += len(vrows)

    def close(self):
        self.f.close()


class TLCPool:
    """TLC runs in worker threads (harness.tlc.run is a pure subprocess call); bookkeeping in the main thread"""

    def __init__(self, ctx, parallel, tag):
        self.ctx = ctx
        self.pool = cf.ThreadPoolExecutor(parallel)
        self.tag = tag
        self.n = 0

    def submit(self, module, cfg, leg, **kw):
        self.n += 1
        work = self.ctx.path('tlc-%s-%d' % (self.tag, self.n))
        kw.setdefault('timeout', self.ctx.pick(1800, 5400))
        # small heaps / few GC threads: up to six TLC processes of this check run side by side
        kw['jvm'] = tuple(kw.get('jvm', ())) + JVM
        fut = self.pool.submit(tlcmod.run, module, cfg, work, **kw)
        fut.meta = (module, cfg, leg)
        return fut

    def result(self, fut, expect_violation=None):
        ctx = self.ctx
        module, cfg, leg = fut.meta
        try:
            res = fut.result()
        except tlcmod.TLCError as ex:
            raise MachineryError('%s/%s: %s' % (module, cfg, ex)) from ex
        ctx.states += res.distinct
        ctx.transitions += res.generated
        s = res.summary()
        s.update(leg=leg, module=module, cfg=cfg)
        ctx.tlc_runs.append(s)
        ctx.log('TLC %s %s/%s: %d generated, %d distinct, depth %d, %d printed, %.1fs%s' % (
            leg, module, cfg, res.generated, res.distinct, res.depth, len(res.printed), res.wall,
            (' VIOLATED ' + ','.join(res.violated)) if res.violated else ''))
        if expect_violation is not None and expect_violation not in res.violated:
            raise MachineryError('non-vacuity run %s/%s: expected TLC to violate %s, got %s' % (
                module, cfg, expect_violation, res.violated))
        if expect_violation is None and res.post_failed:
            raise MachineryError('%s/%s: postcondition failed (%s)' % (module, cfg, res.errors[:2]))
        return res

    def shutdown(self):
        self.pool.shutdown(wait=False, cancel_futures=True)


def report_rejected(ctx, rj, leg):
    key = rj.get('key') or generic_key(rj['f'], rj['c'])
    case = {'f': rj['f'], 'c': rj['c'], 'v': rj['v']}
    kinds, text, _ = form(rj['f'], rj['c'])
    case['bql'] = 'SELECT %s FROM #cases  -- columns %s' % (text, ', '.join(
        'x%d=%r' % (i, DECODE[k](x)) for i, (k, x) in enumerate(zip(kinds, rj['v']))))
    return ctx.violation(key, 'the specification (ScalarLib!Apply) does not explain the observed value of %s' % rj['f'],
                         case, leg, rj.get('exp'), rj.get('obs'))


def judge_result(ctx, res, writer, leg, what, count=True):
    """digest the verdicts of one Trace_C18 run"""
    if res.violated or res.errors:
        raise MachineryError('Trace_C18 on %s: %s %s' % (what, res.violated, res.errors[:2]))
    lines = [p for p in res.printed if isinstance(p, dict) and p.get('verdict') == 'line']
    rejected = [p for p in res.printed if isinstance(p, dict) and p.get('verdict') == 'rejected']
    if len(lines) != writer.lines or len({p['line'] for p in lines}) != writer.lines:
        raise MachineryError('Trace_C18 on %s judged %d of %d lines' % (what, len(lines), writer.lines))
    n = sum(p['n'] for p in lines)
    if n != writer.cells:
        raise MachineryError('Trace_C18 on %s judged %d of %d rows' % (what, n, writer.cells))
    ood = sum(p['ood'] for p in lines)
    bad = sum(p['bad'] for p in lines)
    badknown = sum(p.get('badknown', 0) for p in lines)
    shown_unknown = {}
    for rj in rejected:
        known = report_rejected(ctx, rj, leg)
        if not known:
            shown_unknown[rj['line']] = shown_unknown.get(rj['line'], 0) + 1
    # rejected rows beyond the printed ones still count for their key
    for p in lines:
        unknown = p['bad'] - p.get('badknown', 0)
        extra = unknown - shown_unknown.get(p['line'], 0)
        if extra > 0:
            f, c = writer.index[p['line'] - 1]
            k = generic_key(f, c)
            if k in ctx.violation_keys:
                ctx.violation_keys[k] += extra
    if count:
        ctx.skipped += ood
        ctx.bulk(n - ood)
        ctx.evaluations += n
    ctx.traces += n - ood - bad
    ctx.leg(leg, **{'rows_' + what: n, 'ood_' + what: ood, 'rejected_' + what: bad, 'rejected_known_' + what: badknown})
    return n, ood, bad


class CountingSet(set):
    """ctx.distinct with a counter for bulk cells that are distinct by construction (no need to hash millions)"""
    extra = 0

    def __len__(self):
        return set.__len__(self) + self.extra


# ---------------------------------------------------------------------------------------------------------
# C2S domains (in the spec's vocabulary)
# ---------------------------------------------------------------------------------------------------------
def is_first(o):
    return datetime.date.fromordinal(o).day == 1


def date_sets(ctx):
    """core: trunc / part / extract forms; main: one or two constants of every other form; rest: the remaining
    constants; window: date_bin with month / year strides (the shipped implementation walks from the origin)"""
    firsts = [o for o in range(LO, HI + 2) if is_first(o)]

    def around(pred):
        out = set()
        for o in firsts:
            if pred(datetime.date.fromordinal(o)):
                out.update((o - 1, o, o + 1))
        return out
    inr = lambda s: sorted(x for x in s if LO <= x <= HI)  # noqa
    q1 = inr(set(range(LO, HI + 1, 7)) | around(lambda d: True))
    # (month == 3: the days around the end of February, where interval arithmetic clips)
    q2 = inr(set(range(LO, HI + 1, 31)) | around(lambda d: d.month in (1, 3, 4, 7, 10)))
    q3 = inr(set(range(LO, HI + 1, 97)) | around(lambda d: d.month in (1, 3)) | {LO, HI})
    every = list(range(LO, HI + 1))
    w0, w1 = datetime.date(2016, 1, 1).toordinal(), datetime.date(2024, 12, 31).toordinal()
    window = list(range(w0, w1 + 1))
    if ctx.quick:
        return {'core': q1, 'main': q2, 'rest': q3, 'window': [o for o in window if o % 3 == 0 or is_first(o)]}
    return {'core': every, 'main': every, 'rest': q1, 'window': window}


def partner(o):
    return LO + (o * 7919 + 13) % (HI - LO + 1)


def calendar_jobs(ctx, ds):
    rng = ctx.rng
    units = ['week', 'month', 'quarter', 'year', 'decade', 'century', 'millennium']
    fields = ['weekday', 'dow', 'isoweekday', 'isodow', 'week', 'month', 'quarter', 'year', 'isoyear', 'decade',
              'century', 'millennium', 'epoch']
    one = lambda s: [[o] for o in s]  # noqa
    two = lambda s: [[o, partner(o)] for o in s]  # noqa
    jobs = []
    for u in units + ['fortnight', 'WEEK', '']:
        jobs.append(('date_trunc', [u], one(ds['core'] if u in units else ds['rest'])))
    for f in fields + ['doy', 'Year']:
        jobs.append(('date_part', [f], one(ds['core'] if f in fields else ds['rest'])))
    for f in ('year', 'month', 'day', 'yearmonth', 'quarter', 'weekday'):
        jobs.append((f, [], one(ds['core'])))
    # day arithmetic
    rn = rng.randint(-40000, 40000)
    jobs.append(('date_add', [rn], one(ds['main'])))
    for n in (-366, -1, 0, 1, 365):
        jobs.append(('date_add', [n], one(ds['rest'])))
    jobs.append(('date_add_col', [], [[o, (o * 31) % 2001 - 1000] for o in ds['main']]))
    jobs.append(('date_diff', [], two(ds['main'])))
    jobs.append(('sub_date_date', [], two(ds['main'])))
    jobs.append(('date_diff', [], [[o, o + (o % 63) - 31] for o in ds['rest']]))
    jobs.append(('add_date_int', [rng.randint(1, 500)], one(ds['main'])))
    jobs.append(('add_int_date', [rng.randint(-500, -1)], one(ds['main'])))
    jobs.append(('sub_date_int', [rng.randint(1, 500)], one(ds['main'])))
    for n in (-1, 31):
        jobs.append(('add_date_int', [n], one(ds['rest'])))
        jobs.append(('sub_date_int', [n], one(ds['rest'])))
    # interval arithmetic
    for iv in ([1, 'month'], [-1, 'month'], [1, 'year'], [-1, 'year'], [12, 'month']):
        jobs.append(('add_date_ival', iv, one(ds['main'])))
    for iv in ([11, 'month'], [-13, 'month'], [4, 'year'], [-4, 'year'], [-100, 'year'], [30, 'day'], [-1, 'day'], [0, 'month'], [3, 'month'],
               [rng.randint(-60, 60), 'month'], [rng.randint(-20, 20), 'year'], [rng.randint(-500, 500), 'day']):
        jobs.append(('add_date_ival', iv, one(ds['rest'])))
    jobs.append(('sub_date_ival', [1, 'month'], one(ds['main'])))
    for iv in ([1, 'year'], [4, 'year'], [-4, 'year'], [100, 'year'], [-3, 'month'], [7, 'day'], [12, 'month'],
               [rng.randint(1, 40), 'month']):
        jobs.append(('sub_date_ival', iv, one(ds['rest'])))
    for iv in ([1, 'month'], [-1, 'year'], [45, 'day']):
        jobs.append(('add_ival_date', iv, one(ds['rest'])))
    for iv in ([1, 'month', 5, 'day'], [1, 'year', -1, 'month'], [1, 'month', 1, 'month'], [-2, 'day', 6, 'month']):
        jobs.append(('add_date_ival2', iv, one(ds['rest'])))
    # date_bin: day strides over the whole range (closed form), month / year strides over a window (the shipped
    # implementation walks from the origin)
    o2000 = datetime.date(2000, 1, 3).toordinal()
    jobs.append(('date_bin', [7, 'day', o2000], one(ds['main'])))
    jobs.append(('date_bin', [30, 'day', datetime.date(2050, 6, 15).toordinal()], one(ds['main'])))
    for st in ([1, 'day'], [2, 'day'], [rng.randint(3, 400), 'day']):
        for org in (o2000, HI, LO + 1):
            jobs.append(('date_bin', st + [org], one(ds['rest'])))
    origins = [datetime.date(2020, 1, 1).toordinal(), datetime.date(2019, 6, 15).toordinal(),
               datetime.date(2021, 2, 28).toordinal(), datetime.date(2025, 1, 1).toordinal(),
               datetime.date(2016, 2, 29).toordinal(), datetime.date(2018, 3, 31).toordinal()]
    strides = [[1, 'month'], [2, 'month'], [3, 'month'], [5, 'month'], [12, 'month'], [1, 'year'], [2, 'year'],
               [7, 'day'], [1, 'day']]
    if ctx.quick:
        strides, origins = [strides[0], strides[2], strides[5], strides[7]], origins[:4]
    for st in strides:
        for org in origins:
            jobs.append(('date_bin', st + [org], one(ds['window'])))
    # the overload that takes the stride as a text (valid interval texts only)
    for st in ([1, 'month'], [10, 'day'], [1, 'year'])[:ctx.pick(2, 3)]:
        jobs.append(('date_bin_s', st + [origins[1]], one(ds['window'])))
    for st in ([1, 'month'], [3, 'month'], [1, 'year'], [7, 'day'])[:ctx.pick(2, 4)]:
        rows = []
        for o in ds['window']:
            dt = datetime.date.fromordinal(o)
            for e in (dt.replace(day=1).toordinal(), dt.replace(month=1, day=15).toordinal(), o + 1, o - 40):
                rows.append([o, e])
        jobs.append(('date_bin_col', st, rows))
    # constructors and casts
    ymd = [[y, m, d] for y in (1900, 1999, 2000, 2023, 2024, 2100, 0, -1, 9999, 10000) for m in range(-1, 15)
           for d in range(-1, 34)]
    jobs.append(('date_ymd', [], ymd))
    jobs.append(('cast', ['str', 'date'], one(ds['main'])))
    jobs.append(('cast', ['date', 'date'], one(ds['rest'])))
    jobs.append(('cast', ['bool', 'date'], one(ds['rest'])))
    jobs.append(('cast', ['date', 'str'], [[datetime.date.fromordinal(o).isoformat()] for o in ds['main']]))
    bad = ['2021-02-29', '2020-13-01', '2020-00-10', '2020-01-00', '2020-01-32', '1900-02-29', '2000-02-30',
           '2020-04-31', '0000-01-01', '', 'abcd', '2020-01-01x', 'x020-01-01', '2020/01/01', '20200101', '2020-1-5',
           '2020-01-1', ' 2020-01-01', '2020:01:01', 'TRUE', '2020-02-29', '2100-02-29', '9999-12-31', 'a', ':']
    jobs.append(('cast', ['date', 'str'], [[s] for s in bad]))
    # every spelling of the cast format (month / day zero padded or not), other ISO 8601 spellings of the same dates
    # and near misses of the format; from a str column, from an untyped column and written as a literal
    texts = date_texts(ds['rest'][::ctx.pick(3, 1)], rng)
    jobs.append(('cast', ['date', 'str'], [[s] for s in texts]))
    jobs.append(('cast', ['date', 'obj'], [[['s', s]] for s in texts]))
    for s in rng.sample(texts, ctx.pick(24, 120)) + ['2022-4-5', '20220405', '2022-W14-2', '2023-2-29']:
        jobs.append(('cast_k', ['date', s], [[0]]))
    return jobs


def date_texts(ords, rng):
    """input texts for date(<str>) (which of them are dates is the specification's business: ScalarLib!DateOfStr)"""
    out = []
    for o in ords:
        d = datetime.date.fromordinal(o)
        y, m, dd = d.year, d.month, d.day
        iso = d.isocalendar()
        out += ['%04d-%d-%d' % (y, m, dd), '%04d-%02d-%d' % (y, m, dd), '%04d-%d-%02d' % (y, m, dd),
                '%04d%02d%02d' % (y, m, dd), '%04d-W%02d-%d' % tuple(iso), '%04dW%02d%d' % tuple(iso),
                '%04d-W%02d' % tuple(iso)[:2], '%04d-%03d' % (y, d.timetuple().tm_yday)]
        k = rng.randrange(8)
        out.append(['%d-%d-%d' % (y % 1000, m, dd), '%04d-%d-%d' % (y, m, dd + 28), '%04d-%d-%d' % (y, m + 3, dd),
                    '%04d-%03d-%d' % (y, m, dd), '%04d-%d-%03d' % (y, m, dd), '%04d-%d-%d-' % (y, m, dd),
                    '%04d-%d%d' % (y, m, dd), '%04d/%d/%d' % (y, m, dd)][k])
    out += ['%d-%d-%d' % (y, m, dd) for y in (1900, 2023, 2024, 999, 10000) for m in range(0, 14)
            for dd in (0, 1, 9, 10, 28, 29, 30, 31, 32)]
    return sorted(set(out))


def all_strings(n, alphabet=ALPHABET):
    out = ['']
    level = ['']
    for _ in range(n):
        level = [s + ch for s in level for ch in alphabet]
        out += level
    return out


def account_names():
    names = []
    subs = ['A', 'Bb', 'C1']
    level = [[]]
    paths = [[]]
    for _ in range(4):
        level = [p + [s] for p in level for s in subs]
        paths += level
    for r in ROOTS:
        for p in paths:
            names.append(':'.join([r] + p))
    return names


def account_jobs(ctx):
    names = account_names()
    extra = ['', 'Assets:', 'Foo:A', 'assets:A', 'Income', 'Equity:Opening-Balances:X1']
    jobs = [('root', [], [[a, n] for a in names + extra for n in range(-6, 7)]),
            ('root1', [], [[a] for a in names + extra]),
            ('parent', [], [[a] for a in names + extra]),
            ('leaf', [], [[a] for a in names + extra]),
            ('account_sortkey', [], [[a] for a in names + extra]),
            ('possign', [], [[list(_frac(k, 4)), a] for a in names + extra[2:] for k in (-6, -1, 0, 3, 8)])]
    return jobs + typed_account_jobs(ctx, names, extra)


def typed_account_jobs(ctx, names, extra):
    """account_sortkey / possign (all four overloads, account from a column or a literal) on connections to ledgers
    whose options rename the five root types: the fixed tables of the generator plus seeded random ones (any five
    distinct names, the English ones included at other positions).  The jobs of the tables alternate, so that the
    connections are used in turn within one process."""
    rng = ctx.rng
    pool = sorted({n for t in TYPE_TABLES for n in t} | {'Aktiva', 'Passiva', 'Eigenkapital', 'X1', 'Bb', 'A'})
    tables = [list(t) for t in TYPE_TABLES] + [rng.sample(pool, 5) for _ in range(ctx.pick(3, 10))]
    subs = ['A', 'Bb', 'C1']
    paths = level = [[]]
    for _ in range(ctx.pick(2, 4)):
        level = [p + [s] for p in level for s in subs]
        paths = paths + level
    english = [a for a in names if a.count(':') <= 1]
    amounts = [list(_frac(k, 4)) for k in (-6, -1, 0, 3, 8)]
    per_table = []
    for t in tables:
        accts = [':'.join([r] + p) for r in t for p in paths] + english + extra[2:]
        jobs = [('account_sortkey_t', t, [[a] for a in accts + extra[:2]])]
        for f in ('possign_t', 'possign_amt', 'possign_pos', 'possign_inv'):
            jobs.append((f, t, [[x, a] for a in accts for x in amounts]))
        for a in [r + ':A:Bb' for r in t] + ['Assets:A', 'Expenses', rng.choice(accts)]:
            jobs.append(('possign_tk', t + [a], [[x] for x in amounts]))
        per_table.append(jobs)
    out = []
    for i in range(max(len(j) for j in per_table)):
        out += [j[i] for j in per_table if i < len(j)]
    return out


def _frac(n, d):
    fr = fractions.Fraction(n, d)
    return fr.numerator, fr.denominator


def patterns(lits, groups=True):
    out = []
    for bol in (0, 1):
        for eol in (0, 1):
            for lit in lits:
                out.append({'bol': bol, 'pre': '', 'grp': lit, 'post': '', 'eol': eol, 'g': 0})
            if groups:
                for pre in ('', 'a'):
                    for grp in ('', 'B', ':', 'a '):
                        for post in ('', 'a', ':'):
                            out.append({'bol': bol, 'pre': pre, 'grp': grp, 'post': post, 'eol': eol, 'g': 1})
    return out


def string_jobs(ctx):
    rng = ctx.rng
    n = ctx.pick(3, 4)
    strs = all_strings(n)
    idx = range(-6, 7)
    jobs = []
    longer = [''.join(rng.choice(ALPHABET + ['a', 'B']) for _ in range(rng.randint(5, 12)))
              for _ in range(ctx.pick(60, 400))]
    wide = all_strings(ctx.pick(4, 5)) + ['az AZ', 'a1:Bz', 'Zz-Yy_09', 'abcdefghijklmnopqrstuvwxyz', 'THE Quick:Brown'] + longer
    for f in ('upper', 'lower', 'length'):
        jobs.append((f, [], [[s] for s in wide]))
    jobs.append(('substr', [], [[s, a, b] for s in strs for a in idx for b in idx]))
    jobs.append(('substr', [], [[s, rng.randint(-14, 14), rng.randint(-14, 14)] for s in longer for _ in range(20)]))
    sc = []
    for s in strs + longer[:40]:
        for dl in (':', ' ', 'a', 'a:', '::', 'aa'):
            k = s.count(dl) + 1          # domain selection only: indices around the valid range
            for i in range(-k - 1, k + 1):
                sc.append([s, dl, i])
    jobs.append(('splitcomp', [], sc))
    words = ['a', 'Bb', 'a:B:', 'aaaaaaa', 'BBBBBBBBBBBB', ':']
    texts = set(['', '   ', ' a  Bb ', ' aaaaaaa'])
    for w in words:
        texts.add(w)
        for x in words:
            for sp in (' ', '  '):
                texts.add(w + sp + x)
                for y in ('a', 'Bb', 'aaaaaaa'):
                    texts.add(w + sp + x + sp + y)
    for _ in range(ctx.pick(100, 1500)):
        ws = [rng.choice(words + ['aB', 'B:a:B']) for _ in range(rng.randint(1, 6))]
        texts.add((' ' * rng.randint(0, 2)) + ''.join(w + ' ' * rng.randint(1, 3) for w in ws))
    jobs.append(('maxwidth', [], [[s, w] for s in sorted(texts) for w in range(4, 19)]
                 + [[s, rng.randint(19, 45)] for s in sorted(texts)]))
    lits = all_strings(2)
    pats = patterns(lits)
    pats0 = patterns(lits, groups=False)
    gstrs = all_strings(ctx.pick(2, 3))
    jobs.append(('grep', [], [[p, s] for p in pats for s in strs]))
    jobs.append(('grepn', [], [[p, s, k] for p in pats for s in gstrs for k in (0, 1, 2)]))
    jobs.append(('subst', [], [[p, r, s] for p in pats0 for r in ('', 'x', 'aB') for s in strs]))
    jobs.append(('grep', [], [[rng.choice(pats), s] for s in longer for _ in range(10)]))
    jobs.append(('subst', [], [[rng.choice(pats0), rng.choice(['', 'x', 'aB', 'Z Z']), s] for s in longer for _ in range(10)]))
    sets = [[], ['a'], ['B', 'a'], [' a', 'B:', 'a'], [':', 'B', 'aB'], ['', 'a'], ['a:', 'a:B', 'aa'],
            ['B', 'Ba', 'a', 'aB'], ['Assets:A', 'Expenses:B']]
    for _ in range(ctx.pick(20, 200)):
        sets.append(sorted(set(rng.choice(strs) for _ in range(rng.randint(1, 4)))))
    jobs.append(('findfirst', [], [[p, vs] for p in pats for vs in sets]))
    small = [vs for vs in sets if len(vs) <= 4 and all(',' not in x for x in vs)]
    jobs.append(('joinstr', [], [[vs] for vs in small]))
    jobs.append(('length_set', [], [[vs] for vs in sets]))
    return jobs


def numeric_jobs(ctx):
    rng = ctx.rng
    decs = [list(_frac(k, 4)) for k in range(-40, 41)]
    fine = [list(_frac(k, 8)) for k in range(-24, 25)] + [list(_frac(k, 200)) for k in
                                                          (-201, -199, -1, 1, 99, 101, 2499, 2501, 2500, 3500)]
    rnd = []
    for _ in range(ctx.pick(300, 4000)):
        q = rng.choice([1, 2, 4, 5, 8, 10, 20, 25, 40, 50, 100, 125, 200, 1000])
        rnd.append(list(_frac(rng.randint(-5000, 5000), q)))
    allx = decs + fine + rnd
    jobs = [(f, [], [[x] for x in allx]) for f in ('abs', 'neg', 'round1')]
    jobs.append(('round', [], [[x, n] for x in decs + fine for n in range(-2, 3)]))
    jobs.append(('round', [], [[x, rng.randint(-3, 3)] for x in rnd]))
    jobs.append(('round_int1', [], [[k] for k in range(-150, 151)]))
    jobs.append(('round_int', [], [[k, n] for k in range(-150, 151) for n in range(-2, 3)]))
    jobs.append(('round_int', [], [[rng.randint(-10 ** 6, 10 ** 6), rng.randint(-5, 2)] for _ in range(ctx.pick(200, 3000))]))
    jobs.append(('safediv', [], [[x, y] for x in decs for y in (decs if not ctx.quick else decs[::5] + [[0, 1]])]))
    jobs.append(('safediv_int', [], [[x, k] for x in decs for k in range(-8, 9)]))
    ints = list(range(-12, 13)) + [100000, -99999, 2 ** 31 - 1] + [rng.randint(-10 ** 9, 10 ** 9) for _ in range(50)]
    int_texts = ['12', '-3', ' 7 ', '007', '+5', '', ' ', 'a', '1.5', '1 2', '--1', '+', '2020-01-01', 'B:', '0', '-0',
                 '1_0', '123456789', ':', 'a:B'] + [str(k) for k in ints[:30]] + all_strings(2)
    dec_texts = ['1.5', '-0.25', '.5', '1.', ' 2.50 ', '+3', '.', '', '1.2.3', 'a', '1 2', '-', 'B:', '12', '0.00', '1e3',
                 'NaN', 'Infinity', '-Infinity', '1_0', '-.5', '+.', '00.10', '3.14159'] + int_texts
    objs = [['i', 0], ['i', -7], ['i', 42], ['b', 0], ['b', 1], ['q', 0, 1], ['q', -11, 4], ['q', 5, 2], ['q', 7, 1],
            ['s', ''], ['s', '12'], ['s', '1.5'], ['s', 'abc:'], ['s', '2020-02-29'], ['s', '2021-02-29'],
            ['d', 737425], ['d', LO]]
    specials = [['x', 'NaN'], ['x', 'Infinity'], ['x', '-Infinity'], ['q', -11, 4], ['q', 0, 1]]
    for t in ('bool', 'int', 'decimal', 'str'):
        jobs.append(('cast', [t, 'int'], [[k] for k in ints]))
        jobs.append(('cast', [t, 'bool'], [[0], [1]]))
        jobs.append(('cast', [t, 'dec'], [[x] for x in decs + [[41, 20], [1, 20], [-99, 100]] + (rnd if t != 'str' else [])]))
    jobs.append(('cast', ['int', 'str'], [[s] for s in int_texts]))
    jobs.append(('cast', ['decimal', 'str'], [[s] for s in dec_texts]))
    jobs.append(('cast', ['bool', 'str'], [[s] for s in int_texts]))
    jobs.append(('cast', ['str', 'str'], [[s] for s in int_texts]))
    for t in ('int', 'decimal', 'date', 'bool', 'str'):
        jobs.append(('cast', [t, 'obj'], [[o] for o in objs]))
    for t in ('int', 'decimal'):
        jobs.append(('cast', [t, 'decx'], [[o] for o in specials]))
    return jobs


# ---------------------------------------------------------------------------------------------------------
# legs
# ---------------------------------------------------------------------------------------------------------
_GROUPS = []        # C2S job groups, filled before the worker processes are forked (inherited, not pickled)
_CONNS = {}


def _conn(types=None):
    if types not in _CONNS:
        _CONNS[types] = make_conn(types)
    return _CONNS[types]


def record(jobs, path, chunk):
    """evaluate every job through BQL and write the trace file; returns the writer (closed) and a few samples"""
    w = TraceWriter(path, chunk)
    samples = []
    for f, c, vrows in jobs:
        if not vrows:
            continue
        obs = evaluate(f, c, vrows)
        w.add(f, c, vrows, obs)
        if f in ('date_trunc', 'substr', 'root', 'round', 'date_bin', 'cast') and not any(x['f'] == f for x in samples):
            samples.append({'leg': 'C2S', 'f': f, 'c': c, 'bql': 'SELECT %s FROM #cases' % form(f, c)[1],
                            'v': vrows[len(vrows) // 2], 'observed': obs[len(vrows) // 2]})
    w.close()
    w.f = None
    return w, samples


def _record_group(args):
    gi, path, chunk = args
    return record(_GROUPS[gi], path, chunk)


def _eval_task(args):
    f, c, vrows = args
    return evaluate(f, c, vrows)


def split_jobs(jobs, maxcells):
    """pack jobs into groups of at most ~maxcells rows (one trace file each)"""
    groups, cur, n = [], [], 0
    for j in jobs:
        if cur and n + len(j[2]) > maxcells:
            groups.append(cur)
            cur, n = [], 0
        cur.append(j)
        n += len(j[2])
    if cur:
        groups.append(cur)
    return groups


def s2c_family(ctx, procs, res, fam, mismatches):
    nrows = nood = 0
    nmis0 = len(mismatches)
    lines = [p for p in res.printed if isinstance(p, dict) and p.get('rows')]
    # big jobs are cut so that the worker processes share them
    tasks = []
    for p in lines:
        rows = p['rows']
        for i in range(0, len(rows), 4000):
            tasks.append((p['f'], p['c'], rows[i:i + 4000]))
    results = procs.map(_eval_task, [(f, c, [r[:-1] for r in rows]) for f, c, rows in tasks])
    for (f, c, rows), obs in zip(tasks, results):
        vrows = [r[:-1] for r in rows]
        exps = [r[-1] for r in rows]
        for v, e, o in zip(vrows, exps, obs):
            nrows += 1
            if e == ['ood']:
                nood += 1
                continue
            if e == o or (e[0] == 'anyof' and o[0] == 's' and o[1] in e[1]):
                continue
            mismatches.append((f, c, v, o))      # judged (and classified) by the specification itself below
        if len(ctx.samples) < 3 and len(rows) > 2:
            ctx.sample({'leg': 'S2C', 'f': f, 'c': c, 'v': vrows[1], 'expected': exps[1], 'observed': obs[1],
                        'bql': 'SELECT %s FROM #cases' % form(f, c)[1]})
    ctx.evaluations += nrows
    ctx.bulk(nrows - nood)
    ctx.skipped += nood
    ctx.traces += nrows - nood - (len(mismatches) - nmis0)
    ctx.leg('S2C', **{'cases_' + fam: nrows, 'ood_' + fam: nood, 'jobs_' + fam: len(res.printed)})
    if nrows == 0:
        raise MachineryError('generator %s emitted no case' % fam)
    return nrows, nood


def run(ctx):
    ctx.distinct = CountingSet(ctx.distinct)
    ctx.bulk = lambda n: setattr(ctx.distinct, 'extra', ctx.distinct.extra + n)
    ctx.rule = ('one evaluation = one (function form, constants, column arguments) cell evaluated through BQL and compared '
                'with ScalarLib!Apply; cells are distinct by construction; non-trivial = inside the stated domain '
                '(out-of-domain cells are counted in skipped_out_of_domain)')
    ctx.assumptions += [
        'account types: the default names and ledgers whose options rename the five roots (fixed and seeded random '
        'tables of five distinct names); Python 3.12 textwrap / re / decimal (28 digits) semantics',
        'date_bin judged for positive strides of one kind (days, or months/years with an origin day <= 28)',
        'regex functions judged for literal patterns with optional ^ / $ and at most one group',
        'root(a, n) with negative n judged with Python slice semantics (DESIGN.md Appendix B)',
        'date(<text>): the statement names no cast format; pinned to the documented semantics of the conversion '
        'the library applies, strptime("%Y-%m-%d") - a year of four digits, month and day of one or two digits (Python '
        'docs: "the leading zero is optional for formats %d, %m"), every other text NULL (a blank after a dash and '
        'characters outside ASCII are not judged)',
        'not judged: parse_date, today(), interval() spellings other than "N day|month|year[s]", 32-bit overflow']
    only = getattr(ctx, 'only_legs', None)
    want = lambda leg: only is None or leg in only  # noqa
    pool = TLCPool(ctx, 3, 'a')          # generators and judges
    mcpool = TLCPool(ctx, 3, 'mc')       # model checking
    state = {'procs': None}
    try:
        _run_legs(ctx, pool, mcpool, want, state)
    finally:
        pool.shutdown()
        mcpool.shutdown()
        if state['procs'] is not None:
            state['procs'].shutdown(wait=False, cancel_futures=True)


def _run_legs(ctx, pool, mcpool, want, state):
    import multiprocessing
    q = ctx.quick
    # ---- C2S: record through BQL (worker processes), judge in TLC -----------------------------------------------
    traces = []
    recs = []
    t0 = time.time()
    if want('C2S'):
        ds = date_sets(ctx)
        families = [('calendar', calendar_jobs(ctx, ds), 1000, ctx.pick(150000, 500000)),
                    ('strings', string_jobs(ctx), 300, ctx.pick(40000, 120000)),
                    ('accounts', account_jobs(ctx), 400, 10 ** 9),
                    ('numeric', numeric_jobs(ctx), 400, 10 ** 9)]
        plan = []
        for fam, jobs, chunk, maxcells in families:
            for group in split_jobs(jobs, maxcells):
                _GROUPS.append(group)
                plan.append((fam, len(_GROUPS) - 1, ctx.path('c18_%s_%d.ndjson' % (fam, len(_GROUPS))), chunk))
        ctx.leg('C2S', files=len(plan), dates=len(ds['core']), dates_main=len(ds['main']), dates_rest=len(ds['rest']),
                dates_window=len(ds['window']))
    # the worker processes are forked AFTER the job groups exist (they inherit them) and before TLC threads start
    procs = state['procs'] = cf.ProcessPoolExecutor(ctx.pick(4, 6), mp_context=multiprocessing.get_context('fork'))
    if want('C2S'):
        recs = [(fam, procs.submit(_record_group, (gi, path, chunk))) for fam, gi, path, chunk in plan]
    gens = {}
    mcs = []
    if want('S2C'):
        gens['calendar'] = pool.submit('Gen_C18', ctx.pick('Gen_C18_calendar_quick.cfg', 'Gen_C18_calendar.cfg'), 'GEN', workers=4)
        gens['strings'] = pool.submit('Gen_C18', ctx.pick('Gen_C18_strings.cfg', 'Gen_C18_strings4.cfg'), 'GEN', workers=4)
        gens['accounts'] = pool.submit('Gen_C18', 'Gen_C18_accounts.cfg', 'GEN', workers=2)
        gens['numeric'] = pool.submit('Gen_C18', 'Gen_C18_numeric.cfg', 'GEN', workers=2)
    if want('MC'):
        mcs.append((mcpool.submit('MC_Calendar', ctx.pick('MC_Calendar_quick.cfg', 'MC_Calendar.cfg'), 'MC',
                                workers=ctx.pick(6, 12)), None))
        mcs.append((mcpool.submit('MC_Calendar', 'MC_Calendar_shipped.cfg', 'MC-nonvacuity', workers=1), 'BinInv'))
        mcs.append((mcpool.submit('MC_Calendar', ctx.pick('MC_Calendar_walkq.cfg', 'MC_Calendar_walk.cfg'), 'MC', workers=3), None))
        mcs.append((mcpool.submit('MC_Calendar', ctx.pick('MC_Calendar_binq.cfg', 'MC_Calendar_bin.cfg'), 'MC', workers=ctx.pick(3, 6)), None))
        mcs.append((mcpool.submit('MC_Strings', ctx.pick('MC_Strings_quick.cfg', 'MC_Strings.cfg'), 'MC', workers=3), None))
        mcs.append((mcpool.submit('MC_Accounts', 'MC_Accounts.cfg', 'MC', workers=3), None))
        mcs.append((mcpool.submit('MC_Accounts', 'MC_Accounts_default_types.cfg', 'MC-nonvacuity', workers=1), 'MechInv'))
        mcs.append((mcpool.submit('MC_Numeric', 'MC_Numeric.cfg', 'MC', workers=2), None))
        mcs.append((mcpool.submit('MC_DateCast', ctx.pick('MC_DateCast_quick.cfg', 'MC_DateCast.cfg'), 'MC', workers=2), None))
        mcs.append((mcpool.submit('MC_DateCast', 'MC_DateCast_iso.cfg', 'MC-nonvacuity', workers=1), 'CastInv'))
        if not q:
            mcs.append((mcpool.submit('MC_Numeric', 'MC_Numeric8.cfg', 'MC', workers=4), None))

    for fam, fut in recs:
        w, samples = fut.result()
        for smp in samples:
            if not any(isinstance(x, dict) and x.get('f') == smp['f'] for x in ctx.samples):
                ctx.sample(smp)
        tf = pool.submit('Trace_C18', 'Trace_C18.cfg', 'C2S', workers=ctx.pick(3, 5), env={'TRACE_FILE': w.path},
                         jvm=('-Xss16m',))
        traces.append((fam, w, tf))
    if recs:
        ctx.log('C2S recorded %d cells in %d files (%.1fs)' % (sum(w.cells for _, w, _ in traces), len(traces), time.time() - t0))

    # ---- S2C: evaluate the generator's cases through BQL ----------------------------------------------------
    mismatches = []
    if want('S2C'):
        for fam, fut in gens.items():
            res = pool.result(fut)
            if res.violated or res.errors:
                raise MachineryError('generator %s failed: %s %s' % (fam, res.violated, res.errors[:2]))
            t0 = time.time()
            n, nood = s2c_family(ctx, procs, res, fam, mismatches)
            ctx.log('S2C %s: %d cases through BQL (%d outside the domain), %d to be judged, %.1fs' % (
                fam, n, nood, len(mismatches), time.time() - t0))
        if mismatches:
            path = ctx.path('c18_s2c_mismatch.ndjson')
            w = TraceWriter(path, 200)
            mismatches.sort(key=lambda m: json.dumps([m[0], m[1]]))
            i = 0
            while i < len(mismatches):
                j = i
                while j < len(mismatches) and mismatches[j][:2] == mismatches[i][:2]:
                    j += 1
                w.add(mismatches[i][0], mismatches[i][1], [m[2] for m in mismatches[i:j]], [m[3] for m in mismatches[i:j]])
                i = j
            w.close()
            res = pool.result(pool.submit('Trace_C18', 'Trace_C18.cfg', 'S2C-judge', workers=2, env={'TRACE_FILE': path},
                                          jvm=('-Xss16m',)))
            judge_result(ctx, res, w, 'S2C', 'mismatch', count=False)

    # ---- collect -------------------------------------------------------------------------------------------
    for fam, w, fut in traces:
        res = pool.result(fut)
        judge_result(ctx, res, w, 'C2S', fam)
    for fut, expect in mcs:
        res = mcpool.result(fut, expect_violation=expect)
        if res.violated and expect is None:
            ctx.violation('spec:%s:%s' % (fut.meta[0], ','.join(res.violated)),
                          'TLC violates a law of the statement on the model', {'behaviour': res.behaviour[:3000]}, 'MC')
    ctx.exhaustive = not q


def replay(ctx, rep):
    case = rep['case']
    if 'f' not in case:
        print('replay: case kind not replayable standalone; re-run the check')
        return 2
    obs = evaluate(case['f'], case['c'], [case['v']])
    path = ctx.path('replay.ndjson')
    w = TraceWriter(path, 10)
    w.add(case['f'], case['c'], [case['v']], obs)
    w.close()
    res = ctx.tlc('Trace_C18', 'Trace_C18.cfg', leg='C2S', workers=1, env={'TRACE_FILE': path}, jvm=JVM)
    rej = [p for p in res.printed if isinstance(p, dict) and p.get('verdict') == 'rejected']
    print('replay: SELECT %s FROM #cases with %r -> %r' % (form(case['f'], case['c'])[1], case['v'], obs[0]))
    if rej:
        print('replay: MISMATCH reproduced, the specification demands %r (key %s)' % (
            rej[0]['exp'], rej[0].get('key') or generic_key(case['f'], case['c'])))
        return 1
    print('replay: no mismatch')
    return 0
