"""C03 -- ORDER BY / DISTINCT / LIMIT (spec/BQLSelect.tla).

MC   the multi-pass sort (order spec walked from the right, one stable sort per maximal run of equal direction, NULL
     smallest, reverse for DESC) against SortLaw (stable, direction-aware lexicographic permutation), then
     PhaseOrderLaw (project, DISTINCT, LIMIT in that order) and DistinctLaw, over 1..3 keys x all direction patterns x
     keys by position / name / hidden expression x DISTINCT x LIMIT {none, 0, 2}; non-vacuity: LIMIT applied before
     DISTINCT must be refuted
S2C  every (table, query) state replayed on the real code; C2S: 1..5 keys, 0..30 rows, aggregate and plain queries
"""
from harness import selectcheck


def run(ctx):
    ctx.rule = ('S2C: tables of <= 3 rows (quick: every 8th; thorough: <= 4 rows every 6th) x the ordering query space (~430 '
                'shapes); distinct = (query skeleton, table); non-trivial = table non-empty; C2S: random')
    ctx.assumptions += ['output names kept distinct (a name reference to a duplicated name is unspecified)',
                        'values of one sort key have one type; decimals exact small rationals',
                        'TLC 1.8, CPython 3.12, harness/bql.py + selectq.py (projection)']
    selectcheck.run_mc_and_replay(ctx, 'order', 3, 8, 4, 6, nonvac=('limitfirst', ('PhaseOrderLaw', 'DistinctLaw')))
    selectcheck.record_and_validate(ctx, 'order', ctx.pick(1500, 20000), 30)
    selectcheck.typed_tables_leg(ctx, 'order', ctx.pick(120, 1500))
    # ordering over FROM (subquery): ties keep the order the inner query produced
    selectcheck.record_and_validate(ctx, 'nested', ctx.pick(800, 8000), 16)
    ctx.exhaustive = False


def replay(ctx, rep):
    return selectcheck.replay_case(ctx, rep)
