"""C20 -- thread isolation: concurrent queries give the same results as serial execution
(spec/Balance.tla with 2..4 threads, harness/sched.py).

legs: MC   TLC: under EVERY interleaving of the per-row steps (NextRow, EvalBalance, Yield, EvalBalance, EmitRow; also
           row filters, interposed subqueries, aggregates) every thread emits exactly its serial rows -- 2 threads x 3
           rows and 3 threads x 2 rows exhaustively; non-interference and "no shared variable" as action properties;
           termination under weak fairness; EvalBalance split into lookup / compute / store (model-checked only).
           Non-vacuity: on the mechanism as shipped before fix 678e809 (one process-wide entry) TLC finds the eviction schedule.
      S2C  TLC enumerates ALL pause-point schedules (2 threads x 3 rows x 2 pauses: C(14,7) = 3432; 3 threads x 2 rows
           x 1 pause: 1680; mixes with an interposed subquery, a row filter and an aggregate; simulated 3 x 3 x 2) as
           grant sequences with the rows every thread must return.  harness/sched.py replays them deterministically
           on real threads: one shared connection, separate connections over the same ledger, separate connections
           over different ledgers; pause(k) literal / named / positional parameter.  Results are compared with the
           specification and with the serial results of the code.
      C2S  seeded runs of 2..4 threads with random programs; the scheduler picks the next thread itself and logs the
           grants; Trace_Balance replays the log through the actions of Balance and judges the rows.
      A mismatch is replayed by TLC on the mechanism as shipped before fix 678e809 (one process-wide cache entry): if that
      explains the observation exactly the violation gets the key of that defect (listed as fixed in known_findings.d).

The whole execution (spec/Isolate.tla, harness/isolate.py) -- PARSING of the statement text, compilation, then the scan
of ANY table of the connection (#entries, #postings, the typed tables #transactions / #prices / #events / #notes /
#balances / #documents / #commodities over ledgers that hold directives of several types), plain columns, parameters:
      MC   every interleaving of the PARSER steps (a parser takes the text, reads it token by token, the tree is
           complete), the COMPILATION steps (parameters stored, FROM, wildcard, names resolved, parameter
           values read, query built) and the scan steps (row advance, WHERE test, one step per target) of 2 threads x 3
           directives / 3 threads x 2: each thread's rows are its serial rows, its syntax tree was read from its own
           text, its statement is bound to its own parameters, every value belongs to the row of its own scan;
           non-interference; termination.  Non-vacuity: one compiler kept per connection, a column accessor
           remembering the current row by rowid, ONE parser object for every parse() call of the process, and the rows
           of a typed table kept on the table object while the first scan is still filling them, are all refuted.
      S2C  TLC enumerates every pause-point schedule of ten job families (same text with different parameters on one
           connection, SELECT *, two tables of one connection, two ledgers, 3 threads mixed; statements submitted as
           TEXT by threads that share nothing but the module, descheduled INSIDE the parser; two and three scans of
           the typed tables of one connection advancing row by row); pause points INSIDE the
           compilation are reached through folded BQL functions, the tables' wildcard_columns property and the
           parameters container, pause points inside the parser through a sys.monitoring callback on the code of
           beanquery/parser (harness/isolate.py ParserPauses); the abstract columns are realised by every plain
           column of the tables (id, date, narration, payee, links, tags, description, lineno, account, number, position,
           currency, amount.number, type, comment, filename, name, meta['lineno'], ...).  The concurrent runs meet
           connections nothing has been executed on before (the serial reference runs alternate between connections
           of their own and the connections of the concurrent run).
      C2S  seeded runs of 2..4 threads with random jobs (any table, text or syntax tree) over 1..3 connections, grant
           log judged by Trace_Isolate.
      Sub-expression steps and FROM-subqueries (same modules): a target / WHERE conjunct can be a FUNCTION CALL whose
      operands are evaluated one by one (Arg1, ArgYield, Arg2, Apply: the thread is descheduled BETWEEN the operands,
      the value -- a column or a query parameter -- of the first one already evaluated), realised by the library's
      own date_add / date_diff / round / maxwidth and by the binary operators + and -; a statement can select FROM
      (SELECT <columns> AS <names>) with the same names at different positions in different statements, descheduled
      between the construction of the subquery's table (SubTable) and the resolution of the enclosing statement's
      names.  MC: MC_Isolate_expr (2 threads, every interleaving; OwnOperands, OwnNames); non-vacuity: one operand list
      per function (MC_Isolate_operands) and one name -> position map for all subquery tables (MC_Isolate_subcols)
      are refuted.  S2C families func, funcw, subq, subq3; the random jobs of C2S draw calls and subqueries too.
      DELIVERY of the results (same modules): the statement is handed to a cursor the thread made or to the connection's
      own execute() shortcut (job.via), and the thread is descheduled AFTER execute() has returned and between its
      fetches (job.fetch: description + fetchone / fetchmany(n) / fetchall per step; actions Finish / Fetch, variables
      store -- what a cursor holds -- and recv -- what the thread received; invariant OwnResults).  MC: MC_Isolate_deliver
      (2 threads, every interleaving); non-vacuity: one cursor kept by the connection behind its shortcut
      (MC_Isolate_results) is refuted.  S2C families deliver, deliverp, deliver3; C2S: the random jobs draw via / fetch
      plans, the recorded `end' lines carry the rows and the descriptions every thread RECEIVED.
"""
import json
import random
import time

from harness import balance as hb
from harness import isolate as iso
from harness import sched
from harness.core import MachineryError

import sys as _sys
LIMIT0 = _sys.getrecursionlimit()      # the interpreter's recursion limit when the check starts (see placement_leg)

KNOWN_THREADS = 'threads:balance-cache:interleaved'
KNOWN_SERIAL = 'serial:balance-cache:interposed-scan'
COVER = ('NextRow', 'Finish', 'EvalBalance', 'Mask', 'Yield', 'Interpose', 'UpdateAgg', 'EmitRow')


def abstract_prog(p):
    return {'ledger': p['ledger'], 'mask': p['mask'], 'where': p['where'], 'targets': p['targets'],
            'subbal': p['subbal'], 'agg': p['agg']}


class Suspects:
    def __init__(self):
        self.items = []


def same_data(progs):
    return all(p['ledger'] == progs[0]['ledger'] and p['mask'] == progs[0]['mask'] for p in progs)


def connections(progs, mode, rng):
    """mode: shared | separate-same | separate-diff -> {tid: connection}"""
    if mode == 'shared':
        conn = hb.connect(hb.build_entries(progs[0]['ledger'], progs[0]['mask'], rng=rng))
        return {t + 1: conn for t in range(len(progs))}
    if mode == 'separate-same':
        entries = hb.build_entries(progs[0]['ledger'], progs[0]['mask'], rng=rng)
        return {t + 1: hb.connect(entries) for t in range(len(progs))}
    return {t + 1: hb.connect(hb.build_entries(p['ledger'], p['mask'], rng=rng)) for t, p in enumerate(progs)}


def styles_for(progs, rng):
    return [{'mask': rng.randrange(len(hb.MASKS)), 'split': rng.randint(0, len(p['where'])),
             'param': rng.choice(('none', 'named', 'positional')), 'table': rng.random() < 0.5} for p in progs]


def realise(progs, mode, rseed, named=False):
    """connections and statement styles of one case, a function of the stored seed (so that a replay file rebuilds it)"""
    crng = random.Random(rseed)
    conns = connections(progs, mode, crng)
    if named:
        st = styles_for(progs[:1], crng)[0]
        st['param'] = 'named'
        return conns, [dict(st) for _ in progs]
    return conns, styles_for(progs, crng)


def run_threads(progs, conns, styles, order=None, rng=None, timeout=60.0, as_text=False):
    s = sched.Scheduler(order=order, rng=rng, timeout=timeout)
    texts = {}

    def job(tid):
        def f():
            rows, text = hb.run_program(conns[tid], progs[tid - 1], tid=tid, style=styles[tid - 1], as_text=as_text)
            texts[tid] = text
            return rows
        return f
    results, excs = s.run({t: job(t) for t in range(1, len(progs) + 1)})
    for t in range(1, len(progs) + 1):
        texts.setdefault(t, hb.statement(progs[t - 1], t, None, styles[t - 1])[0])
    return s, results, excs, texts


def run_serial(progs, conns, styles):
    return {t: hb.run_program(conns[t], progs[t - 1], tid=t, style=styles[t - 1])[0] for t in range(1, len(progs) + 1)}


def shape(progs):
    return ' || '.join(hb.shape_key(p) for p in progs)


def judge_run(ctx, leg, progs, mode, styles, s, results, excs, texts, expected, suspects, case):
    """compare one concurrent run with the rows the specification emitted (expected: {tid: rows} or None)"""
    ok = True
    for tid, arg in s.mismatch:
        ctx.violation('threads:pause-argument', 'thread %s evaluated pause(%s): a statement ran with another execution\'s '
                      'parameters or compiled form' % (tid, arg), case, leg)
        ok = False
    for tid, ex in excs.items():
        if isinstance(ex, sched.ScheduleDiverged):
            continue
        ctx.violation('threads:exception:%s' % type(ex).__name__, 'thread %s raised %r' % (tid, ex), case, leg)
        ok = False
    if s.diverged:
        suspects.items.append(dict(leg=leg, progs=progs, grants=list(s.log), rows=None, case=case, why='diverged: ' + s.diverged,
                                   texts=texts, mode=mode))
        return False
    if expected is not None and ok:
        for tid in sorted(expected):
            if results.get(tid) != expected[tid]:
                suspects.items.append(dict(leg=leg, progs=progs, grants=list(s.log), rows=results, case=case,
                                           why='rows of thread %d differ' % tid, texts=texts, mode=mode, expected=expected))
                return False
    return ok


def serial_check(ctx, name, progs, expected, rng, suspects):
    """every program alone, on its own connection and after another query on a shared one: the serial results of the
    code are the specification's rows"""
    modes = ['separate-diff'] + (['shared'] if same_data(progs) else [])
    for mode in modes:
        rseed = rng.randrange(2 ** 31)
        conns, styles = realise(progs, mode, rseed)
        got = run_serial(progs, conns, styles)
        ctx.case('serial:%s:%s' % (name, mode), n=len(progs))
        for tid in sorted(expected):
            if got[tid] != expected[tid]:
                p = progs[tid - 1]
                np_ = count_pauses(expected[tid], p)
                suspects.items.append(dict(leg='S2C', progs=[p], grants=[1] * (1 + np_) if np_ is not None else [None],
                                           rows={1: got[tid]}, serial=True, mode=mode,
                                           case={'kind': 'serial', 'config': name, 'progs': progs, 'tid': tid, 'mode': mode, 'rseed': rseed},
                                           why='serial rows differ', texts={1: hb.statement(p, tid, None, styles[tid - 1])[0]},
                                           expected={1: expected[tid]}))


def count_pauses(rows, prog):
    # the number of pause points of a serial run follows from the program alone when no conjunct before a pause
    # depends on balance: scanned rows x pauses in WHERE up to the first falsifiable conjunct, selected rows x pauses in targets
    n = 0
    for r in range(len(prog['ledger'])):
        alive = True
        for a in prog['where']:
            if not alive:
                break
            if a == 'P':
                n += 1
            elif a == 'M' and not prog['mask'][r]:
                alive = False
            elif a == 'BN':
                return None
        if alive:
            n += sum(1 for a in prog['targets'] if a == 'P')
    return n


# ---- S2C -----------------------------------------------------------------------------------------------------------
def replay_config(ctx, name, cfg, nthreads, rng, suspects, limit=None, simulate=None):
    kw = {}
    if simulate:
        kw = dict(simulate='num=%d' % max(1, simulate // 8), depth=400, seed=ctx.seed, workers=8)
    res = ctx.tlc('Gen_Balance', cfg, leg='GEN', timeout=ctx.pick(600, 3000), **kw)
    progs = None
    scheds = []
    for p in res.printed:
        if isinstance(p, dict) and 'progs' in p:
            progs = [abstract_prog(x) for x in p['progs']]
        elif isinstance(p, dict) and 'sched' in p:
            scheds.append(p)
    if progs is None or not scheds:
        raise MachineryError('generator %s emitted no programs / schedules' % cfg)
    total = len(scheds)
    # the specification's rows per thread do not depend on the schedule (that IS the property on the spec side)
    exp = {t + 1: hb.expected_rows(scheds[0]['out'][t], progs[t]) for t in range(nthreads)}
    for sc in scheds:
        if sc['out'] != scheds[0]['out']:
            raise MachineryError('the specification emits schedule-dependent rows in %s' % cfg)
    uniq = {}
    for sc in scheds:
        uniq[tuple(sc['sched'])] = sc
    scheds = [uniq[k] for k in sorted(uniq)]
    if limit is not None and len(scheds) > limit:
        scheds = rng.sample(scheds, limit)
    serial_check(ctx, name, progs, exp, rng, suspects)
    modes = ['shared', 'separate-same'] if same_data(progs) else ['separate-diff']
    nrun = nbad = 0
    for n, sc in enumerate(scheds):
        for mode in (modes if (limit is None or len(modes) == 1) else [modes[n % len(modes)]]):
            rseed = rng.randrange(2 ** 31)
            conns, styles = realise(progs, mode, rseed)
            case = {'kind': 'schedule', 'config': name, 'progs': progs, 'sched': sc['sched'], 'mode': mode, 'rseed': rseed}
            s, results, excs, texts = run_threads(progs, conns, styles, order=sc['sched'])
            ok = judge_run(ctx, 'S2C', progs, mode, styles, s, results, excs, texts, exp, suspects, case)
            ctx.case(json.dumps([name, sc['sched'], mode]), nontrivial=len(set(sc['sched'])) > 1)
            ctx.traces += 1
            nrun += 1
            nbad += not ok
            if nrun == 1:
                ctx.sample({'leg': 'S2C', 'config': name, 'mode': mode, 'schedule': sc['sched'],
                            'statements': texts, 'expected_rows_thread_1': scheds[0]['out'][0][:2]})
    # the same statement TEXT submitted by every thread of one shared connection, differing only in the parameter
    ntext = 0
    if same_data(progs) and len({json.dumps(abstract_prog(p), sort_keys=True) for p in progs}) == 1:
        for sc in scheds[:ctx.pick(6, 40)]:
            rseed = rng.randrange(2 ** 31)
            conns, styles = realise(progs, 'shared', rseed, named=True)
            case = {'kind': 'schedule', 'config': name, 'progs': progs, 'sched': sc['sched'], 'mode': 'shared', 'rseed': rseed,
                    'as_text': True}
            s, results, excs, texts = run_threads(progs, conns, styles, order=sc['sched'], as_text=True)
            nbad += not judge_run(ctx, 'S2C', progs, 'shared-text', styles, s, results, excs, texts, exp, suspects, case)
            ctx.case(json.dumps([name, sc['sched'], 'shared-text']))
            ctx.traces += 1
            ntext += 1
    ctx.leg('S2C', **{name: {'schedules_emitted': total, 'same_text_replays': ntext, 'distinct': len(uniq), 'replays': nrun, 'mismatching': nbad,
                             'modes': modes}})
    return nrun


# ---- C2S -----------------------------------------------------------------------------------------------------------
POOL = [[['USD', hb.NOCOST], 1], [['USD', hb.NOCOST], -3], [['EUR', hb.NOCOST], 2],
        [['HOOL', [10, 'USD', 737434, '']], 2], [['HOOL', [10, 'USD', 737434, '']], -2],
        [['HOOL', [12, 'USD', 737444, '']], 1], [['HOOL', [10, 'USD', 737434, 'lot']], 5], [['AAPL', [3, 'EUR', 737434, '']], 4]]
C2S_WHERES = ([], ['P'], ['P', 'M'], ['M', 'P'], ['P', 'BT'], ['BN', 'P'], ['P', 'M', 'BT'], ['M'])
C2S_TARGETS = (['B', 'P', 'B'], ['B', 'B', 'P'], ['P', 'B'], ['B', 'P', 'B', 'P', 'B'], ['B', 'S', 'P', 'B'], ['B'],
               ['S', 'P', 'B', 'B'])


def random_prog(rng, ledger=None, mask=None):
    n = rng.randint(1, 5)
    ledger = ledger if ledger is not None else [rng.choice(POOL) for _ in range(n)]
    mask = mask if mask is not None else [rng.random() < 0.7 for _ in ledger]
    if rng.random() < 0.2:
        return {'ledger': ledger, 'mask': mask, 'where': list(rng.choice((['P'], ['P', 'M'], ['M', 'P']))),
                'targets': ['A'], 'subbal': True, 'agg': True}
    return {'ledger': ledger, 'mask': mask, 'where': list(rng.choice(C2S_WHERES)), 'targets': list(rng.choice(C2S_TARGETS)),
            'subbal': rng.random() < 0.7, 'agg': False}


def record_runs(ctx, nruns, rng, suspects):
    lines = []
    meta = {}
    for i in range(nruns):
        nt = rng.choice((2, 3, 4, 4))
        mode = rng.choice(('shared', 'separate-same', 'separate-diff'))
        if mode == 'separate-diff':
            progs = [random_prog(rng) for _ in range(nt)]
        else:
            first = random_prog(rng)
            progs = [first] + [random_prog(rng, first['ledger'], first['mask']) for _ in range(nt - 1)]
        rseed = rng.randrange(2 ** 31)
        conns, styles = realise(progs, mode, rseed)
        seed = rng.randrange(2 ** 31)
        s, results, excs, texts = run_threads(progs, conns, styles, rng=random.Random(seed))
        case = {'kind': 'random-run', 'progs': progs, 'mode': mode, 'rseed': rseed, 'sched_seed': seed, 'grants': list(s.log)}
        if not judge_run(ctx, 'C2S', progs, mode, styles, s, results, excs, texts, None, suspects, case):
            continue
        rid = i + 1
        lines.append({'k': 'begin', 'id': rid, 'progs': [hb.prog_to_trace(p) for p in progs]})
        lines += [{'k': 'grant', 'id': rid, 't': t} for t in s.log]
        lines.append({'k': 'end', 'id': rid, 'rows': [hb.rows_to_trace(results[t], 1) for t in range(1, nt + 1)]})
        meta[rid] = dict(progs=progs, grants=list(s.log), rows=results, case=case, texts=texts, mode=mode)
        ctx.case(json.dumps([progs, s.log], default=str), nontrivial=len(set(s.log)) > 1)
        if i == 0:
            ctx.sample({'leg': 'C2S', 'threads': nt, 'mode': mode, 'statements': texts, 'grants': s.log})
    return lines, meta


def run_trace(ctx, lines, cfg, leg, name):
    path = ctx.path(name)
    with open(path, 'w') as f:
        for ln in lines:
            f.write(json.dumps(ln) + '\n')
    res = ctx.tlc('Trace_Balance', cfg, leg=leg, workers=1, env={'TRACE_FILE': path}, timeout=ctx.pick(900, 3000),
                  jvm=('-Xss64m',))
    verdicts = [p for p in res.printed if isinstance(p, dict)]
    if res.violated:
        return res, verdicts
    if not any(p.get('verdict') == 'consumed' and p['lines'] == len(lines) for p in verdicts):
        raise MachineryError('trace %s not consumed (%d lines): %s' % (name, len(lines), res.errors[:2]))
    return res, verdicts


def classify(ctx, suspects):
    if not suspects.items:
        return
    lines = []
    for n, s in enumerate(suspects.items):
        s['n'] = n + 1
        if s['rows'] is None or any(g is None for g in s['grants']):
            s['n'] = -s['n']
            continue
        nt = len(s['progs'])
        lines.append({'k': 'begin', 'id': n + 1, 'progs': [hb.prog_to_trace(p) for p in s['progs']]})
        lines += [{'k': 'grant', 'id': n + 1, 't': t} for t in s['grants']]
        lines.append({'k': 'end', 'id': n + 1, 'rows': [hb.rows_to_trace(s['rows'][t], 1) for t in range(1, nt + 1)]})
    explained = set()
    if lines:
        res, verdicts = run_trace(ctx, lines, 'Trace_Balance_shipped.cfg', 'classify', 'c20_suspects.ndjson')
        rej = {p['id'] for p in verdicts if p.get('verdict') == 'rejected'}
        explained = {s['n'] for s in suspects.items if s['n'] > 0} - rej
    for s in suspects.items:
        known = s['n'] in explained
        if s.get('serial'):
            known = known and hb.interposed_between_references(s['progs'][0])
            key = KNOWN_SERIAL if known else 'serial:' + shape(s['progs'])
        elif known and len(s['progs']) >= 2:
            key = KNOWN_THREADS
        elif s['rows'] is None:
            key = 'threads:schedule-diverged:' + shape(s['progs'])
        else:
            key = 'threads:%s:%s' % (s['mode'], shape(s['progs']))
        ctx.violation(key, '%s (%s)%s' % (s['why'], ' ;; '.join('T%d: %s' % kv for kv in sorted(s['texts'].items())),
                                          ' -- exactly what the process-wide one-entry cache yields' if known else ''),
                      s['case'], s['leg'], show(s.get('expected')), show(s['rows']))
    ctx.leg('classify', suspects=len(suspects.items), explained_by_shipped_mechanism=len(explained))


def show(rows):
    if not rows:
        return None
    return {t: [[r[0], [hb.show_inv(v) for v in r[1]], r[2]] for r in rs[:6]] for t, rs in rows.items()}


# ---- the check ---------------------------------------------------------------------------------------------------------
def run(ctx):
    import beanquery
    ctx.rule = ('S2C: one case = (program tuple, grant sequence, connection mode); non-trivial = the schedule switches '
                'threads at least once.  C2S: one case = one seeded concurrent run (programs, grant log).  Isolate legs: '
                'one case = (job tuple, grant sequence, style number)')
    ctx.assumptions += [
        'interleavings are driven at pause points (sub-expression and row granularity); finer interleavings (inside one '
        'evaluation of the column: lookup / compute / store) are model-checked on the specification only',
        'TLC 1.8 with Json/IOUtils, CPython 3.12 threads under the GIL, harness/sched.py (turn-taking scheduler) and '
        'harness/balance.py (projection) are trusted',
        'Isolate: per case ONE real column stands for each abstract column class (directive identity / row\'s own item); '
        'harness/isolate.py (statement assembly, decoding of column values to identities) and '
        'beancount.core.compare.hash_entry (decoding of the id column) are trusted; pause points inside the compilation '
        'are the folded BQL functions cpause() / cyield(), the wildcard_columns property of harness tables and the '
        '__getitem__ of the parameters container -- interleavings between other compilation steps are model-checked only',
        'Isolate: pause points inside beanquery.parser.parse() are the entries of the functions of beanquery/parser/*.py '
        '(generated rule methods, semantic actions, node constructors), reached by a sys.monitoring (PEP 669, CPython '
        '3.12) PY_START callback that acts only in scheduled threads; which of them (job.parse of about 400 per '
        'statement) is a function of the case number; pre-emption inside TatSu\'s own functions is not driven',
        'Isolate: a function call of the specification (two operands, the thread descheduled between them) is realised by '
        'date_add(date, int), date_diff(date, date), round(int, int), maxwidth(str, int) and by the operators + / - over '
        'the tables\' own columns, the pause point sitting inside the second operand; calls with three operands, '
        'aggregates above calls and the same function nested in its own operand are not driven.  The subquery of a '
        'FROM-subquery renames plain columns (no WHERE, no pause point inside): its own scan is evaluated when the outer '
        'scan opens and its interleavings are those of a plain scan',
        'Isolate: delivery steps are driven by the harness thread itself (it hands the turn over after execute() has '
        'returned and before every fetch); a description is projected to the kinds of its columns (the statements name '
        'their targets c<n> / f<n> / p<n> / q<n>); rowcount / rownumber / iteration over the cursor are not observed',
        'placement (law leg, harness/ambient.py): the check runs on the thread that imported beanquery (the main thread); '
        'its serial outcomes are the reference for executions on fresh threads and from scheduled threads, compared by '
        'repr (digits and types).  Nesting depths 8 and 30 are meant to be far from the depth (about 15) the parser '
        'reaches under the default recursion limit of 1000, so that the stack the harness itself uses does not decide',
    ]
    rng = ctx.rng
    sched.register()
    suspects = Suspects()
    background = isolate_start(ctx)       # records the random runs, then TLC works on Isolate while the legs below run
    if getattr(beanquery, 'threadsafety', None) != 2:
        ctx.violation('module:threadsafety', 'the module advertises DB-API thread safety level 2', {'kind': 'attr'}, 'S2C', 2,
                      getattr(beanquery, 'threadsafety', None))
    ctx.case('module:threadsafety')
    # ---- MC
    for cfg in ('MC_Balance_C20_2x3.cfg', ctx.pick('MC_Balance_C20_3x2q.cfg', 'MC_Balance_C20_3x2.cfg')):
        res = ctx.tlc('MC_Balance', cfg, leg='MC', must_cover=COVER)
        if res.violated:
            ctx.violation('spec:' + ','.join(res.violated), 'TLC violates the property on the property-conforming mechanism',
                          {'behaviour': res.behaviour[:3000]}, 'MC')
    res = ctx.tlc('MC_Balance', 'MC_Balance_C20_live.cfg', leg='MC-liveness')
    if res.violated:
        ctx.violation('spec:termination', 'a thread does not finish under weak fairness', {'behaviour': res.behaviour[:3000]}, 'MC')
    res = ctx.tlc('MC_Balance', 'MC_Balance_C20_split.cfg', leg='MC-split', must_cover=('Lookup', 'Compute', 'Store'))
    if res.violated:
        ctx.violation('spec:split:' + ','.join(res.violated), 'split evaluation steps break the property',
                      {'behaviour': res.behaviour[:3000]}, 'MC')
    r1 = ctx.tlc('MC_Balance', 'MC_Balance_C20_shipped.cfg', leg='MC-nonvacuity', expect_violation='SerialInv', workers=4)
    ctx.tlc('MC_Balance', 'MC_Balance_C20_split_shipped.cfg', leg='MC-nonvacuity', expect_violation='SerialInv', workers=4)
    steps = [ln.split('<')[1].split(' ')[0] for ln in r1.behaviour.split('\n') if ln.startswith('State ') and '<' in ln and 'Initial' not in ln]
    ctx.leg('MC', shipped_eviction_schedule=steps,
            split='lookup / compute / store sub-steps are model-checked only; they cannot be replayed through pause points')
    # ---- S2C
    q = ctx.quick
    n = 0
    # quick: a seeded subset of the schedules of five configurations; thorough: every schedule of all eight
    n += replay_config(ctx, '2x3_same', 'Gen_Balance_2x3_same.cfg', 2, rng, suspects, limit=400 if q else None)
    n += replay_config(ctx, '3x2_diff', 'Gen_Balance_3x2_diff.cfg', 3, rng, suspects, limit=200 if q else None)
    n += replay_config(ctx, 'mix2s', 'Gen_Balance_mix2s.cfg', 2, rng, suspects, limit=150 if q else None)
    n += replay_config(ctx, 'mix3', 'Gen_Balance_mix3.cfg', 3, rng, suspects, limit=150 if q else None)
    if not q:
        n += replay_config(ctx, '2x3_diff', 'Gen_Balance_2x3_diff.cfg', 2, rng, suspects)
        n += replay_config(ctx, '3x2_same', 'Gen_Balance_3x2_same.cfg', 3, rng, suspects)
        n += replay_config(ctx, 'mix2', 'Gen_Balance_mix2.cfg', 2, rng, suspects)
    n += replay_config(ctx, '3x3', 'Gen_Balance_3x3.cfg', 3, rng, suspects, limit=100 if q else 6000,
                       simulate=200 if q else 8000)
    ctx.leg('S2C', replays=n, all_schedules_of_the_enumerated_configurations_replayed=not q,
            note='3x3 (3 threads x 3 rows x 2 pauses) is sampled by simulation in both tiers')
    shared_text_leg(ctx, ctx.pick(90, 1500))
    placement_leg(ctx)
    isolate_finish(ctx, background)
    ctx.exhaustive = False
    # ---- C2S
    nruns = ctx.pick(150, 2500)
    lines, meta = record_runs(ctx, nruns, rng, suspects)
    # binding self-test: a copy of one recorded run with ONE number of its results changed must be rejected
    import copy
    probe = []
    for rid, m in sorted(meta.items()):
        rows = [hb.rows_to_trace(m['rows'][t], 1) for t in range(1, len(m['progs']) + 1)]
        hit = [(t, n, j) for t, rs in enumerate(rows) for n, r in enumerate(rs) for j, v in enumerate(r[1]) if v]
        if hit:
            t, n, j = hit[-1]
            rows = copy.deepcopy(rows)
            rows[t][n][1][j][0][1] += 1
            probe = [{'k': 'begin', 'id': -1, 'progs': [hb.prog_to_trace(p) for p in m['progs']]}]
            probe += [{'k': 'grant', 'id': -1, 't': t_} for t_ in m['grants']]
            probe.append({'k': 'end', 'id': -1, 'rows': rows})
            break
    res, verdicts = run_trace(ctx, lines + probe, 'Trace_Balance.cfg', 'C2S', 'c20_trace.ndjson')
    if probe and not res.violated:
        if not any(p.get('verdict') == 'rejected' and p['id'] == -1 for p in verdicts):
            raise MachineryError('binding self-test: the corrupted copy of a recorded run was not rejected')
        verdicts = [p for p in verdicts if p.get('id') != -1]
        ctx.leg('C2S', corrupted_runs_rejected=1)
    if res.violated:
        ctx.violation('threads:trace-invariant:' + ','.join(res.violated), 'an invariant of Balance fails on a recorded run',
                      {'behaviour': res.behaviour[:2000]}, 'C2S')
    rejected = [p for p in verdicts if p.get('verdict') == 'rejected']
    for rj in rejected:
        m = meta[rj['id']]
        suspects.items.append(dict(leg='C2S', progs=m['progs'], grants=m['grants'], rows=m['rows'], texts=m['texts'],
                                   mode=m['mode'], case=dict(m['case'], verdict=rj),
                                   why='recorded run rejected by TLC: %s (thread %s, row %s)' % (rj['why'], rj['thread'], rj['row'])))
    ctx.traces += len(meta) - len(rejected)
    ctx.leg('C2S', runs=nruns, validated=len(meta), trace_lines=len(lines), rejected=len(rejected),
            grants=sum(1 for ln in lines if ln['k'] == 'grant'))
    classify(ctx, suspects)


# ---- identical statement text / one parsed statement object shared by the threads (maintainer's addition) ----------------
def register_yieldpoint():
    """`yieldpoint()`: a pause point that does not carry the thread id in the statement text, so that several threads
    can run the very same text (or the very same parsed statement object)."""
    from beanquery import query_compile, query_env
    if any(getattr(f, '_verif_yield', False) for f in query_compile.FUNCTIONS.get('yieldpoint', [])):
        return

    @query_env.function([], int, pass_row=True, name='yieldpoint')
    def yieldpoint(row):
        s = getattr(sched._local, 'sched', None)
        if s is not None:
            s.pause(getattr(sched._local, 'tid', None))
        return 0
    query_compile.FUNCTIONS['yieldpoint'][-1]._verif_yield = True


SHARED_TEXTS = [
    # the pause sits between the finalisation of a group and the reading of its aggregates
    "SELECT k, yieldpoint() + count(*) AS n, sum(v) AS sv FROM #agg GROUP BY k",
    "SELECT k, yieldpoint() + sum(v) AS sv, max(v) AS mx FROM #agg GROUP BY k HAVING count(*) > 0 ORDER BY k DESC",
    "SELECT yieldpoint() + count(*) AS n, min(v) AS mn FROM #agg",
    "SELECT k, v + yieldpoint() AS w FROM #agg WHERE v > 1 ORDER BY v",
    "SELECT DISTINCT k, yieldpoint() AS z FROM #agg",
    "SELECT k IN (SELECT k FROM #agg WHERE v > 25 + yieldpoint()) AS m, v FROM #agg",
]


def shared_text_leg(ctx, nruns):
    import random as _random
    import beanquery
    from beanquery import parser
    from harness import tables as ht
    sched.register()
    register_yieldpoint()
    rows = [(1, 10), (2, 20), (1, 30), (3, 40), (2, 50), (3, 5)]
    mk = lambda: ht.connection(ht.HarnessTable('agg', [('k', 'int'), ('v', 'int')], rows))   # noqa
    rng = _random.Random(ctx.seed + 77)
    bad = 0
    for run in range(nruns):
        text = SHARED_TEXTS[run % len(SHARED_TEXTS)]
        serial = mk().execute(text).fetchall()
        nthreads = rng.choice([2, 2, 3])
        mode = ('shared-connection', 'separate-connections', 'shared-parsed-statement')[run % 3]
        shared = mk()
        stmt = parser.parse(text) if mode == 'shared-parsed-statement' else text
        conns = {t: (shared if mode != 'separate-connections' else mk()) for t in range(1, nthreads + 1)}
        s = sched.Scheduler(rng=_random.Random(rng.random()), timeout=60.0)
        results, excs = s.run({t: (lambda c=conns[t]: c.execute(stmt).fetchall()) for t in conns})
        ctx.case('shared-text:%d:%s:%s' % (run % len(SHARED_TEXTS), mode, s.log), True)
        ctx.traces += 1
        for t in conns:
            got = results.get(t)
            if t in excs or got != serial:
                bad += 1
                ctx.violation('threads:shared-text:%s' % mode,
                              'threads running the same statement (%s) do not get the serial result' % mode,
                              {'text': text, 'mode': mode, 'grants': s.log, 'thread': t}, 'S2C', serial,
                              repr(excs[t]) if t in excs else got)
                break
    ctx.leg('S2C', shared_text_runs=nruns, shared_text_bad=bad)



# ---- which thread evaluates: interpreter state kept per thread / per process (harness/ambient.py) -----------------------------
def placement_leg(ctx):
    """LAW leg: statements sensitive to the interpreter's ambient state (decimal context: inexact arithmetic; recursion
    limit: deep nesting) executed one after another on the importing thread = alone on fresh threads = from scheduled
    threads descheduled inside the parser and at row steps.  The relation is the property's own; no expected values."""
    from harness import ambient
    sched.register()
    register_yieldpoint()
    t0 = time.monotonic()
    counts = ambient.run(ctx, ctx.seed + 606, limit0=LIMIT0)
    counts['wall_s'] = round(time.monotonic() - t0, 1)
    ctx.log('LAW placement: %s' % counts)
    ctx.leg('LAW-placement', **counts)


# ---- the whole execution: compilation + scan, plain columns, parameters (spec/Isolate.tla) -----------------------------------
ICOVER = ('ParseStart', 'Token', 'ParseEnd', 'Begin', 'From', 'Resolve', 'Bind', 'CompilePause', 'Build', 'NextRow', 'Finish', 'Test', 'Column', 'Yield',
          'Const', 'EmitRow')
ECOVER = ('Begin', 'From', 'Inner', 'SubTable', 'Resolve', 'Bind', 'CompilePause', 'Build', 'NextRow', 'Finish', 'Test', 'Column',
          'Yield', 'Const', 'EmitRow', 'Arg1', 'ArgYield', 'Arg2', 'Apply')
DCOVER = ('Begin', 'From', 'Resolve', 'Bind', 'Build', 'NextRow', 'Finish', 'Test', 'Column', 'Yield', 'EmitRow', 'Fetch')
ISO_LIMITS = {'params': (20, None), 'star': (20, None), 'rows': (70, None), 'tables': (110, None), 'mix3': (120, 3000),
              'sep3': (80, 2000), 'parse': (20, None), 'parse3': (40, 600), 'typed': (35, None),
              'typed3': (70, None), 'func': (35, None), 'funcw': (70, 1500), 'subq': (56, None),
              'subq3': (60, 200), 'deliver': (None, None), 'deliverp': (None, None),
              'deliver3': (60, 1500)}        # schedules replayed per family (quick, thorough); None = all
ISO_REPEAT = {'params': 2, 'star': 1, 'rows': 3, 'typed': 3, 'func': 2, 'deliverp': 2}     # small families: every schedule with several column choices


def atom(k, i=0):
    return {'k': k, 'i': i}


def fn(op, a, b):
    return {'k': 'fn', 'i': 0, 'op': op, 'a': a, 'b': b}


def random_jobs(rng):
    nt = rng.choice((2, 2, 3, 4))
    nconn = rng.randint(1, min(3, nt))
    ledgers = {}
    for g in (1, 2):
        ledgers[g] = [{'u': 10 * g + d, 'posts': [100 * g + 10 * d + j for j in range(1, 1 + rng.choice((0, 1, 1, 2)))], 'ty': 0}
                      for d in range(1, 1 + rng.randint(1, 4))]
    if rng.random() < 0.5:
        # directives of other types (prices, events, notes, ...) among the transactions: the typed tables
        types = rng.sample(range(1, 7), 2)
        for g in (1, 2):
            extra = [{'u': 10 * g + d, 'posts': [], 'ty': rng.choice(types)} for d in range(5, 5 + rng.randint(1, 4))]
            ledgers[g] = ledgers[g] + extra
            rng.shuffle(ledgers[g])
    typed = sorted({d['ty'] for g in (1, 2) for d in ledgers[g]})

    def pick_table():
        tab = rng.choice('epx' if len(typed) == 1 else 'epxxx')
        return tab, (rng.choice(typed) if tab == 'x' else 0)
    hot = pick_table()
    hot_op = rng.choice(('add', 'first'))
    of_conn = {c: ledgers[rng.choice((1, 2))] for c in range(1, nconn + 1)}
    # how the statements are handed over and the results taken: the threads of a run tend to use the same entry point
    hot_via = rng.choice(('cursor', 'conn', 'conn'))
    plans = ([], [], [], [0], [0], [1, 0], [2, 0], [1, 1, 0], [3, 0], [1], [2, 1])
    conns = list(range(1, nconn + 1)) + [rng.randint(1, nconn) for _ in range(nt - nconn)]
    rng.shuffle(conns)
    jobs = []
    for c in conns:
        # the threads of a run tend to meet in one table (same table object when they share the connection)
        tab, ty = hot if rng.random() < 0.5 else pick_table()
        star = rng.random() < 0.15
        # the threads of a run tend to call the same function (op): one operand list per function is what they could share
        call = lambda: fn(hot_op if rng.random() < 0.7 else rng.choice(('add', 'first')), rng.randint(1, 3), rng.randint(1, 3))   # noqa
        targets = [] if star else [rng.choice((atom('col', 1), atom('col', 2), atom('col', 2), atom('col', 3), atom('rp'),
                                               atom('rp'), atom('cp'), call(), call())) for _ in range(rng.randint(1, 4))]
        if not star and not any(a['k'] in ('col', 'fn') for a in targets):
            targets.insert(rng.randint(0, len(targets)), atom('col', 2))
        where = rng.sample(['lo', 'hi', 'rp', 'cp'], rng.choice((0, 1, 1, 2, 2, 3)))
        # the same tests written as function calls, the value the first operand
        where = ['f' + k if k in ('lo', 'hi') and rng.random() < 0.35 else k for k in where]
        keys = [r[0] for r in iso.table_rows(of_conn[c], tab, ty)] or [10]
        # (TatSu needs twice the time for a statement with nested calls: those are submitted as text less often)
        heavy = any(a['k'] == 'fn' for a in targets) or any(k in ('flo', 'fhi') for k in where)
        # FROM (SELECT ... ): the names the statement uses, in any order, possibly with others
        sub = []
        if rng.random() < 0.3:
            used = {a['i'] for a in targets if a['k'] == 'col'} | {x for a in targets if a['k'] == 'fn' for x in (a['a'], a['b'])}
            used |= {1} if any(k in ('lo', 'hi', 'flo', 'fhi') for k in where) else set()
            sub = sorted(used | {x for x in (1, 2, 3) if rng.random() < 0.4}) or [rng.randint(1, 3)]
            rng.shuffle(sub)
        jobs.append({'conn': c, 'ledger': of_conn[c], 'tab': tab, 'star': star, 'targets': targets,
                     'where': [atom(k) for k in where], 'lo': rng.choice(keys + [min(keys) - 1]),
                     'hi': rng.choice(keys + [max(keys) + 1]), 'lit': rng.random() < 0.4,
                     'wpause': star and not sub and rng.random() < 0.6, 'ppause': rng.random() < 0.5, 'ty': ty,
                     'parse': rng.choice((0, 0, 0, 0, 0, 0, 1, 2)) if not (sub or heavy) else rng.choice((0,) * 12 + (1, 2)),
                     'sub': sub, 'via': hot_via if rng.random() < 0.7 else rng.choice(('cursor', 'conn')),
                     'fetch': list(rng.choice(plans))})
    return jobs


def iso_key(jobs, what):
    return 'exec:%s:%s' % (iso.conn_mode(jobs), what)


def iso_judge(ctx, leg, case, desc, s, results, excs, texts, expected, expdesc=None):
    """one concurrent run against the rows the specification emitted (expected: {tid: rows} or None); True = clean"""
    jobs = case.jobs
    what = ' ;; '.join('T%d[conn %d]: %s' % (t, jobs[t - 1]['conn'], texts[t]) for t in sorted(texts))
    ok = True
    for tid, arg in s.mismatch:
        ctx.violation(iso_key(jobs, 'pause-argument'), 'thread %s evaluated a pause point of thread %s: a statement ran with '
                      'another execution\'s text, parameters or compiled form (%s)' % (tid, arg, what), desc, leg)
        ok = False
    for tid, ex in sorted(excs.items()):
        if isinstance(ex, sched.ScheduleDiverged):
            continue
        kind = 'pause-value' if isinstance(ex, iso.PauseValue) else 'exception:%s' % type(ex).__name__
        ctx.violation(iso_key(jobs, kind), 'thread %s raised %r; serial execution does not (%s)' % (tid, ex, what), desc, leg,
                      None if expected is None else expected.get(tid), repr(ex))
        ok = False
    if s.diverged and ok:
        ctx.violation(iso_key(jobs, 'schedule-diverged'), 'the run does not have the pause points of the specification\'s '
                      'behaviour: %s (%s)' % (s.diverged, what), desc, leg)
        return False
    if expected is not None and ok:
        for tid in sorted(expected):
            if results.get(tid) != expected[tid]:
                ctx.violation(iso_key(jobs, 'rows:' + iso.shape(jobs[tid - 1])),
                              'thread %d does not get the rows of serial execution (%s)' % (tid, what), desc, leg,
                              expected, results)
                return False
    if expdesc is not None and ok:
        for tid in sorted(expdesc):
            if case.descs.get(tid) != expdesc[tid]:
                ctx.violation(iso_key(jobs, 'description:' + iso.shape(jobs[tid - 1])),
                              'thread %d does not read the description of its own statement from the cursor its execute() '
                              'returned (%s)' % (tid, what), desc, leg, expdesc, dict(case.descs))
                return False
    return ok


def iso_record(ctx, nruns, rng):
    """C2S: seeded concurrent runs of random jobs; the scheduler picks the next thread itself and logs the grants"""
    lines, meta = [], {}
    for i in range(nruns):
        jobs = random_jobs(rng)
        pick = rng.randrange(10 ** 6)
        seed = rng.randrange(2 ** 31)
        case = iso.Case(jobs, pick)
        s, results, excs, texts = iso.run_case(case, rng=random.Random(seed))
        desc = {'kind': 'iso-random', 'jobs': jobs, 'pick': pick, 'sched_seed': seed, 'grants': list(s.log),
                'style': case.describe()}
        if not iso_judge(ctx, 'C2S', case, desc, s, results, excs, texts, None):
            continue
        rid = i + 1
        nt = len(jobs)
        lines.append({'k': 'begin', 'id': rid, 'jobs': jobs})
        lines += [{'k': 'grant', 'id': rid, 't': t} for t in s.log]
        lines.append({'k': 'end', 'id': rid, 'rows': [results[t] for t in range(1, nt + 1)],
                      'desc': [case.descs.get(t, []) for t in range(1, nt + 1)]})
        if i % 4 == 0:      # the same statements one after the other on the same connections
            serial = iso.run_serial(case)
            for t in range(1, nt + 1):
                if isinstance(serial[t], iso.SerialFailure):
                    ctx.violation(iso_key(jobs, 'serial:exception:%s:%s' % (type(serial[t].ex).__name__, iso.shape(jobs[t - 1]))),
                                  'a statement run alone after the concurrent run fails: %s' % texts[t],
                                  dict(desc, kind='iso-serial', tid=t), 'C2S', None, repr(serial[t]))
                    continue
                lines.append({'k': 'serial', 'id': rid, 'job': jobs[t - 1], 'rows': serial[t]})
        meta[rid] = dict(desc=desc, rows=results, texts=texts)
        ctx.case(json.dumps(['iso', jobs, s.log]), nontrivial=len(set(s.log)) > 1)
        if i == 0:
            ctx.sample({'leg': 'C2S', 'spec': 'Isolate', 'threads': nt, 'statements': texts, 'grants': s.log,
                        'style': case.describe()})
    return lines, meta


def isolate_start(ctx):
    """record the random runs now; then ONE background thread runs TLC on Isolate (model checking, non-vacuity,
    schedule generator, judging the recorded runs) while the legs on Balance go on in the foreground"""
    import concurrent.futures as cf
    iso.register()
    rng = random.Random(ctx.seed + 2020)
    nruns = ctx.pick(90, 1500)
    lines, meta = iso_record(ctx, nruns, rng)
    # binding self-test: a copy of one recorded run with ONE value changed must be rejected
    probe = []
    for rid, m in sorted(meta.items()):
        hit = [(t, n) for t in sorted(m['rows']) for n, r in enumerate(m['rows'][t]) if r]
        if hit:
            import copy
            t, n = hit[-1]
            rows = copy.deepcopy([m['rows'][u] for u in sorted(m['rows'])])
            rows[t - 1][n][-1] += 1
            src = [ln for ln in lines if ln['id'] == rid and ln['k'] in ('begin', 'grant')]
            end = next(ln for ln in lines if ln['id'] == rid and ln['k'] == 'end')
            probe = [dict(ln, id=-1) for ln in src] + [{'k': 'end', 'id': -1, 'rows': rows, 'desc': end['desc']}]
            break
    path = ctx.path('c20_isolate_trace.ndjson')
    with open(path, 'w') as f:
        for ln in lines + probe:
            f.write(json.dumps(ln) + '\n')
    w = 6

    def work():
        out = {}
        out['mc2'] = ctx.tlc('MC_Isolate', 'MC_Isolate_2x3.cfg', leg='MC', workers=w)
        out['mc3'] = ctx.tlc('MC_Isolate', 'MC_Isolate_3x2q.cfg', leg='MC', workers=w, must_cover=ICOVER)
        if not ctx.quick:
            out['mc3t'] = ctx.tlc('MC_Isolate', 'MC_Isolate_3x2.cfg', leg='MC', workers=w)
        out['nv1'] = ctx.tlc('MC_Isolate', 'MC_Isolate_compiler.cfg', leg='MC-nonvacuity', expect_violation='OwnParameters',
                             workers=2)
        out['nv2'] = ctx.tlc('MC_Isolate', 'MC_Isolate_memo.cfg', leg='MC-nonvacuity', expect_violation='OwnRow', workers=2)
        out['nv3'] = ctx.tlc('MC_Isolate', 'MC_Isolate_parser.cfg', leg='MC-nonvacuity', expect_violation='OwnStatement',
                             workers=2)
        out['nv4'] = ctx.tlc('MC_Isolate', 'MC_Isolate_scan.cfg', leg='MC-nonvacuity', expect_violation='SerialInv', workers=2)
        out['gen'] = ctx.tlc('Gen_Isolate', 'Gen_Isolate_all.cfg', leg='GEN', workers=w, timeout=ctx.pick(600, 3000))
        out['trace'] = ctx.tlc('Trace_Isolate', 'Trace_Isolate.cfg', leg='C2S', workers=1, env={'TRACE_FILE': path},
                               timeout=ctx.pick(900, 3000), jvm=('-Xss64m',))
        return out

    def work2():
        # function calls and FROM-subqueries: a chain of its own, so that the first one is not longer than it was
        out = {}
        out['mce'] = ctx.tlc('MC_Isolate', 'MC_Isolate_expr.cfg', leg='MC', workers=4, must_cover=ECOVER)
        out['nv5'] = ctx.tlc('MC_Isolate', 'MC_Isolate_operands.cfg', leg='MC-nonvacuity', expect_violation='OwnOperands',
                             workers=2)
        out['nv6'] = ctx.tlc('MC_Isolate', 'MC_Isolate_subcols.cfg', leg='MC-nonvacuity', expect_violation='OwnNames', workers=2)
        # delivery of the results through the connection's execute() shortcut / a cursor of the thread's own
        out['mcd'] = ctx.tlc('MC_Isolate', 'MC_Isolate_deliver.cfg', leg='MC', workers=4, must_cover=DCOVER)
        out['nv7'] = ctx.tlc('MC_Isolate', 'MC_Isolate_results.cfg', leg='MC-nonvacuity', expect_violation='OwnResults', workers=2)
        return out
    pool = cf.ThreadPoolExecutor(2)
    fut = pool.submit(work)
    fut2 = pool.submit(work2)
    pool.shutdown(wait=False)
    return dict(future=fut, future2=fut2, lines=lines, meta=meta, probe=probe, nruns=nruns, rng=rng)


def isolate_finish(ctx, bg):
    import time
    t0 = time.monotonic()
    out = bg['future'].result()      # a MachineryError of the background thread is raised here
    out.update(bg['future2'].result())
    ctx.leg('MC', isolate_background_wait_s=round(time.monotonic() - t0, 1))
    for k in ('mc2', 'mc3', 'mc3t', 'mce', 'mcd'):
        if k in out and out[k].violated:
            ctx.violation('spec:isolate:' + ','.join(out[k].violated), 'TLC violates the property on the property-conforming '
                          'mechanism of Isolate', {'behaviour': out[k].behaviour[:3000]}, 'MC')

    def steps(res):
        return [ln.split('<')[1].split(' ')[0] for ln in res.behaviour.split('\n')
                if ln.startswith('State ') and '<' in ln and 'Initial' not in ln]
    ctx.leg('MC', isolate_compiler_per_connection_schedule=steps(out['nv1']), isolate_rowid_memo_schedule=steps(out['nv2']),
            isolate_process_wide_parser_schedule=steps(out['nv3']), isolate_lazy_table_rows_schedule=steps(out['nv4']),
            isolate_operand_list_per_function_schedule=steps(out['nv5']),
            isolate_shared_subquery_columns_schedule=steps(out['nv6']),
            isolate_one_cursor_per_connection_schedule=steps(out['nv7']))
    # ---- S2C
    rng = bg['rng']
    fams = {}
    for p in out['gen'].printed:
        if isinstance(p, dict) and 'jobs' in p:
            fams.setdefault(p['family'], {'scheds': {}})['jobs'] = p['jobs']
        elif isinstance(p, dict) and 'sched' in p:
            fams.setdefault(p['family'], {'scheds': {}})['scheds'].setdefault(tuple(p['sched']), [p['out'], p['desc']])
    if set(fams) != set(ISO_LIMITS) or any('jobs' not in f or not f['scheds'] for f in fams.values()):
        raise MachineryError('Gen_Isolate emitted families %s' % sorted(fams))
    total = 0
    for name in sorted(fams):
        jobs, scheds = fams[name]['jobs'], fams[name]['scheds']
        nt = len(jobs)
        outs = {json.dumps(o) for o in scheds.values()}
        if len(outs) != 1:
            raise MachineryError('the specification emits schedule-dependent rows in family %s' % name)
        exp = {t + 1: json.loads(next(iter(outs)))[0][t] for t in range(nt)}
        expdesc = {t + 1: json.loads(next(iter(outs)))[1][t] for t in range(nt)}
        keys = sorted(scheds)
        limit = ISO_LIMITS[name][0 if ctx.quick else 1]
        if limit is not None and len(keys) > limit:
            keys = rng.sample(keys, limit)
        base = rng.randrange(10 ** 6)
        nrun = nbad = nser = 0
        t0 = time.monotonic()
        for rep in range(ISO_REPEAT.get(name, 1) if ctx.quick else (7 if len(scheds) <= 500 else 1)):
            for sc in keys:
                pick = base + nrun
                case = iso.Case(jobs, pick)
                desc = {'kind': 'iso-schedule', 'family': name, 'jobs': jobs, 'sched': list(sc), 'pick': pick,
                        'style': case.describe()}
                if nrun % 10 == 0:
                    # every job alone, one after the other: the serial results of the code are the specification's rows
                    # (alternately on the connections of the concurrent run -- connections with a history -- and on
                    # connections of their own, so that the concurrent run meets connections nothing has run on yet)
                    got = iso.run_serial(case if nrun % 20 == 0 else iso.Case(jobs, pick))
                    nser += 1
                    for t in sorted(exp):
                        if got[t] != exp[t]:
                            ctx.violation('exec:serial:' + iso.shape(jobs[t - 1]), 'a statement run alone does not return the '
                                          'rows of the specification: ' + case.statement(jobs[t - 1], t)[0],
                                          dict(desc, kind='iso-serial', tid=t), 'S2C', exp[t],
                                          repr(got[t]) if isinstance(got[t], iso.SerialFailure) else got[t])
                s, results, excs, texts = iso.run_case(case, order=list(sc))
                ok = iso_judge(ctx, 'S2C', case, desc, s, results, excs, texts, exp, expdesc)
                ctx.case(json.dumps(['iso', name, sc, pick]), nontrivial=len(set(sc)) > 1)
                ctx.traces += 1
                nrun += 1
                nbad += not ok
                if nrun == 1:
                    ctx.sample({'leg': 'S2C', 'spec': 'Isolate', 'family': name, 'schedule': list(sc), 'statements': texts,
                                'style': case.describe(), 'expected_rows': exp})
        total += nrun
        ctx.leg('S2C', **{'isolate_' + name: {'schedules_emitted': len(scheds), 'replays': nrun, 'serial_checks': nser,
                                              'mismatching': nbad, 'connections': iso.conn_mode(jobs),
                                              'wall_s': round(time.monotonic() - t0, 1)}})
    ctx.leg('S2C', isolate_replays=total)
    # ---- C2S
    res = out['trace']
    lines, meta, probe = bg['lines'], bg['meta'], bg['probe']
    verdicts = [p for p in res.printed if isinstance(p, dict)]
    if res.violated:
        ctx.violation('exec:trace-invariant:' + ','.join(res.violated), 'an invariant of Isolate fails on a recorded run',
                      {'behaviour': res.behaviour[:2000]}, 'C2S')
    else:
        if not any(p.get('verdict') == 'consumed' and p['lines'] == len(lines) + len(probe) for p in verdicts):
            raise MachineryError('trace c20_isolate_trace.ndjson not consumed (%d lines): %s' % (len(lines) + len(probe), res.errors[:2]))
        if probe and not any(p.get('verdict') == 'rejected' and p['id'] == -1 for p in verdicts):
            raise MachineryError('binding self-test (Isolate): the corrupted copy of a recorded run was not rejected')
    rejected = [p for p in verdicts if p.get('verdict') == 'rejected' and p['id'] != -1]
    for rj in rejected:
        m = meta[rj['id']]
        jobs = m['desc']['jobs']
        what = ('serial:' if rj['kind'] == 'serial' else 'rows:') + (iso.shape(jobs[rj['thread'] - 1]) if 1 <= rj['thread'] <= len(jobs) else '-')
        ctx.violation(iso_key(jobs, what), 'recorded run rejected by TLC: %s (thread %s, row %s) -- %s' % (
            rj['why'], rj['thread'], rj['row'], ' ;; '.join('T%d: %s' % kv for kv in sorted(m['texts'].items()))),
            dict(m['desc'], verdict=rj), 'C2S', None, m['rows'])
    ctx.traces += len(meta) - len({rj['id'] for rj in rejected})
    ctx.leg('C2S', isolate_runs=bg['nruns'], isolate_validated=len(meta), isolate_trace_lines=len(lines),
            isolate_rejected=len(rejected), isolate_corrupted_runs_rejected=1 if probe else 0,
            isolate_grants=sum(1 for ln in lines if ln['k'] == 'grant'))


def iso_replay(ctx, rep):
    case_d = rep['case']
    jobs = case_d['jobs']
    case = iso.Case(jobs, case_d['pick'])
    serial = iso.run_serial(case)
    serial_descs = dict(case.descs)
    print('replay: style', case.describe())
    if case_d['kind'] == 'iso-serial':
        print('replay: serial rows', serial[case_d['tid']], 'expected', rep.get('expected'))
        same = serial[case_d['tid']] == rep.get('expected')
        print('replay:', 'no mismatch' if same else 'MISMATCH reproduced')
        return 0 if same else 1
    case = iso.Case(jobs, case_d['pick'])
    if case_d['kind'] == 'iso-random':     # the scheduler's own choices are a function of the stored seed
        s, results, excs, texts = iso.run_case(case, rng=random.Random(case_d['sched_seed']))
    else:
        s, results, excs, texts = iso.run_case(case, order=case_d['sched'])
    print('replay: statements', texts)
    print('replay: grants', s.log, 'diverged:', s.diverged, 'exceptions:', excs, 'pause-argument mismatches:', s.mismatch)
    print('  concurrent', results)
    print('  serial    ', serial)
    same = results == serial and not excs and not s.diverged and not s.mismatch
    if same and case.descs != serial_descs:
        print('  descriptions read: concurrent', case.descs, 'serial', serial_descs)
        same = False
    if same:
        # let TLC judge the run again
        lines = [{'k': 'begin', 'id': 1, 'jobs': jobs}] + [{'k': 'grant', 'id': 1, 't': t} for t in s.log]
        lines.append({'k': 'end', 'id': 1, 'rows': [results[t] for t in range(1, len(jobs) + 1)],
                      'desc': [case.descs.get(t, []) for t in range(1, len(jobs) + 1)]})
        path = ctx.path('replay_isolate.ndjson')
        with open(path, 'w') as f:
            for ln in lines:
                f.write(json.dumps(ln) + '\n')
        res = ctx.tlc('Trace_Isolate', 'Trace_Isolate.cfg', leg='C2S', workers=1, env={'TRACE_FILE': path}, jvm=('-Xss64m',))
        rej = [p for p in res.printed if isinstance(p, dict) and p.get('verdict') == 'rejected']
        if rej or res.violated:
            print('  TLC rejects the run:', rej or res.violated)
            same = False
    print('replay:', 'no mismatch (concurrent = serial = specification)' if same else
          'MISMATCH reproduced (concurrent results differ from serial execution or from the specification)')
    return 0 if same else 1


def replay(ctx, rep):
    case = rep['case']
    sched.register()
    if str(case.get('kind', '')).startswith('iso-'):
        iso.register()
        return iso_replay(ctx, rep)
    if case.get('kind') in ('schedule', 'random-run'):
        progs = case['progs']
        text = case.get('as_text', False)
        conns, styles = realise(progs, case['mode'], case['rseed'], named=text)
        order = case.get('sched') or case.get('grants')
        s, results, excs, texts = run_threads(progs, conns, styles, order=order, as_text=text)
        conns2, styles2 = realise(progs, case['mode'], case['rseed'], named=text)
        serial = run_serial(progs, conns2, styles2)
        print('replay: statements', texts)
        print('replay: grants', s.log, 'diverged:', s.diverged, 'exceptions:', excs, 'pause-argument mismatches:', s.mismatch)
        same = results == serial and not excs and not s.diverged and not s.mismatch
        print('  concurrent', show(results))
        print('  serial    ', show(serial))
        norm = json.loads(json.dumps(show(results), default=str)) if results else None
        if rep.get('expected') is not None and norm != rep['expected']:
            print('  specification', rep['expected'])
            same = False
        elif rep.get('expected') is None and same:
            # a recorded run: let TLC judge it again
            lines = [{'k': 'begin', 'id': 1, 'progs': [hb.prog_to_trace(p) for p in progs]}]
            lines += [{'k': 'grant', 'id': 1, 't': t} for t in s.log]
            lines.append({'k': 'end', 'id': 1, 'rows': [hb.rows_to_trace(results[t], 1) for t in range(1, len(progs) + 1)]})
            res, verdicts = run_trace(ctx, lines, 'Trace_Balance.cfg', 'C2S', 'replay.ndjson')
            rej = [p for p in verdicts if p.get('verdict') == 'rejected']
            if rej or res.violated:
                print('  TLC rejects the run:', rej or res.violated)
                same = False
        print('replay:', 'no mismatch (concurrent = serial = specification)' if same else
              'MISMATCH reproduced (concurrent results differ from serial execution or from the specification)')
        return 0 if same else 1
    if case.get('kind') == 'serial':
        progs = case['progs']
        conns, styles = realise(progs, case['mode'], case['rseed'])
        rows = run_serial(progs, conns, styles)[case['tid']]
        exp = rep.get('expected') or {}
        print('replay: serial rows ', show({1: rows}))
        print('replay: expected    ', exp)
        same = json.loads(json.dumps(show({1: rows}), default=str)) == exp
        print('replay:', 'no mismatch' if same else 'MISMATCH reproduced')
        return 0 if same else 1
    if case.get('kind') == 'placement':
        # outcomes depend on the placement (which thread, what the others are in the middle of): the leg is re-run whole
        from harness import ambient
        register_yieldpoint()
        counts = ambient.run(ctx, rep.get('seed', ctx.seed) + 606, limit0=LIMIT0)
        print('replay: placement leg:', counts)
        print('replay:', 'MISMATCH reproduced' if counts['bad'] else 'no mismatch (every placement = serial execution)')
        return 1 if counts['bad'] else 0
    if case.get('kind') == 'attr':
        import beanquery
        print('replay: beanquery.threadsafety =', getattr(beanquery, 'threadsafety', None))
        return 0 if getattr(beanquery, 'threadsafety', None) == 2 else 1
    print('replay: case kind not replayable standalone; re-run the check')
    return 2
