"""C10 -- cursor fetch protocol and description (spec/Cursor.tla).

legs: MC   TLC checks the declarative protocol laws on the buffer/position mechanism (2 cursors);
           a second run on the mechanism as shipped before the fix must violate RowCountInv (non-vacuity)
      S2C  every behaviour of the spec up to depth D (plus simulated deeper ones) is replayed on real cursors
           and every attribute is compared after every call; the Column sequence protocol table likewise
      C2S  random long histories on results of real queries are recorded and replayed through the spec's
           actions by TLC (Trace_Cursor), all invariants evaluated in every state
"""
import datetime
import decimal
import json

from harness import tables as ht

ROWS = [(i, 's%d' % i, datetime.date(2020, 1, 1) + datetime.timedelta(days=i), decimal.Decimal(i) / 4) for i in range(1, 61)]
COLS = [('i', 'int'), ('s', 'str'), ('d', 'date'), ('x', 'Decimal')]
TYPENAME = {int: 'int', str: 'str', datetime.date: 'date', decimal.Decimal: 'Decimal', bool: 'bool'}


def make_conn():
    return ht.connection(ht.HarnessTable('t', COLS, ROWS))


def stmt_for(n, cols, rng=None):
    names = ', '.join(c[0] for c in cols)
    if rng is not None and rng.random() < 0.3:
        return 'SELECT %s FROM #t ORDER BY i LIMIT %d' % (names, n)
    return 'SELECT %s FROM #t WHERE i <= %d' % (names, n)


def proj_desc(d):
    import beanquery
    if d is None:
        return 'None'
    out = []
    for col in d:
        ok = (isinstance(col, beanquery.Column) and len(col) == 7 and list(col)[2:] == [None] * 5
              and col[0] == col.name and col[1] == col.type_code == hash(col.datatype))
        out.append([col.name, TYPENAME.get(col.datatype, repr(col.datatype)) if ok else 'MALFORMED'])
    return out


def rid(row):
    return row[0]


_PARSED = {}


def parsed(text):
    """TatSu parsing costs ~10 ms per statement; execute() accepts parsed statements too."""
    from beanquery import parser
    if text not in _PARSED:
        _PARSED[text] = parser.parse(text)
    return _PARSED[text]


def apply_op(cur, op, arg, n_cols=None, rng=None):
    """perform one call; returns the projected return value in the spec's vocabulary"""
    if op == 'execute':
        n, cols = arg
        text = stmt_for(n, cols, rng)
        r = cur.execute(text if (rng is not None and rng.random() < 0.05) else parsed(text))
        return 'None' if r is cur else 'execute did not return the cursor'
    if op == 'fetchone':
        r = cur.fetchone()
        return 'None' if r is None else rid(r)
    if op == 'fetchmany':
        return [rid(r) for r in cur.fetchmany(arg)]
    if op == 'fetchmanydefault':
        return [rid(r) for r in cur.fetchmany()]
    if op == 'fetchall':
        return [rid(r) for r in cur.fetchall()]
    if op == 'iterate':
        return [rid(r) for r in cur]
    if op == 'setarraysize':
        cur.arraysize = arg
        return 'None'
    raise ValueError(op)


def observe(cur):
    return {'rownumber': cur.rownumber, 'rowcount': cur.rowcount, 'arraysize': cur.arraysize,
            'desc': proj_desc(cur.description)}


def hist_key(hist, upto):
    return ' ; '.join('%s(%s)' % (h['op'], h['arg']) if h['arg'] != 'None' else h['op'] for h in hist[:upto + 1])


def short_key(hist, k):
    """known-finding key: the shortest description of what fails = the op and the attribute"""
    return hist[k]['op']


def replay_behaviour(ctx, hist, ncursors, lazy):
    conn = make_conn()
    cursors = {}
    if not lazy:
        for c in range(1, ncursors + 1):
            cursors[c] = conn.cursor()
    for k, h in enumerate(hist):
        c = h['c']
        arg = h['arg']
        if h['op'] == 'execute':
            arg = (h['arg'], h['obs']['desc'])
        via_conn = c not in cursors and h['op'] == 'execute' and (k + c) % 2 == 0
        if via_conn:
            # the Connection.execute shortcut hands out a new cursor
            cursors[c] = conn.execute(parsed(stmt_for(*arg)))
            ret = 'None'
            cur = cursors[c]
        else:
            if c not in cursors:
                cursors[c] = conn.cursor()
            cur = cursors[c]
            try:
                ret = apply_op(cur, h['op'], arg)
            except Exception as ex:  # noqa
                ret = 'EXC:%s' % type(ex).__name__
        obs = observe(cur)
        if ret != h['val']:
            ctx.violation('cursor:%s:return' % h['op'], 'return value of %s' % h['op'],
                          {'hist': hist, 'step': k, 'ncursors': ncursors, 'lazy': lazy}, 'S2C', h['val'], ret)
            return False
        for attr in ('rownumber', 'rowcount', 'arraysize', 'desc'):
            if obs[attr] != h['obs'][attr]:
                ctx.violation('cursor:%s:%s' % (h['op'], attr), '%s after %s' % (attr, hist_key(hist, k)),
                              {'hist': hist, 'step': k, 'ncursors': ncursors, 'lazy': lazy}, 'S2C',
                              h['obs'][attr], obs[attr])
                return False
        for d, (rn, rc) in enumerate(h['others'], 1):
            if d == c:
                continue
            if d in cursors:
                got = (cursors[d].rownumber, cursors[d].rowcount)
            else:
                got = (0, -1)
            if got != (rn, rc):
                ctx.violation('cursor:isolation', 'cursor %d changed by %s on cursor %d' % (d, h['op'], c),
                              {'hist': hist, 'step': k, 'ncursors': ncursors, 'lazy': lazy}, 'S2C', [rn, rc], list(got))
                return False
    return True


def check_desc_table(ctx, table):
    import beanquery
    conn = make_conn()
    cur = conn.execute('SELECT i FROM #t')
    col = cur.description[0]
    n = 0

    def norm(v):
        if v == 'None':
            return None
        if v == 'int':
            return hash(int)
        return v
    for i, exp in table['index']:
        n += 1
        try:
            got = col[i]
        except IndexError:
            got = 'IndexError'
        except Exception as ex:  # noqa
            got = 'EXC:%s' % type(ex).__name__
        if got != norm(exp):
            ctx.violation('column:index', 'Column[%d]' % i, {'index': i}, 'S2C', exp, repr(got))
    for a, b, exp in table['slices']:
        n += 1
        sl = slice(None if a == 'None' else a, None if b == 'None' else b)
        try:
            got = col[sl]
            ok = list(got) == [norm(v) for v in exp]
        except Exception as ex:  # noqa
            got = 'EXC:%s' % type(ex).__name__
            ok = False
        if not ok:
            ctx.violation('column:slice', 'Column[%s:%s]' % (a, b), {'slice': [a, b]}, 'S2C', exp, repr(got))
    # len / iteration / equality
    checks = {
        'len': len(col) == table['len'] == 7,
        'iter': list(col) == ['i', hash(int), None, None, None, None, None],
        'eq-column': col == beanquery.Column('i', int) and not (col == beanquery.Column('j', int))
        and not (col == beanquery.Column('i', str)),
        'eq-tuple': col == ('i', int) and not (col == ('j', int)),
        'sequence': isinstance(col, __import__('collections').abc.Sequence),
        'count-index': col.index('i') == 0 and col.count(None) == 5,
        'reversed': list(reversed(col))[-1] == 'i',
        'contains': 'i' in col,
    }
    for name, ok in checks.items():
        n += 1
        if not ok:
            ctx.violation('column:%s' % name, 'Column %s' % name, {'check': name}, 'S2C', True, False)
    ctx.case('desc-table', n=n)
    ctx.traces += n
    ctx.leg('S2C', desc_protocol_cases=n)


def check_description_sequence(ctx):
    """the description object itself, for every statement shape that builds one its own way (plain, wildcard, aggregate with helper
    targets, pivoted, over a subquery, no rows): a sequence - len, indexing from both ends, slicing, repeated iteration, equality
    with the description of a second execution - of 7-item sequences"""
    import collections.abc
    conn = make_conn()
    stmts = ['SELECT i FROM #t', 'SELECT * FROM #t', 'SELECT i, count(*) AS n FROM #t GROUP BY i HAVING count(*) > 0 ORDER BY max(i)',
             'SELECT i, i % 2 AS m, count(*) AS n FROM #t GROUP BY 1, 2 PIVOT BY 1, 2', 'SELECT i, i % 2 AS m, count(*) AS n, max(i) AS x FROM #t GROUP BY 1, 2 PIVOT BY m, i',
             'SELECT i AS a FROM (SELECT i FROM #t)', 'SELECT i FROM #t WHERE i < 0', 'SELECT i, i % 2 AS m, count(*) AS n FROM #t WHERE i < 0 GROUP BY 1, 2 PIVOT BY 1, 2']
    n = 0
    for text in stmts:
        cur = conn.execute(text)
        d = cur.description
        d2 = conn.execute(text).description
        checks = {}
        try:
            first = list(d)
            checks['sequence'] = isinstance(d, collections.abc.Sequence)
            checks['len'] = len(d) == len(first) >= 1
            checks['iterate-again'] = list(d) == first and [c for c in d] == first
            checks['index'] = d[0] == first[0] and d[-1] == first[-1] and d[len(d) - 1] == first[-1]
            checks['slice'] = list(d[0:1]) == first[0:1] and list(d[1:]) == first[1:] and list(d[:]) == first
            checks['equality'] = (d == d2) and not (d != d2)
            checks['items'] = all(len(c) == 7 and isinstance(c[0], str) and list(c[2:]) == [None] * 5 for c in d)
            rows = cur.fetchall()
            checks['row-arity'] = all(len(r) == len(first) for r in rows)
        except Exception as ex:  # noqa
            checks['raises:' + type(ex).__name__] = False
        for name, ok in checks.items():
            n += 1
            if not ok:
                ctx.violation('description:%s' % name, 'cursor.description as a sequence: %s' % name, {'text': text}, 'S2C', True, False)
        ctx.case('description:' + text)
    ctx.traces += n
    ctx.leg('S2C', description_sequence_checks=n)


def module_attrs(ctx):
    import beanquery
    exp = {'apilevel': '2.0', 'threadsafety': 2, 'paramstyle': 'pyformat'}
    for k, v in exp.items():
        if getattr(beanquery, k, None) != v:
            ctx.violation('module:%s' % k, 'module attribute %s' % k, {'attr': k}, 'S2C', v, getattr(beanquery, k, None))
    hier = [('Error', Exception), ('InterfaceError', 'Error'), ('DatabaseError', 'Error'),
            ('DataError', 'DatabaseError'), ('OperationalError', 'DatabaseError'), ('IntegrityError', 'DatabaseError'),
            ('InternalError', 'DatabaseError'), ('ProgrammingError', 'DatabaseError'),
            ('NotSupportedError', 'DatabaseError'), ('ParseError', 'ProgrammingError'),
            ('CompilationError', 'ProgrammingError')]
    for name, base in hier:
        b = base if isinstance(base, type) else getattr(beanquery, base)
        if not issubclass(getattr(beanquery, name), b):
            ctx.violation('module:hierarchy:%s' % name, 'exception hierarchy', {'name': name}, 'S2C')
    conn = beanquery.Connection()
    cur = conn.cursor()
    ok = (cur.connection is conn and cur.description is None and cur.rowcount == -1 and cur.rownumber == 0
          and cur.fetchone() is None and cur.fetchmany() == [] and cur.fetchall() == [] and list(cur) == []
          and cur.close() is None and cur.setinputsizes([1]) is None and cur.setoutputsize(1) is None)
    if not ok:
        ctx.violation('cursor:unexecuted', 'fresh cursor attributes', {}, 'S2C')
    ctx.case('module-attrs', n=len(exp) + len(hier) + 1)


# ---- C2S: record random histories from the real code ----------------------------------------------
def record_histories(ctx, path, ntraces, maxlen, ncursors=2):
    rng = ctx.rng
    nev = 0
    with open(path, 'w') as f:
        for tid in range(ntraces):
            conn = make_conn()
            cursors = {}
            f.write(json.dumps({'op': 'begin', 'tid': tid}) + '\n')
            nev += 1
            length = rng.randint(1, maxlen)
            for _ in range(length):
                c = rng.randint(1, ncursors)
                fresh = c not in cursors
                if fresh and rng.random() < 0.5:
                    # first use of this cursor through the Connection.execute shortcut
                    n = rng.choice([0, 1, 3, 8])
                    cols = [COLS[0]] + rng.sample(COLS[1:], rng.randint(0, 2))
                    cursors[c] = conn.execute(stmt_for(n, cols))
                    o = observe(cursors[c])
                    f.write(json.dumps({'tid': tid, 'c': c, 'arg': 0, 'n': n, 'op': 'execute', 'ret': [], 'rownumber': o['rownumber'],
                                        'rowcount': o['rowcount'], 'arraysize': o['arraysize'], 'desc': o['desc']}) + '\n')
                    nev += 1
                    continue
                if fresh:
                    cursors[c] = conn.cursor()
                cur = cursors[c]
                r = rng.random()
                ev = {'tid': tid, 'c': c, 'arg': 0, 'n': 0}
                if r < 0.12 or (cur.description is None and r < 0.5):
                    n = rng.choice([0, 1, 2, 3, 5, 8, 13, 21, 34, 50])
                    k = rng.randint(1, 4)
                    cols = [COLS[0]] + rng.sample(COLS[1:], k - 1)
                    ev['op'] = 'execute'
                    ev['n'] = n
                    arg = (n, cols)
                elif r < 0.35:
                    ev['op'] = 'fetchone'
                    arg = None
                elif r < 0.6:
                    ev['op'] = 'fetchmany'
                    ev['arg'] = arg = rng.choice([0, 1, 1, 2, 3, 4, 7, 10, 60])
                elif r < 0.75:
                    ev['op'] = 'fetchmanydefault'
                    arg = None
                elif r < 0.82:
                    ev['op'] = 'fetchall'
                    arg = None
                elif r < 0.9:
                    ev['op'] = 'iterate'
                    arg = None
                else:
                    ev['op'] = 'setarraysize'
                    ev['arg'] = arg = rng.choice([1, 2, 3, 5, 9])
                try:
                    ret = apply_op(cur, ev['op'], arg, rng=rng)
                except Exception as ex:  # noqa
                    ret = [-1000]
                    ev['exc'] = type(ex).__name__
                if ret == 'None':
                    ret = []
                elif isinstance(ret, int):
                    ret = [ret]
                elif not isinstance(ret, list):
                    ret = [-999]
                ev['ret'] = ret
                o = observe(cur)
                ev['rownumber'] = o['rownumber']
                ev['rowcount'] = o['rowcount']
                ev['arraysize'] = o['arraysize']
                ev['desc'] = [] if o['desc'] == 'None' else o['desc']
                f.write(json.dumps(ev) + '\n')
                nev += 1
    return nev


def validate_traces(ctx, path, nev, ntraces, what):
    res = ctx.tlc('Trace_Cursor', 'Trace_Cursor.cfg', leg='C2S', workers=1, env={'TRACE_FILE': path},
                  timeout=ctx.pick(600, 3600))
    rejected = [p for p in res.printed if isinstance(p, dict) and p.get('verdict') == 'rejected']
    with open(path) as f:
        lines = f.read().split('\n')
    for rj in rejected:
        ev = json.loads(lines[rj['line'] - 1])
        # the events of that trace up to the rejected line
        hist = [json.loads(x) for x in lines[:rj['line']] if x and json.loads(x).get('tid') == rj['tid']]
        attr = 'return'
        if ev.get('exc'):
            attr = 'exception:' + ev['exc']
        elif ev['rownumber'] != rj['spec_rownumber'] + len(ev['ret']) and ev['op'] != 'execute':
            attr = 'rownumber'
        else:
            # decide which logged field the spec cannot explain
            nres = next((h['n'] for h in reversed(hist) if h.get('op') == 'execute' and h['c'] == ev['c']), None)
            if nres is not None and ev['rowcount'] != nres:
                attr = 'rowcount'
        ctx.violation('cursor:%s:%s' % (ev['op'], attr), 'recorded event not explained by the specification',
                      {'trace': hist[-12:], 'line': rj['line'], 'spec': rj}, 'C2S')
    if res.violated:
        ctx.violation('cursor:trace-invariant:%s' % ','.join(res.violated),
                      'a protocol invariant fails in a state of a recorded history', {'behaviour': res.behaviour[:3000]}, 'C2S')
    elif res.post_failed or res.depth - 1 != nev:
        from harness.core import MachineryError
        raise MachineryError('trace not consumed: depth %d, events %d (%s)' % (res.depth, nev, res.errors[:2]))
    ctx.traces += ntraces - len(rejected)
    ctx.leg('C2S', traces=ntraces, events=nev, rejected=len(rejected), what=what)


def run(ctx):
    ctx.rule = ('S2C: every behaviour of Cursor (13-26 letter call alphabet) up to the stated depth, each a distinct call '
                'sequence, plus simulated deeper ones; non-trivial = contains at least one execute followed by a fetch; '
                'C2S: random histories (<= 60 calls, 2 cursors, results of 0..50 rows of real queries)')
    ctx.assumptions += ['rows are identified by their first column (1..n in result order)',
                        'fetchmany sizes >= 0; iteration is a complete list(cursor) call',
                        'TLC 1.8, Json/IOUtils community modules, CPython 3.12']
    # ---- MC
    res = ctx.tlc('MC_Cursor', 'MC_Cursor.cfg', leg='MC', coverage=True,
                  must_cover=('ExecuteRec', 'FetchOne', 'IterateKeep', 'IterateConsume', 'SetArraysize'))
    if res.violated:
        ctx.violation('spec:' + ','.join(res.violated), 'TLC violates the protocol laws on the mechanism',
                      {'behaviour': res.behaviour[:3000]}, 'MC')
    ctx.tlc('MC_Cursor', 'MC_Cursor_shipped.cfg', leg='MC-nonvacuity', expect_violation='RowCountInv', workers=2)
    # ---- S2C
    module_attrs(ctx)
    res = ctx.tlc('Gen_Cursor', 'Gen_CursorDesc.cfg', leg='GEN', workers=1)
    check_desc_table(ctx, res.printed[0])
    check_description_sequence(ctx)
    gens = [('Gen_Cursor.cfg', 1)]
    if not ctx.quick:
        gens = [('Gen_Cursor4.cfg', 1), ('Gen_Cursor2.cfg', 2)]
    else:
        gens.append(('Gen_Cursor2q.cfg', 2))
    ops_seen = {}
    for cfg, nc in gens:
        res = ctx.tlc('Gen_Cursor', cfg, leg='GEN')
        nb = 0
        for p in res.printed:
            hist = p['hist']
            nb += 1
            ops = [h['op'] for h in hist]
            for o in ops:
                ops_seen[o] = ops_seen.get(o, 0) + 1
            nontrivial = 'execute' in ops and any(o.startswith('fetch') or o == 'iterate' for o in ops[ops.index('execute'):])
            ctx.case(json.dumps([[h['op'], h['c'], h['arg']] for h in hist]), nontrivial)
            if nb <= 2:
                ctx.sample({'leg': 'S2C', 'behaviour': [[h['op'], h['c'], h['arg'], h['val']] for h in hist]})
            replay_behaviour(ctx, hist, nc, lazy=(nb % 2 == 0))
            ctx.traces += 1
        ctx.leg('S2C', behaviours=nb)
    # simulated deeper behaviours
    # -simulate: num is per worker, and the emitting invariant is evaluated on every successor of the last
    # chosen state (~30), each of which is a behaviour of the spec: ask for nsim / (workers * 30) walks
    nsim = ctx.pick(3000, 60000)
    w = ctx.pick(4, 16)
    res = ctx.tlc('Gen_Cursor', 'Gen_CursorSim.cfg', leg='GEN-sim', simulate='num=%d' % max(1, nsim // (w * 30)), depth=15,
                  seed=ctx.seed, workers=w)
    nb = 0
    for p in res.printed:
        hist = p['hist']
        nb += 1
        ctx.case(json.dumps([[h['op'], h['c'], h['arg']] for h in hist]), True)
        replay_behaviour(ctx, hist, 2, lazy=(nb % 2 == 0))
        ctx.traces += 1
        for h in hist:
            ops_seen[h['op']] = ops_seen.get(h['op'], 0) + 1
    ctx.leg('S2C', simulated_behaviours=nb, ops_replayed=ops_seen)
    for op in ('execute', 'fetchone', 'fetchmany', 'fetchmanydefault', 'fetchall', 'iterate', 'setarraysize'):
        if not ops_seen.get(op):
            from harness.core import MachineryError
            raise MachineryError('vacuity: operation %s never replayed' % op)
    # ---- C2S
    ntr = ctx.pick(400, 6000)
    path = ctx.path('cursor_trace.ndjson')
    nev = record_histories(ctx, path, ntr, 60)
    with open(path) as f:
        ctx.sample({'leg': 'C2S', 'first_events': [json.loads(x) for x in f.read().split('\n')[:4]]})
    ctx.case('c2s', n=nev)
    validate_traces(ctx, path, nev, ntr, 'random histories, 2 cursors, <= 60 calls')
    # ---- API grain: the cursor protocol composed with real statements (Beanquery.tla)
    from harness import apicheck
    ctx.tlc('MC_Beanquery', ctx.pick('MC_Beanquery.cfg', 'MC_Beanquery_thorough.cfg'), leg='MC-api', workers=8, timeout=ctx.pick(900, 5400))
    ctx.tlc('MC_Beanquery', 'MC_Beanquery_cachebyname.cfg', leg='MC-nonvacuity', expect_violation='HistoryIndependent', workers=4)
    apicheck.run(ctx, ctx.pick(3, 12), ctx.pick(40, 150), 14)
    ctx.exhaustive = False


def replay(ctx, rep):
    case = rep['case']
    if 'hist' in case:
        ok = replay_behaviour(ctx, case['hist'], case.get('ncursors', 1), case.get('lazy', False))
        print('replay:', 'no mismatch' if ok else 'MISMATCH reproduced')
        return 0 if ok else 1
    print('replay: case kind not replayable standalone; re-run the check')
    return 2
