"""C16 -- text and CSV rendering are aligned, complete and faithful to the values (spec/Render.tla).

legs: MC   TLC model-checks the two-phase renderer / table-layout mechanism (Update* ; Prepare ; Format*, the width
           rule, frames, spacing and expansion rows) and the CSV mechanism (the same renderers and row driver under
           render_csv's own context) against the declarative layout / CSV property for every column of
           <= 2 (quick) / <= 3 (thorough) abstract values x 2^5 options x placeholder lengths 0..4 x header lengths
           1..6; three non-vacuity runs (width rule forgetting the placeholder; expansion rule as shipped; render_csv
           inheriting the caller's text options) must fail
      S2C  Gen_Render: TLC emits abstract tables + options + the predicted layout (line widths, offsets, per cell
           left pad / text length / right pad / dot offset); the driver builds real values with those shapes, calls
           render_text / render_csv and compares the parsed layout record field by field
      C2S  random tables of every supported datatype x all option combinations, plus results of real queries on a
           ledger made by beancount.scripts.example, are rendered; the output is parsed into a layout record and
           every cell is re-read; Trace_Render judges every record inside TLC (declarative predicates + the
           mechanism's prediction + read-back + CSV agreement)
      Both formats are reached the ways the library is: render_text / render_csv with their documented options, the
      per-format entry points beanquery.render.{text,csv}.render handed EVERY option of the record (as the application
      does: all settings go to every format), and -- for whole query results -- a BQLShell driven by .set commands.
"""
import concurrent.futures as cf
import datetime
import io
import json
import os
from decimal import Decimal

from harness import renderproj as rp
from harness.core import MachineryError

AMT = ('amount', 'position', 'cost', 'inventory')
CURS = [('USD', 2), ('CAD', 2), ('EUR', 2), ('HOOL', 3), ('CA', 0), ('BTC', 8), ('JPY', 0), ('VACHR', 1),
        ('RGAGX', 3), ('X', 2), ('LONGCOMMODITYNAME', 4), ("A'B.C-D", 2), ('IRAUSD', 5)]
NULLVALUES = ['', '', '-', 'NULL', '(null)', 'n/a', '∅', 'N U L L', '--', '0']
LISTSEPS = ['  ', ', ', ' | ', ';', ',', ' ', '; ']
ALPHA = ('abcdefghijklmnopqrstuvwxyzABCDEFGHIJKLMNOPQRSTUVWXYZ0123456789' * 3 + '    __--..,,;;::||++\'\'""{}()[]#%&/\\<>=*'
         + 'éüß中文─│┼ \t\U0001f600́')


# ---- value construction -------------------------------------------------------------------------------------
def types():
    from beancount.core import amount, position, inventory
    return {'int': int, 'dec': Decimal, 'str': str, 'date': datetime.date, 'bool': bool, 'set': set, 'dict': dict,
            'object': object, 'amount': amount.Amount, 'position': position.Position, 'cost': position.Cost,
            'inventory': inventory.Inventory}


def make_dcontext(curs):
    from beancount.core import display_context
    dc = display_context.DisplayContext()
    for c, p in curs:
        for _ in range(3):
            dc.update(Decimal('1.' + '0' * p) if p else Decimal('1'), c)
    return dc


def rnd_text(rng, maxlen=14, alphabet=ALPHA):
    n = rng.choice([0, 1, 1, 2, 3, 5, 8, maxlen])
    s = ''.join(rng.choice(alphabet) for _ in range(n))
    return s.strip(' ')


def rnd_number(rng, prec, maxint=6, tiny=False):
    """a Decimal with a random sign, 1..maxint integer digits and a fraction of random length around prec"""
    r = rng.random()
    nf = prec if r < 0.55 else rng.randint(0, min(8, prec + 3))
    ni = rng.randint(1, max(1, min(maxint, 9 - nf)))
    ip = str(rng.randint(0, 10 ** ni - 1)) if rng.random() < 0.8 else rng.choice(['0', '9' * ni, '99', '1' + '0' * (ni - 1)])
    fp = ''.join(rng.choice('0123456789') for _ in range(nf))
    if nf and rng.random() < 0.25:
        fp = rng.choice(['9' * nf, '0' * nf, '5' * nf, '0' * (nf - 1) + '5', '9' * (nf - 1) + '5', '4' * (nf - 1) + '6'])
    s = ('-' if rng.random() < 0.3 else '') + ip + ('.' + fp if nf else '')
    return Decimal(s)


def rnd_amount(rng, curs, maxint=6):
    from beancount.core import amount
    c, p = rng.choice(curs)
    return amount.Amount(rnd_number(rng, p, maxint), c)


def rnd_cost(rng, curs):
    from beancount.core import position
    c, p = rng.choice(curs)
    n = abs(rnd_number(rng, p, 5))
    date = datetime.date(2000, 1, 1) + datetime.timedelta(days=rng.randint(0, 9000)) if rng.random() < 0.6 else None
    label = rnd_text(rng, 8) if rng.random() < 0.35 else None
    return position.Cost(n, c, date, label)


def rnd_position(rng, curs):
    from beancount.core import position
    return position.Position(rnd_amount(rng, curs), rnd_cost(rng, curs) if rng.random() < 0.45 else None)


def rnd_inventory(rng, curs):
    from beancount.core import inventory
    inv = inventory.Inventory()
    for _ in range(rng.choice([0, 0, 1, 1, 2, 2, 3, 4, 7])):
        p = rnd_position(rng, curs)
        inv.add_amount(p.units, p.cost)
    return inv


class Thing:
    def __init__(self, s):
        self.s = s

    def __str__(self):
        return self.s


def rnd_value(t, rng, curs):
    if t == 'int':
        return rng.choice([0, 1, -1, 7, 42, -42, 999, 1000, -1000, 123456, -123456, rng.randint(-10 ** 9, 10 ** 9),
                           rng.randint(-99, 99), 10 ** 12, -10 ** 15])
    if t == 'dec':
        r = rng.random()
        if r < 0.06:
            return Decimal(rng.choice(['1E+3', '2.5E+4', '-7E+2', '0E+2', '1.20E+5']))
        return rnd_number(rng, rng.choice([0, 1, 2, 2, 4, 6]), 8)
    if t == 'str':
        if rng.random() < 0.004:      # outside the domain: the table is skipped and counted
            return rnd_text(rng, 5) + rng.choice('\n\r\x0b\x85\u2028') + rnd_text(rng, 5)
        return rnd_text(rng)
    if t == 'date':
        return rng.choice([datetime.date(1000, 1, 1), datetime.date(9999, 12, 31), datetime.date(2024, 2, 29),
                           datetime.date(1970, 1, 1) + datetime.timedelta(days=rng.randint(-20000, 40000))])
    if t == 'bool':
        return rng.random() < 0.5
    if t == 'set':
        items = {rnd_text(rng, 6, 'abcxyzABC0123_-.:é中') for _ in range(rng.choice([0, 1, 2, 3, 4]))}
        items.discard('')
        r = rng.random()
        return items if r < 0.5 else frozenset(items) if r < 0.8 else sorted(items, reverse=True)
    if t == 'dict':
        return {rnd_text(rng, 4, 'abcdef'): rng.choice([1, 'x', Decimal('1.5'), None, True]) for _ in range(rng.randint(0, 3))}
    if t == 'object':
        return rng.choice([rng.randint(-5, 500), rnd_text(rng, 6), (1, 'a'), Thing(rnd_text(rng, 9)), 2.5, Decimal('1.50'),
                           datetime.date(2020, 5, 17), [1, 2], frozenset()])
    if t == 'amount':
        return rnd_amount(rng, curs)
    if t == 'cost':
        return rnd_cost(rng, curs)
    if t == 'position':
        return rnd_position(rng, curs)
    if t == 'inventory':
        return rnd_inventory(rng, curs)
    raise ValueError(t)


TYPE_WEIGHTS = ['int', 'dec', 'dec', 'str', 'str', 'date', 'bool', 'set', 'dict', 'object', 'amount', 'amount',
                'position', 'position', 'cost', 'inventory', 'inventory', 'inventory']
HEADERS = ['a', 'x', 'id', 'date', 'account', 'narration', 'sum(position)', 'Balance Sheet', 'n', 'cost(position)',
           'été', 'units(sum(position))', 'a b c', '中文', '', 'VeryLongHeaderNameForAColumn', 'i|j', 'x+y', '-']


def rnd_options(rng):
    return {'boxed': rng.random() < 0.5, 'unicode': rng.random() < 0.5, 'spaced': rng.random() < 0.5,
            'expand': rng.random() < 0.5, 'narrow': rng.random() < 0.5, 'nullvalue': rng.choice(NULLVALUES),
            'listsep': rng.choice(LISTSEPS)}


def fixed_cases():
    """hand-written tables that are always part of the C2S leg: corner cases and the triggers of the known findings"""
    from beancount.core import amount, position, inventory
    A, D = amount.Amount, Decimal
    base = {'boxed': False, 'unicode': False, 'spaced': False, 'expand': False, 'narrow': True, 'nullvalue': '', 'listsep': '  '}
    usd = [('USD', 2), ('HOOL', 3)]
    inv0 = inventory.Inventory
    out = []
    for boxed in (False, True):
        for expand in (False, True):
            o = dict(base, boxed=boxed, expand=expand)
            # a currency the display context has not seen, with differing precisions: rounding adds a digit
            out.append(([('a', 'amount')], [(A(D('1.0'), 'XYZ'),), (A(D('2.0'), 'XYZ'),), (A(D('-99.96'), 'XYZ'),)], usd, o))
            out.append(([('p', 'position')], [(position.Position(A(D('-9.5'), 'XYZ'), None),),
                                              (position.Position(A(D('-1'), 'XYZ'), None),),
                                              (position.Position(A(D('-2'), 'XYZ'), None),)], usd, o))
            # decimals below 1e-6 are printed in E notation
            out.append(([('d', 'dec')], [(D('0.0000001'),), (D('12.5'),), (D('-3'),)], usd, o))
            # a year below 1000
            out.append(([('when', 'date')], [(datetime.date(985, 3, 4),), (datetime.date(2020, 1, 1),)], usd, o))
            # rows whose only cells are empty inventories
            out.append(([('i', 'inventory')], [(inv0(),), (inv0([position.Position(A(D('3'), 'USD'), None)]),), (inv0(),)], usd, o))
            # ordinary corners
            out.append(([('i', 'int'), ('s', 'str')], [], usd, o))
            out.append(([('i', 'int'), ('d', 'dec'), ('a', 'amount'), ('v', 'inventory')], [(None, None, None, None)] * 2, usd,
                        dict(o, nullvalue='(null)')))
            out.append(([('longheader', 'bool'), ('x', 'set')], [(True, {'a'}), (False, set()), (None, {'b', 'cc'})], usd,
                        dict(o, narrow=False, spaced=True, unicode=True)))
            out.append(([('d', 'dec')], [(D('-0.5'),), (D('100'),), (D('1E+3'),), (D('-0'),), (D('0.000001'),)], usd, o))
            out.append(([('a', 'amount'), ('i', 'int')], [(A(D('99.995'), 'USD'), 1), (A(D('-0.004'), 'USD'), -20),
                                                          (A(D('0.9995'), 'HOOL'), 300)], usd, o))
    return out


def rnd_table(rng, special=None):
    """(column [(name, type name)], rows, dcontext currencies, options)"""
    curs = rng.sample(CURS, rng.randint(1, 6))
    known = list(curs)
    ncols = rng.choice([1, 1, 2, 3, 3, 4, 5])
    nrows = rng.choice([0, 1, 1, 2, 3, 3, 4, 5, 6, 8])
    cols = [(rng.choice(HEADERS), rng.choice(TYPE_WEIGHTS)) for _ in range(ncols)]
    if special == 'onlyinv':
        cols = [(rng.choice(HEADERS), 'inventory') for _ in range(rng.choice([1, 1, 2]))]
    opts = rnd_options(rng)
    colcurs = [known] * len(cols)
    if special == 'nodctx':       # a currency the display context has never seen, in the LAST column
        cols.append(('z', rng.choice(['amount', 'position', 'inventory', 'cost'])))
        colcurs = colcurs + [[('ZZZ', rng.choice([1, 2])), ('QQQQ', 0)] + known[:1]]
    pnull = rng.choice([0, 0.1, 0.2, 0.5, 1.0])
    rows = []
    for _ in range(nrows):
        row = []
        for (name, t), cc in zip(cols, colcurs):
            if rng.random() < pnull:
                row.append(None)
            elif special == 'onlyinv' and rng.random() < 0.6:
                from beancount.core import inventory
                row.append(inventory.Inventory())
            else:
                row.append(rnd_value(t, rng, cc))
        rows.append(row)
    if special == 'oldyear':      # years below 1000, in the LAST column
        cols.append(('old', 'date'))
        for row in rows:
            row.append(rng.choice([datetime.date(1, 1, 1), datetime.date(985, 12, 3), datetime.date(2001, 2, 3), None]))
    if special == 'sci':          # decimals so small that str() switches to E notation, in the LAST column
        cols.append(('tiny', 'dec'))
        for row in rows:
            row.append(rng.choice([Decimal('1E-7'), Decimal('0E-8'), Decimal('-2.5E-9'), Decimal('12.5'), None, Decimal('3')]))
        if rows:
            rows[0][-1] = Decimal('1E-7')
    return cols, [tuple(r) for r in rows], known, opts


# ---- one case: render, parse, project ------------------------------------------------------------------------
def spec_types(cols, tmap):
    return [rp.spec_type(tmap[t]) for _, t in cols]


def in_domain(stypes, rows):
    """cell texts without line terminators only"""
    for row in rows:
        for t, v in zip(stypes, row):
            if v is None:
                continue
            if t in ('str', 'obj') and not rp.in_domain_text(str(v)):
                return False
            if t == 'set' and not all(isinstance(x, str) and rp.in_domain_text(x) for x in v):
                return False
            if t == 'cost' and v.label is not None and not rp.in_domain_text(v.label):
                return False
            if t == 'dec' and not isinstance(v.as_tuple().exponent, int):
                return False
    return True


def app_settings(opts, fmt):
    """what the application hands to EVERY per-format renderer: all its settings (Settings.todict(): boxed, expand,
    format, narrow, nullvalue, numberify, pager, spaced, unicode, ...) -- here with the option record under test"""
    from beanquery import shell
    settings = shell.Settings(format=fmt).todict()
    settings.update(opts)
    return settings


def render_csvs(columns, rows, dcontext, opts):
    """the CSV renderings of one table under one option record, as [(call, text)]:
    api = render_csv with the two options it documents; app = the per-format entry point the application dispatches
    to, handed EVERY option of the record (the text-only ones included).  Identical texts are judged once."""
    from beanquery import query_render, render
    import beanquery.render.csv  # noqa: F401
    g = io.StringIO(newline='')
    query_render.render_csv(columns, rows, dcontext, g, expand=opts['expand'], nullvalue=opts['nullvalue'])
    h = io.StringIO(newline='')
    render.csv.render(columns, rows, h, dcontext=dcontext, **app_settings(opts, 'csv'))
    a, b = g.getvalue(), h.getvalue()
    return [('api', a)] if a == b else [('api', a), ('app', b)]


def render_all(columns, rows, dcontext, opts, app_text=False):
    """-> (text, [(call, csv text), ...]).  app_text: the text too comes from the application's entry point with all
    its settings (only for non-empty results: the application prints '(empty)' instead of an empty table)"""
    from beanquery import query_render, render
    import beanquery.render.text  # noqa: F401
    f = io.StringIO()
    if app_text and rows:
        render.text.render(columns, rows, f, dcontext=dcontext, **app_settings(opts, 'text'))
    else:
        query_render.render_text(columns, rows, dcontext, f, **opts)
    return f.getvalue(), render_csvs(columns, rows, dcontext, opts)


def project_csvs(csvs, ptypes):
    return [dict(rp.parse_csv(text, ptypes), call=call) for call, text in csvs]


def csv_excerpt(csvs):
    return ''.join('[%s]\n%s' % (call, text[:1500]) for call, text in csvs)


def features(stypes, rows, opts, dcontext):
    """descriptive features of the INPUT used in violation keys (never in the verdict)"""
    feats = [set() for _ in stypes]
    table = set()
    for c, t in enumerate(stypes):
        for row in rows:
            v = row[c]
            if v is None:
                continue
            if t == 'dec' and 'E' in str(v) and v.as_tuple().exponent <= 0:
                feats[c].add('sci')
            if t == 'date' and v.year < 1000:
                feats[c].add('y1k')
            if t in AMT:
                from beancount.core import amount, position
                ps = ([position.Position(v, None)] if t == 'amount' else [position.Position(amount.Amount(v.number, v.currency), None)]
                      if t == 'cost' else [v] if t == 'position' else v.get_positions())
                for p in ps:
                    if rp.dctx_precision(dcontext, p.units.currency) < 0 or (
                            p.cost is not None and rp.dctx_precision(dcontext, p.cost.currency) < 0):
                        feats[c].add('nodctx')
    if opts['expand'] and stypes and all(t == 'inventory' for t in stypes):
        if any(all(v is not None and v.is_empty() for v in row) for row in rows):
            table.add('emptyrow')
    for f in feats:
        table |= f
    return feats, table


def build_record(cid, cols, rows, dcontext, opts, tmap):
    """render and project one table -> trace record (dict) or None when outside the domain"""
    import beanquery
    stypes = spec_types(cols, tmap)
    if not in_domain(stypes, rows) or not all(rp.in_domain_text(n) and n == n.strip(' ') for n, _ in cols):
        return None
    columns = [beanquery.Column(n, tmap[t]) for n, t in cols]
    # precisions are read BEFORE rendering: the renderer's quantize() inserts unknown currencies into the context
    tab = []
    for c, ((name, _), st) in enumerate(zip(cols, stypes)):
        vals = [rp.absval(st, row[c], dcontext) for row in rows]
        t = st
        if any(v['k'] == 'ood' for v in vals):
            t = 'opaque'
        tab.append({'t': t, 'hl': len(name), 'hx': rp.cphex(name), 'vals': vals})
    feats, tfeats = features(stypes, rows, opts, dcontext)
    text, csvs = render_all(columns, rows, dcontext, opts, app_text=cid % 2 == 0)
    ptypes = [('str' if t['t'] == 'opaque' else st) for t, st in zip(tab, stypes)]
    ptext = rp.parse_text(text, ptypes, opts['listsep'])
    pcsv = project_csvs(csvs, ptypes)
    ptext.pop('why', None)
    rec = {'id': cid,
           'o': {'boxed': opts['boxed'], 'unicode': opts['unicode'], 'spaced': opts['spaced'], 'expand': opts['expand'],
                 'narrow': opts['narrow'], 'nl': len(opts['nullvalue']), 'sl': len(opts['listsep']),
                 'nv': rp.cphex(opts['nullvalue'])},
           'tab': tab, 'text': ptext, 'csv': pcsv}
    meta = {'feats': [sorted(f) for f in feats], 'tfeats': sorted(tfeats), 'stypes': stypes, 'text': text,
            'csv': csv_excerpt(csvs), 'calls': [call for call, _ in csvs]}
    return rec, meta


def describe_case(cols, rows, known, opts):
    """replayable description of a random case"""
    return {'cols': cols, 'rows': [[encode_value(v) for v in row] for row in rows], 'curs': known, 'opts': opts}


def encode_value(v):
    from beancount.core import amount, position, inventory
    if v is None or isinstance(v, (bool, int, str)):
        return v
    if isinstance(v, Decimal):
        return {'D': str(v)}
    if isinstance(v, datetime.date):
        return {'date': v.isoformat()}
    if isinstance(v, amount.Amount):
        return {'A': [str(v.number), v.currency]}
    if isinstance(v, position.Cost):
        return {'C': [str(v.number), v.currency, v.date.isoformat() if v.date else None, v.label]}
    if isinstance(v, position.Position):
        return {'P': [encode_value(v.units), encode_value(v.cost)]}
    if isinstance(v, inventory.Inventory):
        return {'I': [encode_value(p) for p in v.get_positions()]}
    if isinstance(v, frozenset):
        return {'fs': sorted(v)}
    if isinstance(v, set):
        return {'set': sorted(v)}
    if isinstance(v, Thing):
        return {'thing': v.s}
    if isinstance(v, tuple):
        return {'tuple': [encode_value(x) for x in v]}
    if isinstance(v, list):
        return {'list': [encode_value(x) for x in v]}
    if isinstance(v, dict):
        return {'dict': [[k, encode_value(x)] for k, x in v.items()]}
    if isinstance(v, float):
        return {'float': v}
    return {'repr': repr(v)}


def decode_value(e):
    from beancount.core import amount, position, inventory
    if not isinstance(e, dict):
        return e
    (k, x), = e.items()
    if k == 'D':
        return Decimal(x)
    if k == 'date':
        return datetime.date.fromisoformat(x)
    if k == 'A':
        return amount.Amount(Decimal(x[0]), x[1])
    if k == 'C':
        return position.Cost(Decimal(x[0]), x[1], datetime.date.fromisoformat(x[2]) if x[2] else None, x[3])
    if k == 'P':
        return position.Position(decode_value(x[0]), decode_value(x[1]))
    if k == 'I':
        inv = inventory.Inventory()
        for p in x:
            p = decode_value(p)
            inv.add_amount(p.units, p.cost)
        return inv
    if k == 'fs':
        return frozenset(x)
    if k == 'set':
        return set(x)
    if k == 'thing':
        return Thing(x)
    if k == 'tuple':
        return tuple(decode_value(v) for v in x)
    if k == 'list':
        return [decode_value(v) for v in x]
    if k == 'dict':
        return {a: decode_value(b) for a, b in x}
    if k == 'float':
        return x
    return x


# ---- C2S -----------------------------------------------------------------------------------------------------
def judge_file(ctx, path, metas, what, leg='C2S'):
    """run Trace_Render over one ndjson file; metas: id -> (meta, case description)"""
    n = len(metas)
    res = ctx.tlc('Trace_Render', 'Trace_Render.cfg', leg=leg, workers=1, env={'TRACE_FILE': path}, jvm=('-Xmx2g', '-Xss32m'),
                  timeout=ctx.pick(900, 3600))
    rejected = [p for p in res.printed if isinstance(p, dict) and p.get('verdict') == 'rejected']
    if res.violated or res.post_failed or res.depth - 1 != n:
        raise MachineryError('trace %s not consumed: depth %d, records %d, %s %s' % (
            what, res.depth, n, res.violated, res.errors[:2]))
    for rj in rejected:
        meta, case = metas[rj['id']]
        for clause, c in sorted(map(tuple, rj['fails'])):
            if c == 0:
                key = '%s:table' % clause
                feats = meta['tfeats']
            else:
                key = '%s:%s' % (clause, meta['stypes'][c - 1])
                feats = meta['feats'][c - 1]
            if feats:
                key += ':' + '+'.join(feats)
            desc = (dict(case, kind='ledger', clause=clause, column=c, what=what) if 'query' in case else
                    {'kind': 'table', 'table': case, 'clause': clause, 'column': c, 'what': what})
            ctx.violation(key, 'clause %s of the layout property fails for column %d' % (clause, c), desc,
                          leg, None, {'text': meta['text'][:3000], 'csv': meta['csv'][:3200]})
    return len(rejected)


def write_records(path, records):
    with open(path, 'w') as f:
        for rec in records:
            f.write(json.dumps(rec, separators=(',', ':')) + '\n')


def c2s_random(ctx, ntables):
    tmap = types()
    rng = ctx.rng
    records, metas = [], {}
    covered = {}
    cid = 0
    fixed = fixed_cases()
    while len(records) < ntables:
        if fixed:
            cols, rows, known, opts = fixed.pop(0)
        else:
            r = rng.random()
            special = ('nodctx' if r < 0.02 else 'sci' if r < 0.03 else 'oldyear' if r < 0.04 else 'onlyinv' if r < 0.07
                       else None)
            cols, rows, known, opts = rnd_table(rng, special)
        dcontext = make_dcontext(known)
        cid += 1
        try:
            got = build_record(cid, cols, rows, dcontext, opts, tmap)
        except Exception as ex:  # noqa: the renderer raised
            ctx.violation('exception:%s' % type(ex).__name__, 'rendering raises %r' % ex,
                          {'kind': 'table', 'table': describe_case(cols, rows, known, opts)}, 'C2S')
            continue
        if got is None:
            ctx.skipped += 1
            continue
        rec, meta = got
        records.append(rec)
        metas[cid] = (meta, describe_case(cols, rows, known, opts))
        for st in meta['stypes']:
            covered[st] = covered.get(st, 0) + 1
        nontrivial = bool(rows) and any(v is not None for row in rows for v in row)
        ctx.case(json.dumps([rec['o'], rec['tab']], sort_keys=True), nontrivial)
        if len(records) in (3, 40):
            ctx.sample({'leg': 'C2S', 'options': rec['o'], 'columns': [[c['t'], c['hl'], c['vals'][:2]] for c in rec['tab']],
                        'text': meta['text'][:600]})
    for t in ('int', 'dec', 'str', 'date', 'bool', 'set', 'obj', 'amount', 'position', 'cost', 'inventory'):
        if not covered.get(t):
            raise MachineryError('vacuity: no %s column rendered' % t)
    return records, metas, covered


def run_chunks(ctx, records, metas, what, nchunks):
    nchunks = max(1, min(nchunks, len(records)))
    size = (len(records) + nchunks - 1) // nchunks
    jobs = []
    for i in range(nchunks):
        part = records[i * size:(i + 1) * size]
        if not part:
            continue
        path = ctx.path('render_%s_%d.ndjson' % (what.split()[0], i))
        write_records(path, part)
        jobs.append((path, {r['id']: metas[r['id']] for r in part}))
    nrej = 0
    with cf.ThreadPoolExecutor(max_workers=min(8, len(jobs))) as ex:
        for n in ex.map(lambda j: judge_file(ctx, j[0], j[1], what), jobs):
            nrej += n
    return nrej


# ---- real query results ---------------------------------------------------------------------------------------
QUERIES = [
    "SELECT date, flag, payee, narration, account, position, balance WHERE account ~ 'Assets:US:BofA' LIMIT %d",
    "SELECT account, sum(position) AS total, count(*) AS n GROUP BY account ORDER BY account LIMIT %d",
    "SELECT account, units(sum(position)), cost(sum(position)) GROUP BY account LIMIT %d",
    "SELECT date, account, number, currency, cost_number, cost_currency, cost_date, cost_label WHERE cost_number IS NOT NULL LIMIT %d",
    "SELECT date, tags, links, other_accounts, year, month = 1 AS jan WHERE account ~ 'Expenses' LIMIT %d",
    "SELECT account, units(position), cost(position), weight, price WHERE currency != 'USD' LIMIT %d",
    "SELECT root(account, 1) AS r, sum(cost(position)) AS c, sum(number) AS s, first(date), last(date) GROUP BY 1 LIMIT %d",
    "SELECT payee, sum(units(position)) AS u, max(number), min(number), count(number) GROUP BY payee LIMIT %d",
    "SELECT date, narration, position, balance FROM year = 2021 WHERE account ~ 'ETrade' LIMIT %d",
    "SELECT id, type, filename ~ 'x' AS m, lineno FROM #entries LIMIT %d",
    "SELECT account, open.date AS opened, open.currencies AS cur, open.booking AS b, close.date AS closed FROM #accounts LIMIT %d",
    "SELECT date, type, description FROM #events LIMIT %d",
    "SELECT date, currency, amount FROM #prices LIMIT %d",
    "SELECT date, account, amount, discrepancy, tolerance FROM #balances LIMIT %d",
    "SELECT account, sum(position) AS inv, units(sum(position)) AS u WHERE account ~ 'Vacation' GROUP BY account LIMIT %d",
    "SELECT date, number / 3 AS third, number * 1000 AS k, abs(number), safediv(number, 7) WHERE number IS NOT NULL LIMIT %d",
]


def example_ledger(ctx):
    import contextlib
    from beancount import loader
    from beancount.scripts import example
    f = io.StringIO()
    with contextlib.redirect_stderr(io.StringIO()):
        import random
        state = random.getstate()
        random.seed(ctx.seed)
        try:
            example.write_example_file(datetime.date(1985, 5, 17), datetime.date(2020, 1, 1), datetime.date(2022, 6, 1), True, f)
        finally:
            random.setstate(state)
    entries, errors, options = loader.load_string(f.getvalue())
    return entries, errors, options


SHELL_BOOLS = ('boxed', 'unicode', 'spaced', 'expand', 'narrow')


def shell_outputs(sh, out, query, opts):
    """the application itself: .set <every option of the record> ; .set format text|csv ; the query -> what it printed.
    The list separator is not a shell setting (the shell renders with the default one)."""
    import shlex
    for name in SHELL_BOOLS:
        sh.onecmd('.set %s %s' % (name, 'true' if opts[name] else 'false'))
    sh.onecmd('.set nullvalue %s' % shlex.quote(opts['nullvalue']))
    res = {}
    for fmt in ('text', 'csv'):
        sh.onecmd('.set format %s' % fmt)
        out.seek(0)
        out.truncate()
        sh.onecmd(query)
        res[fmt] = out.getvalue()
    out.seek(0)
    out.truncate()
    got = sh.settings.todict()
    if any(got[k] != opts[k] for k in SHELL_BOOLS + ('nullvalue',)):
        raise MachineryError('shell settings %r do not hold the option record %r' % (got, opts))
    return res['text'], [('shell', res['csv'])]


def c2s_ledger(ctx, per_query):
    """results of real queries on a generated ledger.  The whole result of every query is rendered by the APPLICATION
    (a BQLShell on the same ledger, options given through .set, both formats); random slices of it by the renderers
    directly (api and app calls) under random option records."""
    import beanquery
    from beanquery import shell
    entries, errors, options = example_ledger(ctx)
    conn = beanquery.connect('beancount:', entries=entries, errors=errors, options=options)
    out = io.StringIO(newline='')
    sh = shell.BQLShell(None, out)
    sh.context.attach('beancount:', entries=entries, errors=errors, options=options)
    dcontext = options['dcontext']
    rng = ctx.rng
    records, metas = [], {}
    cid = 10 ** 6
    nq = nshell = 0
    for q in QUERIES:
        limit = ctx.pick(12, 60)
        try:
            cur = conn.execute(q % limit)
            rows = cur.fetchall()
        except Exception as ex:  # noqa
            raise MachineryError('ledger query failed: %s: %r' % (q, ex))
        nq += 1
        desc = cur.description
        for k in range(per_query):
            opts = rnd_options(rng)
            lo = rng.randint(0, max(0, len(rows) - 1))
            part = rows[lo:lo + rng.choice([1, 3, 6, 12, 60])] if k else rows
            via_shell = k == 0 and bool(rows)
            if via_shell:
                lo = 0
                opts['listsep'] = '  '
            cid += 1
            stypes = [rp.spec_type(col.datatype) for col in desc]
            if not in_domain(stypes, part):
                ctx.skipped += 1
                continue
            tab = []
            for c, (col, st) in enumerate(zip(desc, stypes)):
                vals = [rp.absval(st, row[c], dcontext) for row in part]
                tab.append({'t': 'opaque' if any(v['k'] == 'ood' for v in vals) else st, 'hl': len(col.name),
                            'hx': rp.cphex(col.name), 'vals': vals})
            feats, tfeats = features(stypes, part, opts, dcontext)
            try:
                if via_shell:
                    text, csvs = shell_outputs(sh, out, q % limit, opts)
                    nshell += 1
                else:
                    text, csvs = render_all(list(desc), part, dcontext, opts, app_text=k % 2 == 0)
            except MachineryError:
                raise
            except Exception as ex:  # noqa
                ctx.violation('exception:%s' % type(ex).__name__, 'rendering raises %r' % ex,
                              {'kind': 'ledger', 'query': q % limit, 'opts': opts}, 'C2S')
                continue
            ptypes = [('str' if t['t'] == 'opaque' else st) for t, st in zip(tab, stypes)]
            ptext = rp.parse_text(text, ptypes, opts['listsep'])
            ptext.pop('why', None)
            rec = {'id': cid, 'o': {'boxed': opts['boxed'], 'unicode': opts['unicode'], 'spaced': opts['spaced'],
                                    'expand': opts['expand'], 'narrow': opts['narrow'], 'nl': len(opts['nullvalue']),
                                    'sl': len(opts['listsep']), 'nv': rp.cphex(opts['nullvalue'])},
                   'tab': tab, 'text': ptext, 'csv': project_csvs(csvs, ptypes)}
            records.append(rec)
            metas[cid] = ({'feats': [sorted(f) for f in feats], 'tfeats': sorted(tfeats), 'stypes': stypes, 'text': text,
                           'csv': csv_excerpt(csvs)},
                          {'query': q % limit, 'slice': [lo, len(part)], 'opts': opts, 'seed': ctx.seed,
                           'via': 'shell' if via_shell else 'renderers'})
            ctx.case(json.dumps([q, lo, len(part), rec['o'], via_shell]), bool(part))
            if len(records) == 2:
                ctx.sample({'leg': 'C2S-ledger', 'query': q % limit, 'options': rec['o'], 'text': text[:500]})
    if not nshell:
        raise MachineryError('vacuity: no query result went through the shell')
    return records, metas, nq, nshell


def leg_c2s(ctx):
    n = ctx.pick(1500, 24000)
    records, metas, covered = c2s_random(ctx, n)
    nrej = run_chunks(ctx, records, metas, 'random tables', ctx.pick(4, 12))
    ctx.traces += len(records) - nrej
    ncells = sum(len(c['vals']) for r in records for c in r['tab'])
    ctx.leg('C2S', random_tables=len(records), cells=ncells, rejected=nrej, columns_by_type=covered)
    lrecords, lmetas, nq, nshell = c2s_ledger(ctx, ctx.pick(6, 40))
    nrej2 = run_chunks(ctx, lrecords, lmetas, 'ledger query results', ctx.pick(2, 8))
    ctx.traces += len(lrecords) - nrej2
    ctx.leg('C2S', ledger_queries=nq, ledger_renderings=len(lrecords), ledger_through_shell=nshell, ledger_rejected=nrej2)


# ---- S2C -----------------------------------------------------------------------------------------------------
GEN_CURS = {3: ('USD', 2), 4: ('HOOL', 0)}
EXACT = ('str', 'obj', 'int', 'bool', 'date', 'set', 'dec')


def concrete_value(t, v, k):
    from beancount.core import amount, position, inventory
    kind = v['k']
    if kind == 'null':
        return None
    if kind == 'str':
        return ('s' + 'tuvwxyz'[k % 7] * (v['n'] - 1)) if v['n'] else ''
    if kind == 'int':
        return int(('-' if v['s'] else '') + '1234567'[k % 5 + 1] * v['i'])
    if kind == 'dec':
        ip = '0' if (v['i'] == 1 and v['f'] and k % 2) else '4' * v['i']
        return Decimal(('-' if v['s'] else '') + ip + ('.' + '25' * v['f'])[:v['f'] + 1 if v['f'] else 0])
    if kind == 'decE':
        return Decimal('1E+3')
    if kind == 'date':
        return datetime.date(2020, 1, 2) + datetime.timedelta(days=40 * k)
    if kind == 'bool':
        return bool(v['n'])
    if kind == 'set':
        items = {'abcdefgh'[j] * n for j, n in enumerate(v['items'])}
        return items if k % 2 else frozenset(items)
    if kind == 'amt':
        c, p = GEN_CURS[v['c']]
        return amount.Amount(Decimal(('-' if v['s'] else '') + '3' * v['i'] + ('.' + '1' * v['f'] if v['f'] else '')), c)
    if kind == 'inv':
        inv = inventory.Inventory()
        curs = [p['c'] for p in v['pos']]
        for j, p in enumerate(v['pos']):
            a = concrete_value('amt', p, k)
            cost = None
            if curs.count(p['c']) > 1:      # keep lots of one currency apart
                cost = position.Cost(Decimal('%d.00' % (j + 1)), 'USD', None, None)
            inv.add_amount(a, cost)
        return inv
    raise ValueError(kind)


def concretise(case):
    tmap = types()
    tname = {'amt': 'amount', 'inv': 'inventory'}
    o = case['opt']
    opts = {'boxed': o['boxed'], 'unicode': o['unicode'], 'spaced': o['spaced'], 'expand': o['expand'], 'narrow': o['narrow'],
            'nullvalue': 'NULL'[:o['nl']] if o['nl'] <= 4 else 'N' * o['nl'], 'listsep': {1: ';', 2: ', '}.get(o['sl'], '~' * o['sl'])}
    cols = [('hdrnam'[:col['hl']] if col['hl'] <= 6 else 'h' * col['hl'], tname.get(col['t'], col['t'])) for col in case['tab']]
    nrows = len(case['tab'][0]['vals'])
    rows = [tuple(concrete_value(col['t'], col['vals'][r], r + 3 * c) for c, col in enumerate(case['tab'])) for r in range(nrows)]
    return cols, rows, opts, tmap


def replay_gen(ctx, case, stats):
    import beanquery
    cols, rows, opts, tmap = concretise(case)
    dcontext = make_dcontext(list(GEN_CURS.values()))
    columns = [beanquery.Column(n, tmap[t]) for n, t in cols]
    stypes = [rp.spec_type(tmap[t]) for _, t in cols]
    types_ = [col['t'] for col in case['tab']]
    emptyrow = (opts['expand'] and all(t == 'inv' for t in types_)
                and any(all(col['vals'][r]['k'] == 'inv' and not col['vals'][r]['pos'] for col in case['tab'])
                        for r in range(len(rows))))
    sfx = ':emptyrow' if emptyrow else ''

    def bad(what, c, exp, got):
        t = types_[c - 1] if c else 'table'
        key = '%s:%s%s' % (what, {'amt': 'amount', 'inv': 'inventory'}.get(t, t), sfx)
        ctx.violation(key, 'layout predicted by the specification differs: %s' % what,
                      {'kind': 'gen', 'gen': case}, 'S2C', exp, got)
        return False
    try:
        text, csvs = render_all(columns, rows, dcontext, opts, app_text=stats.get('n', 0) % 2 == 0)
    except Exception as ex:  # noqa
        return bad('exception:%s' % type(ex).__name__, 0, None, repr(ex))
    pt = rp.parse_text(text, stypes, opts['listsep'])
    if not pt['ok']:
        return bad('parse', 0, None, text[:400])
    want = case['lines']
    if len(pt['lines']) != len(want):
        return bad('skeleton', 0, [w[0] for w in want], [ln['kind'] for ln in pt['lines']])
    if pt['ws'] != case['widths']:
        for c, (a, b) in enumerate(zip(case['widths'], pt['ws']), 1):
            if a != b and types_[c - 1] in EXACT:
                return bad('width', c, a, b)
    for k, (w, ln) in enumerate(zip(want, pt['lines'])):
        kind, style, width, r, j, cells = w
        okind = ln['kind']
        if (okind == 'body') != (kind in ('row', 'space')) or (okind != 'body' and okind != kind):
            return bad('skeleton', 0, [x[0] for x in want], [x['kind'] for x in pt['lines']])
        if ln['style'] != style:
            return bad('style', 0, style, ln['style'])
        allexact = all(t in EXACT for t in types_)
        if allexact and ln['w'] != width:
            return bad('rect', 0, width, ln['w'])
        if ln['w'] != pt['lines'][0]['w']:
            return bad('rect', 0, pt['lines'][0]['w'], ln['w'])
        shift = False
        for c, (pc, oc) in enumerate(zip(cells, ln['cells']), 1):
            if types_[c - 1] not in EXACT:
                shift = True        # amount digits are Beancount's: later offsets are compared relative to the rule line
                stats['amt_cells'] += 1
                if [oc['off'], oc['lp'], oc['n'], oc['rp']] == pc[:4]:
                    stats['amt_cells_equal'] += 1
                continue
            stats['cells'] += 1
            exp = pc if not shift else [oc['off']] + pc[1:4] + [pc[4] - pc[0] + oc['off'] if pc[4] >= 0 else -1]
            got = [oc['off'], oc['lp'], oc['n'], oc['rp'], oc['dot'] if kind == 'row' else -1]
            if pc[2] == 0:
                exp, got = [exp[0], exp[1] + exp[3]], [got[0], got[1] + got[3]]
            if exp != got:
                return bad('cell:%s' % kind, c, exp, got)
            if kind == 'space' and oc['n'] != 0:
                return bad('space', c, 0, oc['n'])
    for call, csvtext in csvs:      # every way render_csv is reached must write what the CSV mechanism of the spec says
        sfx2 = '' if call == 'api' else '@' + call
        pc = rp.parse_csv(csvtext, stypes)
        if (not pc['ok'] or len(pc['recs']) != len(case['csv']) or any(n != len(cols) for n in pc['nf'])
                or len(pc['hdr']) != len(cols)):
            return bad('csvshape' + sfx2, 0, [len(case['csv']), len(cols)], [len(pc['recs']), pc['nf'][:5]])
        for q, (wl, rec) in enumerate(zip(case['csv'], pc['recs'])):
            for c, (n, f) in enumerate(zip(wl, rec), 1):
                if types_[c - 1] in EXACT and f['n'] != n:
                    return bad('csvfield' + sfx2, c, n, f['n'])
    return True


def leg_s2c(ctx):
    cfg = ctx.pick('Gen_Render.cfg', 'Gen_Render_thorough.cfg')
    stats = {'cells': 0, 'amt_cells': 0, 'amt_cells_equal': 0, 'n': 0, 'nok': 0}
    seen_types = {}

    def one(case):      # called for every emitted case while TLC is still running
        if not isinstance(case, dict) or 'tab' not in case:
            return
        stats['n'] += 1
        t = case['tab'][0]['t']
        seen_types[t] = seen_types.get(t, 0) + 1
        vals = case['tab'][0]['vals']
        ctx.case(json.dumps(case['tab'] + [case['opt']], sort_keys=True), any(v['k'] != 'null' for v in vals))
        if stats['n'] in (7, 20011):
            ctx.sample({'leg': 'S2C', 'table': case['tab'], 'options': case['opt'], 'predicted_lines': case['lines'][:4]})
        if replay_gen(ctx, case, stats) is True:
            stats['nok'] += 1
    ctx.tlc('Gen_Render', cfg, leg='GEN', on_json=one, jvm=('-Xmx2g',))
    n, nok = stats['n'], stats['nok']
    if n == 0 or len(seen_types) < 8:
        raise MachineryError('Gen_Render emitted %d cases of types %s' % (n, seen_types))
    ctx.traces += nok
    ctx.leg('S2C', cases=n, agreed=nok, exact_cells_compared=stats['cells'], amount_cells=stats['amt_cells'],
            amount_cells_equal_to_model=stats['amt_cells_equal'], by_type=seen_types)


# ---- MC ------------------------------------------------------------------------------------------------------
def leg_mc(ctx):
    cfg = ctx.pick('MC_Render_quick.cfg', 'MC_Render.cfg')
    res = ctx.tlc('MC_Render', cfg, leg='MC', coverage=True, jvm=('-Xmx2g',),
                  must_cover=('UpdateRow', 'PrepareAll', 'EmitHead', 'FormatRow', 'Foot'))
    if res.violated:
        ctx.violation('spec:' + ','.join(res.violated), 'TLC violates the layout property on the renderer mechanism',
                      {'kind': 'mc', 'behaviour': res.behaviour[:3000]}, 'MC')
    if not ctx.quick:
        res = ctx.tlc('MC_Render', 'MC_Render_sep.cfg', leg='MC-separators', jvm=('-Xmx2g',))
        if res.violated:
            ctx.violation('spec:sep:' + ','.join(res.violated), 'TLC violates the layout property (separator lengths 0, 1, 3)',
                          {'kind': 'mc', 'behaviour': res.behaviour[:3000]}, 'MC')
    # non-vacuity: three deliberately broken mechanisms (width rule without the placeholder; expansion rule that lets
    # a row vanish; render_csv inheriting the caller's text options) -- TLC must refute each
    runs = [('MC_Render_nonull.cfg', 'MC-nonvacuity', 'OffsetsInv'), ('MC_Render_shipped.cfg', 'MC-shipped', 'SkeletonInv'),
            ('MC_Render_csvinherit.cfg', 'MC-csv-inherit', 'CsvInv')]
    with cf.ThreadPoolExecutor(max_workers=len(runs)) as ex:
        list(ex.map(lambda r: ctx.tlc('MC_Render', r[0], leg=r[1], expect_violation=r[2], workers=4), runs))


def run(ctx):
    ctx.rule = ('S2C: every terminal state of Gen_Render (abstract column x companion x 2^5 options x placeholder x header '
                'length) concretised; non-trivial = the column under test has a non-NULL value.  C2S: random tables '
                '(1-6 columns of 12 datatypes, 0-8 rows, NULL rates 0..1, 7 separators, 10 placeholders, 2^5 options) and '
                'real query results; distinct = distinct (options, abstract table); non-trivial = some non-NULL cell.  '
                'Every table is rendered as CSV by render_csv(expand, nullvalue) AND by beanquery.render.csv.render with '
                'all options of the record (judged once when the two texts are identical); the text by render_text or '
                '(every other case) beanquery.render.text.render with all settings; whole query results by a BQLShell '
                'after .set of every option')
    ctx.assumptions += ['widths are counted in code points (str.ljust), not terminal cells',
                        'cell texts, headers, placeholders without line terminators and without leading/trailing blanks '
                        '(others skipped and counted)',
                        'amount digits come from Beancount 3.2.3 display contexts: structural clauses only '
                        '(fit, alignment, currency offsets, read-back within half a unit of the shown precision)',
                        'NaN/Infinity decimals and amounts with more than 9 digits are outside the model (32-bit TLC integers)',
                        'TLC 1.8, Json/IOUtils community modules, CPython 3.12']
    only = getattr(ctx, 'only_legs', None)
    if not only or 'MC' in only:
        leg_mc(ctx)
    if not only or 'S2C' in only:
        leg_s2c(ctx)
    if not only or 'C2S' in only:
        leg_c2s(ctx)
    ctx.exhaustive = False


def replay(ctx, rep):
    case = rep['case']
    kind = case.get('kind')
    if kind == 'gen':
        ok = replay_gen(ctx, case['gen'], {'cells': 0, 'amt_cells': 0, 'amt_cells_equal': 0})
        print('replay:', 'layout agrees with the specification' if ok is True else 'MISMATCH reproduced')
        return 0 if ok is True else 1
    if kind == 'table':
        t = case['table']
        cols = [tuple(c) for c in t['cols']]
        rows = [tuple(decode_value(v) for v in row) for row in t['rows']]
        known = [tuple(c) for c in t['curs']]
        try:
            got = build_record(1, cols, rows, make_dcontext(known), t['opts'], types())
        except Exception as ex:  # noqa
            print('replay: rendering raises %r' % ex)
            return 1
        if got is None:
            print('replay: case outside the domain')
            return 2
        rec, meta = got
        print(meta['text'][:3000])
        path = ctx.path('replay.ndjson')
        write_records(path, [rec])
        n = judge_file(ctx, path, {1: (meta, t)}, 'replay')
        print('replay:', 'accepted by Trace_Render' if not n else 'REJECTED: %s' % (
            [v[0] for v in ctx.violations] + ['known:' + k for k in ctx.known_hits]))
        return 1 if n else 0
    if kind == 'ledger':
        import beanquery
        entries, errors, options = example_ledger(ctx)
        conn = beanquery.connect('beancount:', entries=entries, errors=errors, options=options)
        cur = conn.execute(case['query'])
        rows = cur.fetchall()
        lo, n = case['slice']
        print('replay: re-run the check with seed %s (the ledger is generated from the seed); query: %s' % (case.get('seed'), case['query']))
        f = io.StringIO()
        from beanquery import query_render
        query_render.render_text(list(cur.description), rows[lo:lo + n], options['dcontext'], f, **case['opts'])
        print(f.getvalue()[:3000])
        return 2
    print('replay: case kind not replayable standalone; re-run the check')
    return 2
