"""C08 -- subqueries compose (spec/BQLSubquery.tla, spec/BQLMiniSem.tla).

legs: MC   TLC walks every statement of the explored set (nesting depth <= 3, two tables with different schemas,
           inner queries filtered / aggregated / ordered by hidden keys / DISTINCT / LIMIT / aliased /
           expression-named, IN / NOT IN in targets and WHERE) through the compilation mechanism with its explicit
           current-table variable and checks: every SELECT resolves against and iterates over its own table, the
           result is the declarative one, SELECT * FROM (q) = q, FROM (q) = outer over Materialise(q), IN = membership.
           A second run on the mechanism as shipped (no restore of the table around a nested SELECT) must be
           rejected with the counterexample  SELECT x IN (SELECT y FROM #u) FROM #t  (non-vacuity).
      S2C  every statement TLC emits (with the rows + description the spec demands, for two data sets) is run on
           harness tables three ways: nested; outer statement over a harness table holding the inner result (and
           IN over a table holding the inner column); both compared with each other and with the spec.  The same
           statement object is executed on both data sets.  A sample goes through the TatSu parser as text.
      C2S  random nestings (depth <= 4) over random harness tables and over the #postings / #entries tables of an
           example ledger are recorded (nested rows, materialised rows, IN results with the logged inner column) and
           replayed by TLC through the actions of BQLSubquery (Trace_BQLSubquery).  The IN law (InValue / InLaw /
           InWhereLaw of Trace_BQLSubquery) is also judged for operands of every datatype class the ledger and a
           user table with untyped columns offer (metadata values, amounts, positions, sets, the NULL-typed
           constant, besides the five basic types), half of the subqueries returning no row, in targets and WHERE.
"""
import datetime
import decimal
import io
import json
import random
import re
import time

from harness import bqlmini as bm
from harness.core import MachineryError

KNOWN_PREFIX = 'in-subquery:outer-table-clobbered'
IDENT = re.compile(r'^[a-z_][a-z0-9_]*$')


def symptom(obs):
    if obs['ok']:
        return 'wrong-rows'
    if obs.get('exc') == 'CompilationError':
        return 'compile-error'
    if obs.get('exc') in ('TypeError', 'IndexError', 'AttributeError'):
        return 'runtime-error'
    return 'exception:%s' % obs.get('exc')


def where_in(q):
    f = bm.features(q)
    return ','.join(sorted(x for x in f if x.startswith(('in-', 'notin-')))) or 'none'


def explained_by_shipped(obs, case):
    """the code did exactly what the mechanism as shipped (nested SELECT leaves its table behind) does"""
    sh = case['shipped']
    if not bm.same(obs, sh):
        return False
    if obs['ok']:
        return True
    return (obs.get('exc') == 'CompilationError') == bool(case['cfail'])


# ---- S2C ---------------------------------------------------------------------------------------------------
def with_from_table(q, name):
    q2 = dict(q)
    q2['from'] = {'k': 'tab', 'n': name}
    return q2


def root_in_nodes(q):
    """IN / NOT IN nodes of the root SELECT (targets and WHERE), not those inside nested statements"""
    out = []

    def fe(e):
        k = e.get('k')
        if k in ('bin', 'and'):
            fe(e['l']), fe(e['r'])
        elif k == 'in':
            out.append(e)
            fe(e['l'])
        elif k == 'agg':
            fe(e['e'])
    for t in q['tg']:
        fe(t['e'])
    fe(q['wh'])
    return out


def replace_in(q, column_for):
    """copy of q in which every root-level `x IN (subquery)` is `x IN (v1, v2, ..)`, the values of the subquery's column"""
    def fe(e):
        k = e.get('k')
        if k in ('bin', 'and'):
            return dict(e, l=fe(e['l']), r=fe(e['r']))
        if k == 'in':
            return {'k': 'inlist', 'neg': e['neg'], 'l': fe(e['l']), 'vals': column_for[id(e)]}
        if k == 'agg':
            return dict(e, e=fe(e['e']))
        return e
    q2 = dict(q)
    q2['tg'] = [dict(t, e=fe(t['e'])) for t in q['tg']]
    q2['wh'] = fe(q['wh'])
    return q2


class Replayer:
    def __init__(self, ctx):
        import beanquery
        self.ctx = ctx
        self.st = bm.StrTab()
        self.conn = beanquery.Connection()
        self.asts = {}
        self.counts = {'nested': 0, 'materialised': 0, 'in_materialised': 0, 'text_route': 0}
        self.features = {}
        self.unclean = False

    def ast(self, q):
        key = json.dumps(q, sort_keys=True)
        a = self.asts.get(key)
        if a is None:
            a = self.asts[key] = bm.build_select(q, self.st)
        return a

    def run(self, q):
        return bm.run_raw(self.conn, self.ast(q))

    def violation(self, key, clause, case, ds, expected, observed, text):
        self.ctx.violation(key, clause, {'kind': 's2c', 'dataset': ds, 'text': text, 'q': case['q'], 'res': case['res'],
                                         'shipped': case['shipped'], 'cfail': case['cfail'], 'clean': case['clean'], 'tabs': self.tabs},
                           'S2C', expected, observed)

    def replay(self, case, ds, text, text_route=False):
        """one emitted statement on the current data set; returns True if everything agreed"""
        ctx, st, q, res = self.ctx, self.st, case['q'], case['res']
        raw = self.run(q)
        obs = bm.project(raw, st)
        self.counts['nested'] += 1
        for f in bm.features(q):
            self.features[f] = self.features.get(f, 0) + 1
        # A mismatch that is exactly what the mechanism as shipped before 70ead89 (a nested SELECT leaves its table
        # behind, TLC's `shipped` prediction) produces is reported under the key of that defect, anything else as a
        # plain mismatch of the nested form.
        if not bm.same(obs, res):
            if not case['clean'] and explained_by_shipped(obs, case) and symptom(obs) in ('wrong-rows', 'compile-error', 'runtime-error'):
                self.counts['as_shipped_mechanism'] = self.counts.get('as_shipped_mechanism', 0) + 1
                self.violation('%s:%s' % (KNOWN_PREFIX, symptom(obs)),
                               'outer SELECT uses the table left behind by a nested SELECT (%s)' % where_in(q),
                               case, ds, res, obs, text)
            else:
                what = ('exception:%s' % obs.get('exc')) if not obs['ok'] else ('desc' if obs['desc'] != res['desc'] else 'rows')
                self.violation('nested:%s' % what, 'nested statement vs specification', case, ds, res, obs, text)
            return False
        ok = True
        # materialised form of FROM (q'): the outer statement over a table holding q''s rows, named/typed by its description
        if q['from']['k'] == 'sub':
            inner = self.run(q['from']['q'])
            if inner[0] != 'ok':
                self.violation('materialised:inner-fails', 'inner statement alone', case, ds, 'a result', bm.project(inner, st), text)
                return False
            bm.materialise(self.conn, 'm', inner)
            mat = bm.project(self.run(with_from_table(q, 'm')), st)
            self.counts['materialised'] += 1
            if not bm.same(mat, res) or not bm.same(mat, obs):
                what = ('exception:%s' % mat.get('exc')) if not mat['ok'] else ('desc' if mat['desc'] != res['desc'] else 'rows')
                self.violation('materialised:%s' % what, 'outer statement over the materialised inner result',
                               case, ds, res, mat, text)
                ok = False
        # materialised form of x IN (q'): membership in the list of values of q''s single output column (for a
        # non-empty column; the empty column is NULL by the statement and has no list form)
        ins = root_in_nodes(q)
        if ins and not q['star']:
            column_for = {}
            for e in ins:
                inner = self.run(e['q'])
                if inner[0] != 'ok':
                    self.violation('in-materialised:inner-fails', 'IN subquery alone', case, ds, 'a result', bm.project(inner, st), text)
                    return False
                column_for[id(e)] = [r[0] for r in inner[2]]
            if all(column_for.values()):
                q2 = replace_in(q, column_for)
                mat = bm.project(bm.run_raw(self.conn, bm.build_select(q2, st)), st)
                self.counts['in_materialised'] += 1
                if not bm.same(mat, res):
                    what = ('exception:%s' % mat.get('exc')) if not mat['ok'] else 'rows'
                    self.violation('in-materialised:%s' % what, 'IN over the list of values of the inner column', case, ds, res, mat, text)
                    ok = False
            else:
                self.counts['in_empty_column'] = self.counts.get('in_empty_column', 0) + 1
        if text_route:
            parsed = bm.parsed(text)
            self.counts['text_route'] += 1
            if parsed != self.ast(q):
                raise MachineryError('hand-built statement differs from the parser\'s for: %s' % text)
            tobs = bm.project(bm.run_raw(self.conn, parsed), st)
            if not bm.same(tobs, res):
                self.violation('text-route:%s' % ('rows' if tobs['ok'] else 'exception:%s' % tobs.get('exc')),
                               'statement submitted as text', case, ds, res, tobs, text)
                ok = False
        return ok

    def dataset(self, ds, tabs, cases, text_every):
        self.tabs = tabs
        bm.install_tables(self.conn, tabs, self.st)
        good = 0
        for n, (text, case) in enumerate(cases):
            nontrivial = bm.depth(case['q']) >= 2
            self.ctx.case('%s|%s' % (ds, text), nontrivial)
            if self.replay(case, ds, text, text_route=(n % text_every == 0)):
                good += 1
            self.ctx.traces += 1
        return good


def s2c(ctx):
    sets = ctx.pick('Quick', 'All')
    rep = Replayer(ctx)
    per_ds = {}
    tabs = {}
    ops_taken = set()
    for ds in ('A', 'B'):
        r = ctx.tlc('Gen_BQLSubquery', 'Gen_BQLSubquery_Tabs%s.cfg' % ds, leg='GEN-tables', workers=1)
        tabs[ds] = r.printed[0]['tabs']
        res = ctx.tlc('Gen_BQLSubquery', 'Gen_BQLSubquery_%s%s.cfg' % (sets, ds), leg='GEN')
        cases = {}
        for p in res.printed:
            cases[bm.render_select(p['q'], rep.st)] = p
            ops_taken.update(p['ops'])
        per_ds[ds] = cases
        if not cases:
            raise MachineryError('generator emitted no case')
    for op in ('enter', 'settable', 'star', 'resolve', 'leave'):
        if op not in ops_taken:
            raise MachineryError('vacuity: walk step %s never taken by the generator' % op)
    ctx.leg('S2C', walk_steps_taken=sorted(ops_taken))
    texts = sorted(set(per_ds['A']) & set(per_ds['B']))
    if len(texts) != len(per_ds['A']) or len(texts) != len(per_ds['B']):
        raise MachineryError('the two data sets do not cover the same statements')
    ctx.rng.shuffle(texts)
    text_every = ctx.pick(40, 12)
    shown = 0
    for ds in ('A', 'B'):
        good = rep.dataset(ds, tabs[ds], [(t, per_ds[ds][t]) for t in texts], text_every)
        ctx.leg('S2C', **{'statements_%s' % ds: len(texts), 'agree_%s' % ds: good})
    for t in texts:
        c = per_ds['A'][t]
        if shown < 3 and bm.depth(c['q']) >= 3 and c['res']['rows']:
            ctx.sample({'leg': 'S2C', 'statement': t, 'spec_desc': c['res']['desc'], 'spec_rows': c['res']['rows'][:4]})
            shown += 1
    ctx.leg('S2C', **rep.counts)
    ctx.leg('S2C', features=rep.features, max_depth=max(bm.depth(per_ds['A'][t]['q']) for t in texts))
    for f in ('from-subquery', 'star', 'aggregate', 'hidden-key', 'distinct', 'limit', 'alias', 'expression-named',
              'in-target', 'notin-target', 'in-where', 'notin-where'):
        if not rep.features.get(f):
            raise MachineryError('vacuity: no replayed statement has feature %s' % f)
    if not rep.counts['materialised'] or not rep.counts['in_materialised']:
        raise MachineryError('vacuity: no materialised form was run')


# ---- C2S: random statements --------------------------------------------------------------------------------
class Gen:
    """random well-typed statements of the modelled fragment over given table schemas.  Only INPUTS are produced here."""

    def __init__(self, rng, schemas, consts):
        self.rng = rng
        self.schemas = schemas          # table name -> [(col, type)] (the columns the model knows)
        self.consts = consts            # type -> list of spec values usable as constants
        self.n = 0

    def fresh(self):
        self.n += 1
        return 'c%d' % self.n

    def const(self, ty):
        return {'k': 'c', 'v': self.rng.choice(self.consts[ty])}

    def scalar(self, cols, ty):
        """non-aggregate expression of the type over the usable columns"""
        rng = self.rng
        cands = [c for c in cols if c[1] == ty]
        if ty == 'int' and cands and rng.random() < 0.35:
            a = {'k': 'col', 'n': rng.choice(cands)[0]}
            b = {'k': 'col', 'n': rng.choice(cands)[0]} if rng.random() < 0.4 else self.const('int')
            return {'k': 'bin', 'op': rng.choice(['add', 'sub']), 'l': a, 'r': b}
        if cands:
            return {'k': 'col', 'n': rng.choice(cands)[0]}
        return None

    def cond(self, cols, depth):
        rng = self.rng
        usable = [c for c in cols if c[1] in ('int', 'str')]
        if not usable:
            return None
        c = rng.choice(usable)
        r = rng.random()
        if depth > 1 and r < 0.4:
            g = self.query(depth - 1, single=c[1])
            if g is not None:
                left = self.scalar(cols, c[1]) if c[1] == 'int' else {'k': 'col', 'n': c[0]}
                e = {'k': 'in', 'neg': rng.random() < 0.4, 'l': left, 'q': g}
                if rng.random() < 0.3:
                    e = {'k': 'and', 'l': e, 'r': self.cmp(cols, rng.choice(usable))}
                return e
        e = self.cmp(cols, c)
        if r > 0.8:
            e = {'k': 'and', 'l': e, 'r': self.cmp(cols, rng.choice(usable))}
        return e

    def cmp(self, cols, c):
        rng = self.rng
        left = self.scalar(cols, 'int') if c[1] == 'int' else {'k': 'col', 'n': c[0]}
        if c[1] == 'int':
            op = rng.choice(['gt', 'lt', 'ge', 'le', 'eq', 'ne'])
        else:
            op = rng.choice(['gt', 'lt', 'eq', 'ne', 'ge'])
        return {'k': 'bin', 'op': op, 'l': left, 'r': self.const(c[1])}

    def query(self, depth, single=None, allow_star=True):
        """-> statement (dict with an extra '_out' = [(name, type)..]) or None"""
        rng = self.rng
        src = None
        if depth > 1 and rng.random() < 0.65:
            inner = self.query(depth - 1)
            if inner is not None:
                src = ({'k': 'sub', 'q': inner}, inner['_out'], True)
        if src is None:
            name = rng.choice(sorted(self.schemas))
            src = ({'k': 'tab', 'n': name}, list(self.schemas[name]), False)
        frm, sch, is_sub = src
        cols = [c for c in sch if IDENT.match(c[0]) and c[1] in ('int', 'str', 'bool')]
        q = {'k': 'select', 'star': False, 'tg': [], 'from': frm, 'wh': {'k': 'none'}, 'ord': [], 'dis': False, 'lim': -1}
        if rng.random() < 0.45:
            w = self.cond(cols, depth)
            if w is not None:
                q['wh'] = w
        r = rng.random()
        if single is None and is_sub and allow_star and r < 0.25:
            q['star'] = True
            q['_out'] = list(sch)
            return q
        if not cols:
            return None
        out = []
        used = set()

        def add(e, ty, alias=None):
            if alias is None and e['k'] == 'col':
                nm = e['n']
                if nm in used:
                    alias = self.fresh()
            elif alias is None and e['k'] == 'bin' and rng.random() < 0.3 and e['l']['k'] == 'col' and e['r']['k'] in ('col', 'c') \
                    and (e['r']['k'] == 'col' or e['r']['v'][1] >= 0):
                nm = bm.render_expr(e, self.st_dummy)
                if nm in used:
                    alias = self.fresh()
            elif alias is None:
                alias = self.fresh()
            if alias is not None:
                nm = alias
            used.add(nm)
            q['tg'].append({'e': e, 'nm': alias or ''})
            out.append((nm, ty))

        if r < 0.5 or single is not None and r < 0.8:
            # plain projection
            ntg = 1 if single is not None else rng.randint(1, 3)
            for _ in range(ntg):
                ty = single or rng.choice([c[1] for c in cols])
                e = self.scalar(cols, ty)
                if e is None:
                    return None
                if single is None and depth > 1 and rng.random() < 0.25 and ty in ('int', 'str'):
                    g = self.query(depth - 1, single=ty)
                    if g is not None:
                        add(e, ty)
                        add({'k': 'in', 'neg': rng.random() < 0.4, 'l': e, 'q': g}, 'bool', self.fresh())
                        continue
                add(e, ty)
            if rng.random() < 0.5:
                nord = rng.randint(1, 2)
                for _ in range(nord):
                    if rng.random() < 0.4:
                        nm = rng.choice(out)[0]
                        oe = {'k': 'col', 'n': nm} if IDENT.match(nm) else None
                    else:
                        oc = rng.choice(cols)
                        oe = self.scalar(cols, oc[1]) if oc[1] != 'bool' else {'k': 'col', 'n': oc[0]}
                    if oe is not None:
                        q['ord'].append({'e': oe, 'desc': rng.random() < 0.5})
            q['dis'] = rng.random() < 0.25
        else:
            # aggregate query: group keys (plain columns) and aggregates
            ints = [c for c in cols if c[1] == 'int']
            if single is not None:
                if single != 'int':
                    return None
                arg = self.scalar(cols, 'int')
                f = rng.choice(['min', 'sum', 'count'])
                add({'k': 'agg', 'f': f, 'e': arg} if arg is not None else {'k': 'agg', 'f': 'countstar', 'e': {'k': 'c', 'v': ['n', 0]}},
                    'int', self.fresh())
            else:
                for _ in range(rng.randint(0, 2)):
                    c = rng.choice([c for c in cols if c[1] in ('int', 'str')] or cols)
                    if c[0] not in used:
                        add({'k': 'col', 'n': c[0]}, c[1])
                for _ in range(rng.randint(1, 2)):
                    f = rng.choice(['countstar', 'count', 'sum', 'min'])
                    if f == 'countstar':
                        add({'k': 'agg', 'f': f, 'e': {'k': 'c', 'v': ['n', 0]}}, 'int', self.fresh())
                    elif f == 'count':
                        c = rng.choice(cols)
                        add({'k': 'agg', 'f': f, 'e': {'k': 'col', 'n': c[0]}}, 'int', self.fresh())
                    elif f == 'sum':
                        if not ints:
                            continue
                        add({'k': 'agg', 'f': f, 'e': self.scalar(cols, 'int')}, 'int', self.fresh())
                    else:
                        c = rng.choice([c for c in cols if c[1] in ('int', 'str')] or cols)
                        if c[1] == 'bool':
                            continue
                        add({'k': 'agg', 'f': f, 'e': {'k': 'col', 'n': c[0]}}, c[1], self.fresh())
                if not any(t['e']['k'] == 'agg' for t in q['tg']):
                    add({'k': 'agg', 'f': 'countstar', 'e': {'k': 'c', 'v': ['n', 0]}}, 'int', self.fresh())
            if rng.random() < 0.4:
                names = [o[0] for o in out if IDENT.match(o[0])]
                if names:
                    q['ord'].append({'e': {'k': 'col', 'n': rng.choice(names)}, 'desc': rng.random() < 0.5})
        # an ORDER BY name that is both an output and (a different) source column would be ambiguous to a reader; the
        # statement is precise about it (output first), keep it.
        if rng.random() < 0.3:
            q['lim'] = rng.choice([0, 1, 2, 3, 5, 10])
        if not q['tg']:
            return None
        q['_out'] = out
        return q

    st_dummy = bm.StrTab()


def strip(q):
    """drop the generator's private annotations"""
    if isinstance(q, dict):
        return {k: strip(v) for k, v in q.items() if not k.startswith('_')}
    if isinstance(q, list):
        return [strip(x) for x in q]
    return q


def random_tables(rng):
    st = bm.StrTab()

    def val(ty):
        if rng.random() < 0.12:
            return ['n', 0]
        if ty == 'int':
            return ['i', rng.choice([-2, -1, 0, 0, 1, 2, 3, 5, 8])]
        return ['s', rng.randint(0, 4)]
    tabs = {'': {'cols': [], 'rows': [[]]}}
    for name, cols in (('t', [['x', 'int'], ['s', 'str'], ['w', 'int']]), ('u', [['y', 'int'], ['z', 'int']]),
                       ('v', [['a', 'str'], ['x', 'int']])):
        n = rng.choice([0, 1, 3, 5, 8, 12])
        tabs[name] = {'cols': cols, 'rows': [[val(c[1]) for c in cols] for _ in range(n)]}
    consts = {'int': [['i', k] for k in (-1, 0, 1, 2, 3, 5)], 'str': [['s', k] for k in (0, 1, 2, 3)]}
    return tabs, st, consts


LEDGER_COLS = {'postings': [('lineno', 'int'), ('year', 'int'), ('month', 'int'), ('day', 'int'), ('account', 'str'),
                            ('currency', 'str'), ('flag', 'str'), ('payee', 'str')],
               'entries': [('lineno', 'int'), ('month', 'int'), ('day', 'int'), ('type', 'str'), ('flag', 'str'),
                           ('payee', 'str')]}


def example_ledger(seed, ntxn):
    """a realistic ledger (beancount.scripts.example), cut after ntxn transactions so that TLC can hold its tables"""
    from beancount import loader
    from beancount.core import data
    from beancount.scripts import example
    state = random.getstate()
    random.seed(seed)
    try:
        f = io.StringIO()
        example.write_example_file(datetime.date(1980, 5, 12), datetime.date(2022, 1, 1), datetime.date(2022, 12, 31), True, f)
    finally:
        random.setstate(state)
    entries, errors, options = loader.load_string(f.getvalue())
    out, n = [], 0
    for e in entries:
        if isinstance(e, data.Transaction):
            n += 1
            if n > ntxn:
                break
        if isinstance(e, data.Price) and len(out) % 3:
            continue
        out.append(e)
    return out, errors, options


def ledger_env(conn):
    """the model's view of the ledger tables: the int / str columns, read through plain scans"""
    raw = {}
    strings = set()
    for name, cols in LEDGER_COLS.items():
        cur = conn.execute('SELECT %s FROM #%s' % (', '.join(c[0] for c in cols), name))
        rows = cur.fetchall()
        raw[name] = rows
        for r in rows:
            strings.update(v for v in r if isinstance(v, str))
    st = bm.StrTab.of(strings)
    tabs = {'': {'cols': [], 'rows': [[]]}}
    for name, cols in LEDGER_COLS.items():
        tabs[name] = {'cols': [list(c) for c in cols], 'rows': [[bm.to_spec(v, st) for v in r] for r in raw[name]]}
    ranks = sorted(st.rank[s] for s in strings)
    pick = [ranks[i] for i in range(0, len(ranks), max(1, len(ranks) // 12))]
    consts = {'int': [['i', k] for k in (0, 1, 2, 3, 6, 12, 15, 28, 2022, 100, 400)], 'str': [['s', k] for k in pick]}
    return tabs, st, consts


DUMMY = {'k': 'select', 'star': True, 'tg': [], 'from': {'k': 'tab', 'n': ''}, 'wh': {'k': 'none'}, 'ord': [],
         'dis': False, 'lim': -1}


def opaque(v):
    """values outside the model, for the relational lines: equality is all that is needed"""
    if v is None:
        return ['n', '']
    if isinstance(v, bool):
        return ['b', str(v)]
    if isinstance(v, int):
        return ['i', str(v)]
    if isinstance(v, decimal.Decimal):
        return ['d', str(v.normalize() + 0)]
    if isinstance(v, datetime.date):
        return ['date', v.isoformat()]
    if isinstance(v, str):
        return ['s', v]
    return ['o', repr(v)[:80]]


def project_opaque(res):
    if res[0] == 'exc':
        return {'ok': False, 'exc': res[1], 'msg': res[2], 'desc': [], 'rows': []}
    return {'ok': True, 'desc': [[c.name, bm.typename(c.datatype)] for c in res[1]],
            'rows': [[opaque(v) for v in row] for row in res[2]]}


def record_queries(ctx, f, conn, st, schemas, consts, n, maxdepth, idbase):
    """n random statements: nested run, materialised run, IN lines; returns (lines written, statement texts)"""
    g = Gen(ctx.rng, schemas, consts)
    lines = 0
    made = 0
    tries = 0
    while made < n and tries < n * 20:
        tries += 1
        q = g.query(ctx.rng.randint(2, maxdepth))
        if q is None or bm.depth(q) < 2:
            continue
        q = strip(q)
        made += 1
        a = bm.build_select(q, st)
        raw = bm.run_raw(conn, a)
        ev = {'op': 'query', 'id': idbase + made, 'q': q, 'nested': bm.project(raw, st), 'hasmat': False}
        ev['mat'] = ev['nested']
        if q['from']['k'] == 'sub':
            inner = bm.run_raw(conn, bm.build_select(q['from']['q'], st))
            if inner[0] == 'ok':
                bm.materialise(conn, 'm', inner)
                ev['mat'] = bm.project(bm.run_raw(conn, bm.build_select(with_from_table(q, 'm'), st)), st)
            else:
                ev['mat'] = bm.project(inner, st)
            ev['hasmat'] = True
        ev['text'] = bm.render_select(q, st)
        f.write(json.dumps(ev) + '\n')
        lines += 1
        # the IN law on the logged inner column:  SELECT x, x IN (g) FROM F  -> xs, obs; g alone -> col
        if not q['star']:
            for j, t in enumerate(q['tg']):
                if t['e']['k'] == 'in' and j > 0 and q['tg'][j - 1]['e'] == t['e']['l'] and raw[0] == 'ok' \
                        and not q['dis'] and not any(x['e']['k'] == 'agg' for x in q['tg']):
                    inner = bm.run_raw(conn, bm.build_select(t['e']['q'], st))
                    if inner[0] != 'ok':
                        continue
                    ev2 = {'op': 'in', 'id': idbase + made, 'neg': t['e']['neg'],
                           'xs': [bm.to_spec(r[j - 1], st) for r in raw[2]], 'obs': [bm.to_spec(r[j], st) for r in raw[2]],
                           'col': [bm.to_spec(r[0], st) for r in inner[2]], 'text': ev['text']}
                    f.write(json.dumps(ev2) + '\n')
                    lines += 1
    return lines, made


REL_INNER = [
    "SELECT date, account, number AS amt, currency FROM #postings WHERE number > {k} ORDER BY number DESC, lineno LIMIT {n}",
    "SELECT account, sum(number) AS total, count(*) AS n FROM #postings WHERE currency = 'USD' GROUP BY account ORDER BY account",
    "SELECT DISTINCT date, payee FROM #postings WHERE month <= {m} ORDER BY date DESC",
    "SELECT date, narration, number * 2 AS dbl FROM #postings WHERE account ~ 'Expenses' ORDER BY number LIMIT {n}",
    "SELECT date, type, lineno FROM #entries WHERE type != 'price' ORDER BY lineno DESC LIMIT {n}",
    "SELECT account, min(date) AS first, max(number) AS top FROM #postings GROUP BY account",
    "SELECT year, month, sum(cost(position)) AS c FROM #postings WHERE account ~ 'Assets' GROUP BY year, month ORDER BY month DESC",
]
REL_OUTER = [
    ("SELECT * FROM {src}", None),
    ("SELECT * FROM {src} WHERE {c0} IS NOT NULL", None),
    ("SELECT {c0}, count(*) AS k FROM {src} GROUP BY {c0} ORDER BY {c0}", None),
    ("SELECT DISTINCT {c0} FROM {src} ORDER BY {c0} DESC", None),
    ("SELECT {c1} AS p, {c0} AS q FROM {src} ORDER BY {c1}, {c0} LIMIT 7", None),
    ("SELECT count(*) AS n, min({c0}) AS lo, max({c0}) AS hi FROM {src}", None),
]
REL_IN = [      # (outer table, x, subquery, subquery's table differs from the outer one)
    ('postings', "number", "SELECT number FROM #postings WHERE month = {m} AND number > 0", False),
    ('entries', "date", "SELECT date FROM #entries WHERE type = 'balance'", False),
    ('postings', "account", "SELECT account FROM #postings WHERE number > {k}", False),
    ('postings', "number", "SELECT number FROM #postings WHERE number > 1000000", False),
    ('postings', "payee", "SELECT payee FROM #postings WHERE month = {m}", False),
    ('postings', "date", "SELECT a FROM (SELECT max(date) AS a, account FROM #postings GROUP BY account)", True),
    ('postings', "date", "SELECT date FROM #entries WHERE type = 'balance'", True),
    ('entries', "lineno", "SELECT lineno FROM #postings WHERE number > {k}", True),
]


def record_ledger_rel(ctx, f, conn, n, idbase):
    """statements over ledger columns outside the model (dates, decimals, inventories): nested vs materialised, IN law"""
    rng = ctx.rng
    lines = 0
    for i in range(n):
        inner_t = rng.choice(REL_INNER).format(k=rng.choice([0, 50, 500, 2000]), n=rng.choice([3, 10, 25]), m=rng.randint(1, 6))
        inner = bm.run_raw(conn, bm.parsed(inner_t))
        if inner[0] != 'ok':
            raise MachineryError('ledger template does not run: %s (%s)' % (inner_t, inner[1:]))
        names = [c.name for c in inner[1]]
        outer_t = rng.choice(REL_OUTER)[0]
        kw = {'c0': names[0], 'c1': names[1 % len(names)]}
        nested_t = outer_t.format(src='(%s)' % inner_t, **kw)
        bm.materialise(conn, 'm', inner)
        mat_t = outer_t.format(src='#m', **kw)
        ev = {'op': 'rel', 'id': idbase + i, 'text': nested_t,
              'nested': project_opaque(bm.run_raw(conn, bm.parsed(nested_t))),
              'mat': project_opaque(bm.run_raw(conn, bm.parsed(mat_t)))}
        f.write(json.dumps(ev) + '\n')
        lines += 1
    for i in range(n // 2 + 1):
        table, col, g_t, cross = rng.choice(REL_IN)
        g_t = g_t.format(m=rng.randint(1, 6), k=rng.choice([50, 500, 3000]))
        neg = rng.random() < 0.4
        t = 'SELECT %s AS x, %s %s (%s) AS r FROM #%s' % (col, col, 'NOT IN' if neg else 'IN', g_t, table)
        raw = bm.run_raw(conn, bm.parsed(t))
        inner = bm.run_raw(conn, bm.parsed(g_t))
        xs = bm.run_raw(conn, bm.parsed('SELECT %s AS x FROM #%s' % (col, table)))
        if inner[0] != 'ok' or xs[0] != 'ok':
            raise MachineryError('ledger IN template does not run: %s' % g_t)
        if raw[0] == 'ok':
            ev = {'op': 'in', 'id': idbase + n + i, 'neg': neg, 'text': t,
                  'xs': [opaque(r[0]) for r in xs[2]], 'obs': [bm.to_spec(r[1], bm.StrTab()) for r in raw[2]],
                  'col': [opaque(r[0]) for r in inner[2]]}
            # the law speaks of NULL x: use the model's NULL for it
            ev['xs'] = [['n', 0] if x[0] == 'n' else x for x in ev['xs']]
            if [opaque(r[0]) for r in raw[2]] != [opaque(r[0]) for r in xs[2]]:
                ev['obs'] = ev['obs'] + [['ood', 'x column differs from the plain scan']]
        else:
            ev = {'op': 'rel', 'id': idbase + n + i, 'text': t, 'nested': project_opaque(raw), 'mat': project_opaque(raw)}
        if cross:
            ev['family'] = 'ledger-in-cross-table'
        f.write(json.dumps(ev) + '\n')
        lines += 1
    return lines


class OutOfDomain(Exception):
    pass


def eqval(v):
    """a value as an opaque pair [tag, text] such that two values are equal in Python iff their pairs are equal (what
    membership in a list of values means): numbers of the three numeric types are one class (1 = 1.0 = TRUE), tuples
    (amounts, positions, costs) and sets / lists / inventories are encoded element by element"""
    if v is None:
        return ['n', '']
    if isinstance(v, (bool, int, decimal.Decimal)):
        d = decimal.Decimal(int(v)) if isinstance(v, (bool, int)) else v
        if not d.is_finite():
            raise OutOfDomain(repr(v))
        return ['num', str(d.normalize() + 0)]
    if isinstance(v, str):
        return ['s', v]
    if isinstance(v, datetime.datetime):
        raise OutOfDomain(repr(v))
    if isinstance(v, datetime.date):
        return ['date', v.isoformat()]
    if isinstance(v, dict):          # Inventory: a mapping (currency, cost) -> position
        return ['map', json.dumps(sorted([eqval(k), eqval(x)] for k, x in v.items()))]
    if isinstance(v, (set, frozenset)):
        return ['set', json.dumps(sorted(eqval(x) for x in v))]
    if isinstance(v, tuple):
        return ['tup:%s' % type(v).__name__, json.dumps([eqval(x) for x in v])]
    if isinstance(v, list):
        return ['list', json.dumps([eqval(x) for x in v])]
    raise OutOfDomain(repr(v)[:60])


# operands of IN / NOT IN (subquery) by table: (expression, datatype class).  `basic` are the five BQL datatypes with
# a literal syntax, the others are what a ledger offers besides: untyped metadata values, amounts, positions,
# inventories, sets, the NULL-typed constant.
TYPED_OPERANDS = {
    'postings': [('account', 'basic'), ('number', 'basic'), ('date', 'basic'), ('lineno', 'basic'), ('payee', 'basic'),
                 ('cost_number', 'basic'), ("entry_meta('lineno')", 'untyped'), ("meta('lineno')", 'untyped'),
                 ("any_meta('filename')", 'untyped'), ("entry_meta('nokey')", 'untyped'), ('position', 'struct'),
                 ('units(position)', 'struct'), ('weight', 'struct'), ('cost(position)', 'struct'), ('price', 'struct'),
                 ('tags', 'set'), ('other_accounts', 'set'), ('NULL', 'null')],
    'entries': [('date', 'basic'), ('lineno', 'basic'), ('narration', 'basic'), ('type', 'basic'),
                ("meta('lineno')", 'untyped'), ("meta('filename')", 'untyped'), ('tags', 'set'), ('links', 'set'),
                ('NULL', 'null')],
    'ob': [('n', 'basic'), ('s', 'basic'), ('o', 'untyped'), ('p', 'untyped'), ('g', 'set'), ('NULL', 'null')],
}
TYPED_COLUMN_ONLY = {'postings': [('balance', 'struct')]}     # as x under WHERE its value depends on the rows kept (C12)
TYPED_FILTERS = {       # (WHERE / LIMIT clause of the subquery, returns no row for sure)
    'postings': [('', False), ('WHERE number > {k}', False), ('WHERE month = {m}', False), ("WHERE account ~ 'Expenses'", False),
                 ('WHERE number > 100000000', True), ("WHERE account ~ 'Nope'", True), ('LIMIT 0', True), ('WHERE year < 1000', True)],
    'entries': [('', False), ("WHERE type = 'transaction'", False), ('WHERE month = {m}', False),
                ("WHERE type = 'nope'", True), ('WHERE year < 1000', True), ('LIMIT 0', True)],
    'ob': [('', False), ('WHERE n < 3', False), ('WHERE n >= {m}', False), ('WHERE n > 1000', True), ("WHERE s = 'nope'", True),
           ('LIMIT 0', True)],
}


def object_table(rng):
    """a user table with untyped (`object`) columns, like metadata values: strings, numbers, dates, amounts, NULLs"""
    from beancount.core.amount import Amount
    from harness import tables as ht
    pool = ['one', 'two', '', decimal.Decimal('2'), decimal.Decimal('2.50'), 3, datetime.date(2020, 1, 4),
            datetime.date(2022, 3, 1), Amount(decimal.Decimal('2.50'), 'USD'), Amount(decimal.Decimal('1'), 'EUR'), True, None, None]
    sets = [frozenset(), frozenset({'a'}), frozenset({'a', 'b'}), frozenset({'b'}), None]
    rows = []
    for i in range(rng.choice([4, 9, 14])):
        rows.append((rng.choice([None, 0, 1, 2, 3, 4, 7]), rng.choice(['one', 'two', 'x', None]), rng.choice(pool), rng.choice(pool),
                     rng.choice(sets)))
    return ht.HarnessTable('ob', [('n', 'int'), ('s', 'str'), ('o', 'object'), ('p', 'object'), ('g', 'set')], rows)


def record_typed_in(ctx, f, conn, n, idbase):
    """x IN / NOT IN (subquery) for operands of every datatype class the tables offer, with subqueries that do and do
    not return rows, in the targets (one line "in": value per outer row) and in WHERE (one line "inwh": the rows
    kept); the subquery's column and the outer x values are logged from separate plain statements"""
    rng = ctx.rng
    lines = 0
    stats = {'typed_in_lines': 0, 'typed_in_empty_column': 0, 'typed_in_where': 0, 'typed_in_nonbasic': 0,
             'typed_in_nonbasic_empty': 0, 'typed_in_true': 0, 'typed_in_skipped': 0}
    for i in range(n):
        table = rng.choice(['postings', 'postings', 'entries', 'ob'])
        ops = TYPED_OPERANDS[table]
        x, xcls = rng.choice(ops) if rng.random() < 0.3 else rng.choice([o for o in ops if o[1] != 'basic'])
        # the subquery's column: the same expression (membership holds for some rows), or any other one
        gtable = table if rng.random() < 0.8 else rng.choice(sorted(TYPED_OPERANDS))
        gops = TYPED_OPERANDS[gtable] + TYPED_COLUMN_ONLY.get(gtable, [])
        same = [o for o in gops if o[0] == x]
        y, ycls = same[0] if same and rng.random() < 0.7 else rng.choice(gops)
        flt, empty = rng.choice(TYPED_FILTERS[gtable])         # half of them return no row
        flt = flt.format(k=rng.choice([0, 50, 500]), m=rng.choice([1, 1, 2, 3]))
        g_t = ('SELECT %s AS c FROM #%s %s' % (y, gtable, flt)).strip()
        neg = rng.random() < 0.5
        op = 'NOT IN' if neg else 'IN'
        inner = bm.run_raw(conn, bm.parsed(g_t))
        xs = bm.run_raw(conn, bm.parsed('SELECT %s AS x FROM #%s' % (x, table)))
        if inner[0] != 'ok' or xs[0] != 'ok':
            raise MachineryError('typed IN template does not run: %s / %s: %s' % (x, g_t, (inner[1:], xs[1:])))
        if empty and inner[2]:
            raise MachineryError('subquery expected to return no row does: %s' % g_t)
        try:
            col = [eqval(r[0]) for r in inner[2]]
            xv = [eqval(r[0]) for r in xs[2]]
        except OutOfDomain:
            ctx.skipped += 1
            stats['typed_in_skipped'] += 1
            continue
        # equality of amounts / positions (beancount's classes) is defined among values of the same class only
        # (Amount.__eq__ raises for a number or a string): such mixtures are outside the domain
        tags = {v[0] for v in col + xv if v[0] != 'n'}
        if len(tags) > 1 and any(t.startswith('tup') for t in tags):
            ctx.skipped += 1
            stats['typed_in_skipped'] += 1
            continue
        xv = [['n', 0] if v[0] == 'n' else v for v in xv]       # the law speaks of NULL x: the model's NULL
        where = rng.random() < 0.4
        if where:
            t = 'SELECT %s AS x FROM #%s WHERE %s %s (%s)' % (x, table, x, op, g_t)
        else:
            t = 'SELECT %s AS x, %s %s (%s) AS r FROM #%s' % (x, x, op, g_t, table)
        raw = bm.run_raw(conn, bm.parsed(t))
        ev = {'id': idbase + i, 'neg': neg, 'text': t, 'xs': xv, 'col': col, 'family': 'typed-in:%s:%s' % (xcls, ycls)}
        if raw[0] != 'ok':
            ev = {'op': 'rel', 'id': idbase + i, 'text': t, 'nested': project_opaque(raw), 'mat': project_opaque(raw),
                  'family': ev['family']}
        elif where:
            try:
                kept = [eqval(r[0]) for r in raw[2]]
            except OutOfDomain:
                kept = [['ood', 'value outside the tables']]
            ev.update(op='inwh', kept=[['n', 0] if v[0] == 'n' else v for v in kept])
            stats['typed_in_where'] += 1
        else:
            ev.update(op='in', obs=[bm.to_spec(r[1], bm.StrTab()) for r in raw[2]])
            if [r[0] for r in raw[2]] != [r[0] for r in xs[2]]:
                ev['obs'] = ev['obs'] + [['ood', 'x column differs from the plain scan']]
            stats['typed_in_true'] += sum(1 for r in raw[2] if r[1] is True)
        f.write(json.dumps(ev) + '\n')
        lines += 1
        stats['typed_in_lines'] += 1
        stats['typed_in_empty_column'] += not col
        nonbasic = xcls != 'basic' or ycls != 'basic'
        stats['typed_in_nonbasic'] += nonbasic
        stats['typed_in_nonbasic_empty'] += nonbasic and not col
        ctx.case('typed-in|%s|%s|%s|%s|%s' % (table, x, op, g_t, 'where' if where else 'target'))
    ctx.leg('C2S', **stats)
    for k in ('typed_in_empty_column', 'typed_in_where', 'typed_in_nonbasic', 'typed_in_nonbasic_empty', 'typed_in_true'):
        if not stats[k]:
            raise MachineryError('vacuity: typed IN family has %s = 0' % k)
    return lines


def validate(ctx, path, nlines, what):
    """replay one trace file through Trace_BQLSubquery; classify what it rejects"""
    res = ctx.tlc('Trace_BQLSubquery', 'Trace_BQLSubquery.cfg', leg='C2S', workers=1, env={'TRACE_FILE': path},
                  timeout=ctx.pick(600, 3600))
    done = [p for p in res.printed if isinstance(p, dict) and p.get('verdict') == 'done']
    rejected = [p for p in res.printed if isinstance(p, dict) and p.get('verdict') == 'rejected']
    with open(path) as f:
        lines = f.read().split('\n')
    if res.violated:
        ctx.violation('c2s:trace-invariant:%s' % ','.join(res.violated),
                      'an invariant of the conforming mechanism fails while replaying recorded statements',
                      {'kind': 'c2s', 'behaviour': res.behaviour[:2000]}, 'C2S')
        return
    if len(done) != 1 or done[0]['lines'] != nlines or res.post_failed:
        raise MachineryError('trace %s not consumed: %s of %d lines (%s)' % (what, done, nlines, res.errors[:2]))
    known = set()
    if rejected:
        # which of the rejected statements did exactly what the mechanism as shipped does?
        sub = ctx.path('rejected-%s.ndjson' % what)
        qlines = [r['line'] for r in rejected if r['op'] == 'query']
        if qlines:
            with open(sub, 'w') as f:
                f.write(lines[0] + '\n')
                for ln in qlines:
                    f.write(lines[ln - 1] + '\n')
            r2 = ctx.tlc('Trace_BQLSubquery', 'Trace_BQLSubquery_shipped.cfg', leg='C2S-classify', workers=1,
                         env={'TRACE_FILE': sub}, timeout=ctx.pick(600, 3600))
            cls = {p['id']: p for p in r2.printed if isinstance(p, dict) and p.get('verdict') == 'class'}
            d2 = [p for p in r2.printed if isinstance(p, dict) and p.get('verdict') == 'done']
            if len(d2) != 1 or d2[0]['lines'] != len(qlines) + 1 or len(cls) != len(qlines):
                raise MachineryError('classification trace not consumed')
            known = {i for i, p in cls.items() if not p['clean'] and p['same']}
    nknown_family = 0
    for rj in rejected:
        ev = json.loads(lines[rj['line'] - 1])
        case = {'kind': 'c2s', 'event': ev, 'tables_line': json.loads(lines[0]) if len(lines[0]) < 20000 else 'ledger', 'spec': rj}
        if ev['op'] == 'query':
            obs = ev['nested']
            if ev['id'] in known and symptom(obs) in ('wrong-rows', 'compile-error', 'runtime-error'):
                ctx.violation('%s:%s' % (KNOWN_PREFIX, symptom(obs)),
                              'outer SELECT uses the table left behind by a nested SELECT (%s)' % where_in(ev['q']),
                              case, 'C2S', rj['spec'], obs)
            else:
                nested_ok = bm.same(obs, rj['spec'])
                ctx.violation('c2s:%s' % ('materialised' if nested_ok else 'nested'),
                              'recorded statement not explained by the specification', case, 'C2S', rj['spec'],
                              ev['mat'] if nested_ok else obs)
        elif ev.get('family') == 'ledger-in-cross-table':
            obs = ev['nested'] if ev['op'] == 'rel' else {'ok': True}
            ctx.violation('%s:%s' % (KNOWN_PREFIX, symptom(obs) if symptom(obs) in ('wrong-rows', 'runtime-error', 'compile-error') else 'other'),
                          'x IN (subquery over another table) on the ledger: outer SELECT uses the table left behind', case, 'C2S')
            nknown_family += 1
        elif ev['op'] == 'in' and ev['id'] in known:
            pass        # the IN law on a statement already attributed to the listed defect through its query line
        elif ev['op'] in ('in', 'inwh') and ev.get('family', '').startswith('typed-in'):
            ctx.violation('c2s:in-law:%s:%s%s' % (ev['family'], 'where' if ev['op'] == 'inwh' else 'target', '' if ev['col'] else ':empty-column'),
                          'x %s (q) %s differs from membership in the logged inner column (NULL for NULL x or a subquery without rows)'
                          % ('NOT IN' if ev['neg'] else 'IN', 'in WHERE' if ev['op'] == 'inwh' else 'as a target'), case, 'C2S')
        elif ev['op'] in ('in', 'inwh'):
            ctx.violation('c2s:in-law', 'x IN (q) differs from membership in the logged inner column', case, 'C2S')
        elif ev.get('family', '').startswith('typed-in'):
            ctx.violation('c2s:in-typed:%s:exception' % ev['family'], 'x IN (q) over operands of this datatype fails', case, 'C2S',
                          'a result', ev['nested'])
        else:
            ctx.violation('c2s:rel', 'nested and materialised forms differ', case, 'C2S', ev['mat'], ev['nested'])
    ctx.traces += nlines - 1 - len(rejected)
    ctx.leg('C2S', **{'lines_' + what: nlines - 1, 'rejected_' + what: len(rejected), 'known_' + what: len(known) + nknown_family})


def c2s(ctx):
    import beanquery
    # (1) random harness tables
    nfiles = ctx.pick(2, 8)
    per = ctx.pick(150, 500)
    for k in range(nfiles):
        tabs, st, consts = random_tables(ctx.rng)
        conn = beanquery.Connection()
        bm.install_tables(conn, tabs, st)
        path = ctx.path('c08-harness-%d.ndjson' % k)
        with open(path, 'w') as f:
            f.write(json.dumps({'op': 'tables', 'id': 0, 'tabs': tabs, 'dummy': DUMMY}) + '\n')
            schemas = {n: [tuple(c) for c in t['cols']] for n, t in tabs.items() if n}
            n, made = record_queries(ctx, f, conn, st, schemas, consts, per, 4, k * 100000)
        ctx.case('c2s-harness-%d' % k, n=n)
        if k == 0:
            with open(path) as f:
                f.readline()
                ctx.sample({'leg': 'C2S', 'line': json.loads(f.readline())})
        validate(ctx, path, n + 1, 'harness%d' % k)
    # (2) a real ledger: modelled columns judged by the full specification, the rest relationally
    entries, errors, options = example_ledger(ctx.seed, ctx.pick(40, 90))
    conn = beanquery.connect('beancount:', entries=entries, errors=errors, options=options)
    tabs, st, consts = ledger_env(conn)
    path = ctx.path('c08-ledger.ndjson')
    with open(path, 'w') as f:
        f.write(json.dumps({'op': 'tables', 'id': 0, 'tabs': tabs, 'dummy': DUMMY}) + '\n')
        schemas = {n: list(c) for n, c in LEDGER_COLS.items()}
        n1, made = record_queries(ctx, f, conn, st, schemas, consts, ctx.pick(60, 250), 4, 5000000)
        n2 = record_ledger_rel(ctx, f, conn, ctx.pick(40, 200), 6000000)
        conn.tables['ob'] = object_table(ctx.rng)
        t0 = time.time()
        n3 = record_typed_in(ctx, f, conn, ctx.pick(120, 600), 7000000)
        ctx.leg('C2S', typed_in_record_s=round(time.time() - t0, 1))
    ctx.case('c2s-ledger', n=n1 + n2)
    ctx.leg('C2S', ledger_postings=len(tabs['postings']['rows']), ledger_entries=len(tabs['entries']['rows']),
            ledger_modelled_lines=n1, ledger_relational_lines=n2 + n3)
    validate(ctx, path, n1 + n2 + n3 + 1, 'ledger')


def run(ctx):
    ctx.rule = ('S2C: every statement of the TLC-explored set (templates x inner queries x IN subqueries, nesting depth <= 3) '
                'on two data sets, distinct by (data set, statement text); non-trivial = nesting depth >= 2.  '
                'C2S: random well-typed nestings of depth 2..4 over random harness tables and an example ledger')
    ctx.assumptions += ['inner queries have distinct output names (duplicates are outside the statement)',
                        'modelled fragment: int / str / bool columns, + - comparisons AND IN count sum min, WHERE, '
                        'ORDER BY, DISTINCT, LIMIT, aliases; ledger columns of other types are judged relationally '
                        '(nested = materialised, IN = membership in the logged column)',
                        'IN over amounts / positions mixed with values of another class is outside the domain (beancount\'s '
                        'Amount.__eq__ raises for them): skipped and counted',
                        'base-table scans of the ledger (SELECT cols FROM #postings) are trusted as the model\'s tables (C11)',
                        'TLC 1.8, Json/IOUtils community modules, CPython 3.12']
    only = getattr(ctx, 'only_legs', None)
    # ---- MC
    if not only or 'MC' in only:
        cfgs = ['MC_BQLSubquery.cfg'] if ctx.quick else ['MC_BQLSubquery_allA.cfg', 'MC_BQLSubquery_allB.cfg']
        # (TLC's -coverage bookkeeping runs out of memory on this specification even for 30 states: that every step of
        # the walk is taken is checked through the generator's `ops`, and the shipped-mechanism counterexample)
        for cfg in cfgs:
            res = ctx.tlc('MC_BQLSubquery', cfg, leg='MC')
            if res.violated:
                ctx.violation('spec:' + ','.join(res.violated), 'TLC violates the composition laws on the conforming mechanism',
                              {'kind': 'mc', 'behaviour': res.behaviour[:3000]}, 'MC')
        res = ctx.tlc('MC_BQLSubquery', 'MC_BQLSubquery_shipped.cfg', leg='MC-nonvacuity', expect_violation='IteratesOwnTable',
                      workers=2)
        if '"u"' not in res.behaviour or 'iter' not in res.behaviour:
            raise MachineryError('the shipped-mechanism counterexample is not the expected one')
    # ---- S2C
    if not only or 'S2C' in only:
        s2c(ctx)
    # ---- C2S
    if not only or 'C2S' in only:
        c2s(ctx)
    # nested FROM (subquery) / wildcard statements over the FULL expression and SELECT semantics (BQLSelect.Run)
    from harness import selectcheck
    selectcheck.record_and_validate(ctx, 'nested', ctx.pick(500, 8000), 16)
    ctx.exhaustive = False


def replay(ctx, rep):
    import beanquery
    case = rep['case']
    if case.get('kind') == 's2c':
        r = Replayer(ctx)
        r.tabs = case['tabs']
        bm.install_tables(r.conn, case['tabs'], r.st)
        before = len(ctx.violations) + sum(v['n'] for v in ctx.known_hits.values())
        r.replay(case, case['dataset'], case['text'], text_route=True)
        after = len(ctx.violations) + sum(v['n'] for v in ctx.known_hits.values())
        print('replay:', case['text'])
        print('replay:', 'MISMATCH reproduced' if after > before else 'no mismatch')
        return 1 if after > before else 0
    if case.get('kind') == 'c2s' and isinstance(case.get('tables_line'), dict):
        ev = case['event']
        path = ctx.path('replay.ndjson')
        st = bm.StrTab()
        conn = beanquery.Connection()
        bm.install_tables(conn, case['tables_line']['tabs'], st)
        if ev['op'] == 'query':
            ev['nested'] = bm.project(bm.run_raw(conn, bm.build_select(ev['q'], st)), st)
        with open(path, 'w') as f:
            f.write(json.dumps(case['tables_line']) + '\n' + json.dumps(ev) + '\n')
        res = ctx.tlc('Trace_BQLSubquery', 'Trace_BQLSubquery.cfg', leg='C2S', workers=1, env={'TRACE_FILE': path})
        bad = [p for p in res.printed if isinstance(p, dict) and p.get('verdict') == 'rejected']
        print('replay:', ev.get('text'))
        print('replay:', 'MISMATCH reproduced' if bad else 'no mismatch')
        return 1 if bad else 0
    print('replay: case kind not replayable standalone; re-run the check')
    return 2
