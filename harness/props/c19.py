"""C19 -- the shell prints what the API returns; settings are a typed key-value store; CLI options (spec/Shell.tla).

legs: MC   TLC checks, over the full reachable settings space (7 booleans x 2 formats x 3 placeholder strings, both
           entry points) under a 70-letter alphabet of command LINES, that the dispatch/setstr mechanism satisfies the
           declarative property: type invariant, invalid .set / unknown command => error and UNCHANGED settings, valid
           .set changes exactly that field and .set echoes the value normalised, echo round trip, dot-commands never
           executed as statements nor statements as commands, .run = typing the text with the default CLOSE date,
           Main applies -f/-m/-o/-q.  Two non-vacuity runs on the mechanism as shipped (any attribute accepted as a
           setting name; -q never honoured) must be rejected by TLC.
      S2C  every history of <= 2 (quick) / <= 3 (thorough) command lines plus simulated histories of 12 lines, emitted
           by TLC with the settings / error class / output class (or exact echo text) expected after every line, is
           replayed into a fresh BQLShell (batch mode, outfile = StringIO, stdout/stderr captured) through onecmd.
           What a statement prints is compared EXACTLY with RenderWith(spec settings, API result of the text the spec
           names): conn.execute + numberify_results + render_text / render_csv called with the SPEC's settings.
           The 16 option sets of bean-query (short and long spellings) through click.testing.CliRunner on a ledger
           with a load error, -o to a file.
      C2S  random sessions (<= 40 lines) over generated ledgers with generated query directives are recorded (line,
           settings after, error class, output class, exact echo lines) and judged by TLC through the spec's own
           actions (Trace_Shell: the spec tokenises the recorded text itself); for statement lines TLC emits the
           obligation (text to denote, settings to render with / "the API must reject this text") which the driver
           discharges against the API and the recorded output.
"""
import contextlib
import dataclasses
import datetime
import io
import json
import multiprocessing
import os
import random
import re
import shlex
import textwrap

FIELDS = ['boxed', 'expand', 'format', 'narrow', 'nullvalue', 'numberify', 'pager', 'spaced', 'unicode']
LEGACY = {'clear', 'errors', 'exit', 'help', 'history', 'parse', 'quit', 'run', 'set'}
IDENT = set('abcdefghijklmnopqrstuvwxyzABCDEFGHIJKLMNOPQRSTUVWXYZ0123456789_.')

LEDGER_BASE = textwrap.dedent('''\
    option "operating_currency" "USD"
    2022-01-01 open Assets:Checking
    2022-01-01 open Assets:Gold
    2022-01-01 open Expenses:Food
    2022-01-01 open Income:Job
    2022-01-02 * "ACME" "Salary" #work
      Assets:Checking  1000.00 USD
      Income:Job
    2022-01-03 * "Lunch"
      Assets:Checking  -12.50 USD
      Expenses:Food
    2022-01-04 * "Gold"
      Assets:Checking  -300 USD
      Assets:Gold  2 GLD {150 USD}
    2022-01-05 * "Trip" "Dinner"
      Assets:Checking  -20 EUR
      Expenses:Food
    ''')
LEDGER_ERROR = textwrap.dedent('''\
    2022-01-06 * "Does not balance"
      Assets:Checking  1.00 USD
      Expenses:Food  2.00 USD
    ''')


class Machinery(Exception):
    """raised inside workers; turned into core.MachineryError by the parent"""


def query_directives(queries):
    return ''.join('%s query "%s" "%s"\n' % (q['date'], q['name'], q['pre'] + q['post']) for q in queries)


# ---- the world: one ledger, the API connection over it, RenderWith -------------------------------------------
class World:
    def __init__(self, text=None, queries=(), filename=None):
        import beanquery
        from beancount import loader
        self.text = text
        self.queries = {}
        for q in queries:
            self.queries.setdefault(q['name'], q)
        if filename is not None:
            self.entries, self.errors, self.options = loader.load_file(filename)
        else:
            self.entries, self.errors, self.options = loader.load_string(text)
        self.conn = beanquery.connect('beancount:', entries=self.entries, errors=self.errors, options=self.options)
        self._results = {}
        self._renders = {}
        self.tables_listing = '\n'.join(sorted(n for n in self.conn.tables if n)) + '\n'

    def make_shell(self, f, m):
        from beanquery import shell
        sh = shell.BQLShell(None, io.StringIO(), format=f, numberify=m)
        sh.context.attach('beancount:', entries=self.entries, errors=self.errors, options=self.options)
        sh._extract_queries(self.entries)   # as beanquery/shell_test.py drives it
        return sh

    def api_result(self, text):
        """(desc, rows) of conn.execute(text) or the beanquery.Error it raises; cached: the ledger does not change"""
        import beanquery
        if text not in self._results:
            try:
                cur = self.conn.execute(text)
                self._results[text] = (cur.description, cur.fetchall())
            except beanquery.Error as ex:
                self._results[text] = ex
        return self._results[text]

    def api_rejects(self, text):
        return isinstance(self.api_result(text), Exception)

    def render_with(self, vec, text):
        """RenderWith(settings, Denote(text)) with the SPEC's settings (vec = the spec's projection of them)"""
        from beanquery.numberify import numberify_results
        from beanquery.query_render import render_csv, render_text
        st = decode_vec(vec)
        key = (text, tuple(v for k, v in sorted(st.items()) if k != 'pager'))
        if key in self._renders:
            return self._renders[key]
        res = self.api_result(text)
        if isinstance(res, Exception):
            raise Machinery('the API rejects %r which the specification renders: %r' % (text, res))
        desc, rows = res
        dcontext = self.conn.options['dcontext']
        if st['numberify']:
            desc, rows = numberify_results(desc, rows, dcontext.build())
        out = io.StringIO()
        if st['format'] == 'text':
            if not rows:
                out.write('(empty)\n')
            else:
                render_text(desc, rows, dcontext, out, expand=st['expand'], boxed=st['boxed'], spaced=st['spaced'],
                            nullvalue=st['nullvalue'], narrow=st['narrow'], unicode=st['unicode'])
        elif st['format'] == 'csv':
            render_csv(desc, rows, dcontext, out, expand=st['expand'], nullvalue=st['nullvalue'])
        else:
            raise Machinery('format %r unknown to the driver' % st['format'])
        self._renders[key] = out.getvalue()
        return self._renders[key]


def decode_vec(vec):
    st = {}
    for name, v in zip(FIELDS, vec):
        if v.startswith('b:'):
            st[name] = v == 'b:true'
        elif v.startswith('s:'):
            st[name] = v[2:]
        else:
            raise Machinery('bad settings projection %r' % v)
    return st


def proj(v):
    if isinstance(v, bool):
        return 'b:true' if v else 'b:false'
    if isinstance(v, str):
        return 's:' + v
    return '?:%s:%r' % (type(v).__name__, v)


def settings_vec(sh):
    st = sh.settings
    try:
        d = st.todict()
    except Exception:  # noqa
        d = dataclasses.asdict(st)
    if list(d) != FIELDS:
        return ['?fields:' + ','.join(d)]
    return [proj(d[k]) for k in FIELDS]


# ---- observing one command ------------------------------------------------------------------------------------
class Obs:
    __slots__ = ('out', 'stdout', 'stderr', 'exc', 'vec')


def observe(sh, line):
    sh.outfile.seek(0)
    sh.outfile.truncate(0)
    so, se = io.StringIO(), io.StringIO()
    o = Obs()
    o.exc = None
    with contextlib.redirect_stdout(so), contextlib.redirect_stderr(se):
        try:
            sh.onecmd(line)
        except Exception as ex:  # noqa
            o.exc = ex
    o.out, o.stdout, o.stderr = sh.outfile.getvalue(), so.getvalue(), se.getvalue()
    o.vec = settings_vec(sh)
    return o


def err_class(o):
    import beanquery
    if o.exc is not None:
        return 'raise' if isinstance(o.exc, beanquery.Error) else 'crash:' + type(o.exc).__name__
    lines = [x for x in o.stderr.splitlines() if x.strip() and not x.startswith('warning:')]
    if not lines:
        return 'none'
    if lines[0].startswith('error:'):
        return 'error'
    return 'stderr:' + lines[0][:40]


_KV = re.compile(r'^[A-Za-z_][A-Za-z_0-9]*: .+$')


def out_class(o, world):
    """observation-based class of what a command printed (no knowledge of the command)"""
    t = o.out
    if not t and not o.stdout:
        return 'none', []
    if not t:
        return ('names' if sorted(o.stdout.split('\n')[:-1]) == sorted(world.queries) else 'stdout'), []
    if o.stdout:
        return 'mixed', []
    lines = t.split('\n')[:-1]
    if len(lines) <= 12 and all(_KV.match(x) for x in lines):
        return 'kv', lines
    if t == world.tables_listing:
        return 'tables', []
    if t.startswith('parsed statement\n'):
        return 'explain', []
    if t.startswith(('table ', 'structured type ')):
        return 'describe', []
    return 'text', []


def line_key(line, world):
    """stable label of what a line is, for violation keys only"""
    from beanquery import shell
    s = line.strip()
    if not s:
        return 'empty'
    if s[0] not in IDENT:
        return 'statement:leading-nonident'
    w = s.split()
    i = 0
    while i < len(s) and s[i] in IDENT:
        i += 1
    first = s[:i]
    try:
        rest = shlex.split(s[i:])
    except ValueError:
        rest = s[i:].split()
    if s[0] == '.' or first.lower() in LEGACY:
        name = first[1:] if s[0] == '.' else first.lower()
        k = ('.' if s[0] == '.' else 'bare:') + name
        if name == 'set' and rest:
            n = rest[0]
            if n in FIELDS:
                k += ':' + n
            elif hasattr(shell.Settings(), n):
                return 'set:nonfield:%s:%s' % (n, 'assign' if len(rest) > 1 else 'echo')
            else:
                k += ':<unknown>'
            if len(rest) > 2:
                k += ':args'
        if name == 'run' and rest:
            n = ' '.join(shlex.split(s[i:].rstrip('; '))) if s[i:].count('"') % 2 == 0 and s[i:].count("'") % 2 == 0 else ''
            q = world.queries.get(n)
            if q is None:
                k += ':<unknown>'
            elif q['kind'] != 'select' and q['from'] == 'noclose':
                return 'run:close-default:%s' % q['kind']
            else:
                k += ':%s:%s' % (q['kind'], q['from'])
        return k
    return 'statement:' + w[0].lower()[:12]


def check_step(world, step, o):
    """compare one observation with what the spec says; returns [(what, expected, observed)]"""
    bad = []
    if o.vec != step['s']:
        bad.append(('settings', step['s'], o.vec))
    err = err_class(o)
    if err != step['err']:
        bad.append(('err', step['err'], err + ((': %r' % o.exc)[:120] if o.exc is not None else '')))
    k = step['k']
    both = o.out + o.stdout
    if step['err'] == 'raise' and not world.api_rejects(step['a']):
        raise Machinery('the specification says the API rejects %r; it does not' % step['a'])
    if k == 'none':
        if both:
            bad.append(('out', '', both[:300]))
    elif k in ('show', 'echo'):
        exp = ''.join(x + '\n' for x in step['lines'])
        if o.out != exp or o.stdout:
            bad.append(('out', exp, both[:600]))
    elif k == 'render':
        exp = world.render_with(step['s'], step['a'])
        if o.out != exp or o.stdout:
            bad.append(('out', exp[:1500], both[:1500]))
    elif k == 'tables':
        if o.out != world.tables_listing or o.stdout:
            bad.append(('out', world.tables_listing, both[:300]))
    elif k == 'describe':
        names = step['a'].split()
        known = [n for n in names if n in world.conn.tables]
        ok = (o.out.startswith('table %s:\n' % known[0]) and all(('  %s (' % c) in o.out for c in world.conn.tables[known[0]].columns)
              if known else o.out == '')
        if not ok or o.stdout:
            bad.append(('out', 'description of %s' % names, both[:300]))
    elif k == 'explain':
        if not o.out.startswith('parsed statement\n') or 'compiled query\n' not in o.out or o.stdout:
            bad.append(('out', 'explanation of %s' % step['a'], both[:300]))
    elif k == 'runlist':
        if sorted(both.split('\n')[:-1]) != sorted(world.queries) or (both and not both.endswith('\n')):
            bad.append(('out', sorted(world.queries), both[:300]))
    return bad


def replay_history(world, f, m, hist):
    """fresh shell, one onecmd per line, compare after every line; returns [(step index, what, expected, observed)]"""
    sh = world.make_shell(f, m)
    bad = []
    for i, step in enumerate(hist):
        o = observe(sh, step['line'])
        for what, e, g in check_step(world, step, o):
            bad.append((i, what, e, g))
        if bad and bad[-1][0] == i and any(b[0] == i and b[1] == 'settings' for b in bad):
            break      # the settings themselves diverged: later steps would only repeat it
    return bad


# ---- worker pool (TatSu parsing dominates: spread histories / sessions over processes) ---------------------------
_W = {}


def _init_fixed(ledger_text, queries):
    import warnings
    from harness import core
    core.bootstrap_repo()
    warnings.simplefilter('ignore')
    _W['world'] = World(ledger_text, queries)


def _replay_batch(batch):
    world = _W['world']
    out = []
    n = 0
    try:
        for idx, f, m, hist in batch:
            n += len(hist)
            for (i, what, e, g) in replay_history(world, f, m, hist):
                out.append((idx, i, what, e, g))
    except Machinery as ex:
        return ('machinery', str(ex))
    return ('ok', out, n)


def run_pool(ctx, nproc, init, initargs, fn, batches):
    mp = multiprocessing.get_context('fork')
    with mp.Pool(nproc, initializer=init, initargs=initargs) as pool:
        results = pool.map(fn, batches, chunksize=1)
    for r in results:
        if r[0] == 'machinery':
            from harness.core import MachineryError
            raise MachineryError(r[1])
    return results


def replay_histories(ctx, world_args, cases, nproc, what):
    """cases: [(f, m, hist)]; reports violations; returns number of commands replayed"""
    world = World(*world_args)
    items = [(i, c[0], c[1], c[2]) for i, c in enumerate(cases)]
    nb = max(1, min(len(items), nproc * 8))
    batches = [items[i::nb] for i in range(nb)]
    results = run_pool(ctx, nproc, _init_fixed, world_args, _replay_batch, batches)
    ncmd = 0
    nbad = 0
    for r in results:
        ncmd += r[2]
        for idx, i, w, e, g in r[1]:
            f, m, hist = cases[idx]
            key = '%s:%s' % (line_key(hist[i]['line'], world), w)
            nbad += 1
            ctx.violation(key, '%s after %r (history %s)' % (w, hist[i]['line'], [h['line'] for h in hist[:i + 1]]),
                          {'kind': 'hist', 'f': f, 'm': m, 'hist': hist, 'step': i}, 'S2C', e, g)
    ctx.leg('S2C', **{what: len(cases), 'commands_replayed': ncmd, 'mismatching_steps': nbad})
    return ncmd


# ---- the command-line entry point -----------------------------------------------------------------------------------
def check_main(ctx, cases, mainquery):
    import click.testing
    from beanquery import shell
    path = ctx.path('ledger_with_error.beancount')
    with open(path, 'w') as f:
        f.write(LEDGER_BASE + LEDGER_ERROR)
    world = World(filename=path)
    if not world.errors:
        from harness.core import MachineryError
        raise MachineryError('the CLI ledger was meant to have a load error')
    messages = [e.message for e in world.errors]
    init_filename, shell.INIT_FILENAME = shell.INIT_FILENAME, ''
    n = 0
    try:
        for case in cases:
            for long in (False, True):
                outpath = ctx.path('main_%d.out' % n)
                n += 1
                args = []
                args += ['--format=' + case['f']] if long else ['-f', case['f']]
                if case['m']:
                    args.append('--numberify' if long else '-m')
                if case['o']:
                    args += ['--output', outpath] if long else ['-o', outpath]
                if case['q']:
                    args.append('--no-errors' if long else '-q')
                args += [path, mainquery]
                runner = click.testing.CliRunner()
                try:
                    res = runner.invoke(shell.main, args, catch_exceptions=True)
                except Exception as ex:  # noqa
                    ctx.violation('main:exception', 'bean-query %s' % args, {'kind': 'main', 'case': case, 'long': long},
                                  'S2C', 'exit 0', repr(ex))
                    continue
                try:
                    stdout, stderr = res.stdout, res.stderr
                except ValueError:
                    stdout, stderr = res.output, ''
                cs = {'kind': 'main', 'case': case, 'long': long, 'args': args[:-2]}
                ctx.case(json.dumps(cs['args']))
                ctx.traces += 1
                if res.exit_code != 0:
                    ctx.violation('main:exit', 'exit code of bean-query %s' % args[:-2], cs, 'S2C', 0,
                                  '%s %r' % (res.exit_code, res.exception))
                    continue
                vec = [proj(v) for v in (False, False, case['f'], True, '', case['m'], True, False, False)]
                if vec != case['s']:
                    from harness.core import MachineryError
                    raise MachineryError('Main: spec settings %s, driver expected %s' % (case['s'], vec))
                exp = world.render_with(case['s'], case['a'])
                if case['dest'] == 'file':
                    got = open(outpath, newline='').read() if os.path.exists(outpath) else '<no file>'
                    if got != exp:
                        ctx.violation('main:-o:file-content', 'content of the -o file', cs, 'S2C', exp[:800], got[:800])
                    if stdout:
                        ctx.violation('main:-o:stdout-not-empty', 'stdout with -o', cs, 'S2C', '', stdout[:800])
                else:
                    if stdout != exp.replace('\r\n', '\n'):      # click's Result.stdout normalises line terminators
                        ctx.violation('main:stdout:f=%s,m=%s' % (case['f'], case['m']), 'stdout of bean-query', cs, 'S2C',
                                      exp[:800], stdout[:800])
                errlines = [x for x in stderr.splitlines() if x.strip() and not x.startswith('warning:')]
                if case['err'] == 'report':
                    if not all(msg in stderr for msg in messages):
                        ctx.violation('main:error-report-missing', 'ledger errors reported on stderr', cs, 'S2C', messages,
                                      stderr[:400])
                elif errlines:
                    ctx.violation('main:-q:error-report-printed' if case['q'] else 'main:stderr-noise',
                                  '-q suppresses the ledger error report', cs, 'S2C', '', stderr[:400])
    finally:
        shell.INIT_FILENAME = init_filename
    ctx.leg('S2C', cli_runs=n)


# ---- C2S: generated ledgers, random sessions ----------------------------------------------------------------------------
ACCOUNTS = ['Assets:Bank', 'Assets:Cash', 'Assets:Broker', 'Expenses:Food', 'Expenses:Rent', 'Income:Salary',
            'Liabilities:Card']
CURRENCIES = ['USD', 'EUR', 'CAD']
WORDS = ['Rent', 'Lunch', 'Salary', 'Coffee', 'Books', 'Train', 'Gift', 'Dinner out', 'Refund']
PAYEES = ['ACME', 'Corner Shop', 'Landlord', 'SBB']


def gen_ledger(rng):
    """-> (ledger text, query records in the spec's vocabulary, statement pool)"""
    d0 = datetime.date(2021, 12, 27)
    lines = ['option "operating_currency" "USD"']
    for a in ACCOUNTS:
        lines.append('2021-12-01 open %s' % a)
    days = sorted(rng.randint(0, 24) for _ in range(rng.randint(6, 14)))
    for dd in days:
        date = d0 + datetime.timedelta(days=dd)
        payee = rng.choice(PAYEES) if rng.random() < 0.6 else None
        narr = rng.choice(WORDS)
        tag = ' #%s' % rng.choice(['trip', 'work']) if rng.random() < 0.3 else ''
        head = '%s * %s"%s"%s' % (date, '"%s" ' % payee if payee else '', narr, tag)
        lines.append(head)
        if rng.random() < 0.2:
            n = rng.randint(1, 5)
            px = rng.choice(['12.50', '7', '101.25'])
            lines.append('  Assets:Broker  %d STK {%s USD}' % (n, px))
            lines.append('  Assets:Bank')
        else:
            a, b = rng.sample(ACCOUNTS, 2)
            amt = '%d.%02d' % (rng.randint(1, 1500), rng.choice([0, 0, 50, 25, 99])) if rng.random() < 0.7 else str(rng.randint(1, 90))
            lines.append('  %s  %s%s %s' % (a, rng.choice(['', '-']), amt, rng.choice(CURRENCIES)))
            lines.append('  %s' % b)
    mid = lambda: str(d0 + datetime.timedelta(days=rng.randint(3, 22)))  # noqa
    froms = ['year = 2022', 'year >= 2021', 'month = 1', 'day > 3']
    targets = [('account, position', ''), ('date, payee, position', ''), ('account, sum(position) AS total', ' GROUP BY account'),
               ('narration, number', ' WHERE number > 10')]
    templates = []
    for _ in range(3):
        t, post = rng.choice(targets)
        templates.append(('SELECT %s FROM %s' % (t, rng.choice(froms)), post, 'select', 'noclose'))
    t, post = rng.choice(targets)
    templates.append(('SELECT %s FROM %s CLOSE ON %s' % (t, rng.choice(froms), mid()), post, 'select', 'close'))
    templates.append(('SELECT %s FROM %s CLOSE' % (t, rng.choice(froms)), post, 'select', 'close'))
    templates.append(('SELECT %s' % t, post, 'select', 'none'))
    templates.append(('SELECT %s FROM OPEN ON %s' % (t, mid()), ' CLEAR' + post, 'select', 'noclose'))
    templates.append(('SELECT %s FROM %s OPEN ON %s' % (t, rng.choice(froms), mid()), post, 'select', 'noclose'))
    templates.append(('SELECT nonesuch FROM %s' % rng.choice(froms), '', 'select', 'noclose'))
    templates.append(('SELECT account FROM #accounts', '', 'select', 'none'))
    templates.append(('BALANCES FROM %s' % rng.choice(froms), '', 'balances', 'noclose'))
    templates.append(('BALANCES', '', 'balances', 'none'))
    templates.append(("JOURNAL 'Bank' FROM %s" % rng.choice(froms), '', 'journal', 'noclose'))
    rng.shuffle(templates)
    names = ['q%d' % i for i in range(1, 9)] + ['home', 'taxes-2022', 'my query', 'Set', 'run']
    rng.shuffle(names)
    queries = []
    for (pre, post, kind, frm), name in zip(templates[:rng.randint(4, 8)], names):
        queries.append({'name': name, 'date': mid(), 'pre': pre, 'post': post, 'kind': kind, 'from': frm})
    text = '\n'.join(lines) + '\n' + query_directives(queries)
    pool = [q['pre'] + q['post'] for q in queries if q['kind'] != 'print'] + [
        'BALANCES', "JOURNAL 'Food'", 'JOURNAL', 'SELECT 1 AS x FROM #', 'select account, position where number < 0',
        "SELECT account WHERE account = 'Nope'", 'BALANCES FROM year = 2022 CLOSE ON %s' % mid(),
        "SELECT payee, tags WHERE payee = 'ACME'", 'frobnicate the ledger', 'SELECT FROM', 'SELECT nonesuch', 'tables',
        'describe postings', '/* c */ BALANCES', "SELECT DISTINCT account FROM year = 2022 OPEN ON %s" % mid()]
    return text, queries, pool


TRUTHY = ['1', 'true', 't', 'yes', 'y', 'on']
FALSY = ['0', 'false', 'f', 'no', 'n', 'off']
BADBOOL = ['', '2', 'maybe', 'tru', 'yess', 'o n', '-1', 'None', 'truefalse', '10', 'of']
BADNAMES = ['bogus', 'Boxed', 'box', 'formats', 'FORMAT', 'null', 'todict', 'getstr', 'setstr', '_parse_bool',
            '_parse_format', '__doc__', '__iter__']
UNKNOWN_CMDS = ['.frob', '.sets', '.SET boxed true', '.Set', '.select 1', '.SELECT 1 AS x FROM #', '.tablez', '.balances',
                '.print', '.journal', '.runn q1', '.set.boxed true', '.x', '.describ postings', '.explains SELECT 1']


def quote(rng, v, force=False):
    if force or v == '' or ' ' in v or rng.random() < 0.15:
        q = rng.choice('\'"')
        return q + v + q
    return v


def randcase(rng, v):
    return ''.join(c.upper() if rng.random() < 0.3 else c for c in v)


def gen_line(rng, queries, pool):
    r = rng.random()
    dot = '.' if rng.random() < 0.9 else ''
    setw = dot + ('set' if dot else randcase(rng, 'set'))
    boolfields = [f for f in FIELDS if f not in ('format', 'nullvalue')]
    if r < 0.30:      # valid .set
        k = rng.random()
        if k < 0.65:
            v = randcase(rng, rng.choice(TRUTHY + FALSY))
            if rng.random() < 0.2:
                v = ' ' * rng.randint(0, 2) + v + ' ' * rng.randint(1, 2)
            return '%s %s %s' % (setw, rng.choice(boolfields), quote(rng, v))
        if k < 0.8:
            return '%s format %s' % (setw, quote(rng, rng.choice(['text', 'csv'])))
        v = ''.join(rng.choice('abXY019-_*. ') for _ in range(rng.randint(0, 5)))
        return '%s nullvalue %s' % (setw, quote(rng, v, force=v.startswith('-') and False))
    if r < 0.42:      # invalid .set
        k = rng.random()
        if k < 0.35:
            return '%s %s %s' % (setw, rng.choice(boolfields), quote(rng, rng.choice(BADBOOL)))
        if k < 0.5:
            return '%s format %s' % (setw, quote(rng, rng.choice(['TEXT', 'html', 'csv ', ' text', 'txt', ''])))
        if k < 0.85:
            n = rng.choice(BADNAMES)
            return '%s %s %s' % (setw, n, quote(rng, rng.choice(['x', 'true', '1', 'text'])))
        return '%s %s %s %s' % (setw, rng.choice(FIELDS), rng.choice(['true', 'csv']), rng.choice(['false', 'x', "''"]))
    if r < 0.52:      # show / echo
        k = rng.random()
        if k < 0.5:
            return setw + ' ' * rng.randint(0, 2)
        if k < 0.85:
            return '%s %s' % (setw, rng.choice(FIELDS))
        return '%s %s' % (setw, rng.choice(BADNAMES))
    if r < 0.72:      # statements
        s = rng.choice(pool)
        if rng.random() < 0.2:
            s = s + ';'
        if rng.random() < 0.2:
            s = ' ' * rng.randint(1, 3) + s + ' ' * rng.randint(0, 2)
        if rng.random() < 0.1 and s.startswith(('SELECT', 'BALANCES', 'JOURNAL')):
            w = s.split(' ', 1)
            s = w[0].lower() + (' ' + w[1] if len(w) > 1 else '')
        return s
    if r < 0.86:      # .run
        runw = dot + ('run' if dot else randcase(rng, 'run'))
        k = rng.random()
        names = [q['name'] for q in queries]
        if k < 0.7:
            n = rng.choice(names)
            return '%s %s%s' % (runw, quote(rng, n), rng.choice(['', '', ';', ' ;']))
        if k < 0.85:
            return '%s %s' % (runw, rng.choice(['nothere', 'Q1', 'q', 'home2']))
        if k < 0.93:
            return runw
        return '%s %s %s' % (runw, rng.choice(names).split()[0], rng.choice(names).split()[0])
    if r < 0.92:
        return rng.choice(['.tables', '.tables x', '.describe postings', '.describe accounts entries', '.describe nonesuch',
                           '.explain SELECT 1 AS x FROM #', '.explain ' + rng.choice(pool), '.errors', '.reload'])
    if r < 0.98:
        return rng.choice(UNKNOWN_CMDS)
    return rng.choice(['', ' ', '   '])


def _record_batch(args):
    seed, nsessions, maxlen = args
    rng = random.Random(seed)
    text, queries, pool = gen_ledger(rng)
    try:
        world = World(text, queries)
    except Exception as ex:  # noqa
        return ('machinery', 'generated ledger does not load: %r' % ex)
    if world.errors:
        return ('machinery', 'generated ledger has errors: %s' % world.errors[:2])
    sessions = []
    for _ in range(nsessions):
        f, m = rng.choice(['text', 'text', 'csv']), rng.random() < 0.3
        sh = world.make_shell(f, m)
        evs = []
        for _ in range(rng.randint(5, maxlen)):
            line = gen_line(rng, queries, pool)
            o = observe(sh, line)
            k, lines = out_class(o, world)
            evs.append(({'op': 'cmd', 'line': line, 's': o.vec, 'err': err_class(o), 'k': k, 'lines': lines},
                        o.out, (repr(o.exc)[:200] if o.exc is not None else o.stderr[:200])))
        sessions.append((f, m, evs))
    return ('ok', text, queries, sessions)


def _init_plain():
    import warnings
    from harness import core
    core.bootstrap_repo()
    warnings.simplefilter('ignore')


def c2s(ctx, nledgers, per_ledger, maxlen, nproc):
    from harness.core import MachineryError
    seeds = [ctx.rng.randrange(1 << 30) for _ in range(nledgers)]
    results = run_pool(ctx, nproc, _init_plain, (), _record_batch, [(s, per_ledger, maxlen) for s in seeds])
    path = ctx.path('shell_trace.ndjson')
    meta = {}         # line number (1-based) -> (ledger index, raw outfile text, stderr/exception, session start line)
    ledgers = []
    nev = 0
    tid = 0
    with open(path, 'w') as fh:
        for li, r in enumerate(results):
            _, text, queries, sessions = r
            ledgers.append((text, queries))
            for f, m, evs in sessions:
                nev += 1
                start = nev
                fh.write(json.dumps({'op': 'begin', 'tid': tid, 'f': f, 'm': m, 'queries': queries}) + '\n')
                for ev, raw, errtext in evs:
                    nev += 1
                    ev['tid'] = tid
                    fh.write(json.dumps(ev) + '\n')
                    meta[nev] = (li, raw, errtext, start)
                tid += 1
    with open(path) as fh:
        all_lines = fh.read().split('\n')
    ctx.sample({'leg': 'C2S', 'first_events': [json.loads(x) for x in all_lines[1:4]]})
    res = ctx.tlc('Trace_Shell', 'Trace_Shell.cfg', leg='C2S', workers=1, env={'TRACE_FILE': path},
                  timeout=ctx.pick(600, 3600))
    if res.violated:
        ctx.violation('trace-invariant:' + ','.join(res.violated), 'an invariant of Shell fails in a state of a recorded session',
                      {'kind': 'trace-invariant', 'behaviour': res.behaviour[-3000:]}, 'C2S')
    elif res.post_failed or res.depth - 1 != nev:
        raise MachineryError('trace not consumed: depth %d, events %d (%s)' % (res.depth, nev, res.errors[:2]))
    worlds = {}

    def world_of(li):
        if li not in worlds:
            worlds[li] = World(*ledgers[li])
        return worlds[li]

    def session_lines(n):
        start = meta[n][3]
        return [json.loads(x)['line'] for x in all_lines[start:n]]

    rejected = [p for p in res.printed if isinstance(p, dict) and p.get('verdict') == 'rejected']
    obligations = [p for p in res.printed if isinstance(p, dict) and 'ob' in p]
    for rj in rejected:
        n = rj['line']
        li, raw, errtext, start = meta[n]
        ev = json.loads(all_lines[n - 1])
        what = 'settings' if ev['s'] != rj['exp_s'] else 'err' if ev['err'] != rj['exp_err'] else 'out'
        key = '%s:%s' % (line_key(ev['line'], world_of(li)), what)
        ctx.violation(key, 'recorded command %r not explained by the specification (%s)' % (ev['line'], what),
                      {'kind': 'session', 'ledger': ledgers[li][0], 'queries': ledgers[li][1],
                       'f': json.loads(all_lines[start - 1])['f'], 'm': json.loads(all_lines[start - 1])['m'],
                       'lines': session_lines(n), 'expected': {k: rj[k] for k in rj if k.startswith('exp_')}},
                      'C2S', {k: rj[k] for k in rj if k.startswith('exp_')},
                      {'s': ev['s'], 'err': ev['err'], 'k': ev['k'], 'lines': ev['lines'], 'raw': raw[:300], 'stderr': errtext})
    nren = nrej = 0
    for ob in obligations:
        n = ob['line']
        li, raw, errtext, start = meta[n]
        world = world_of(li)
        ev = json.loads(all_lines[n - 1])
        case = {'kind': 'session', 'ledger': ledgers[li][0], 'queries': ledgers[li][1],
                'f': json.loads(all_lines[start - 1])['f'], 'm': json.loads(all_lines[start - 1])['m'],
                'lines': session_lines(n),
                'expected': {'exp_s': ob['s'], 'exp_err': 'none' if ob['ob'] == 'render' else 'raise',
                             'exp_k': 'render' if ob['ob'] == 'render' else 'none', 'exp_a': ob['text'], 'exp_lines': []}}
        if ob['ob'] == 'render':
            nren += 1
            res_api = world.api_result(ob['text'])
            if isinstance(res_api, Exception):
                # the shell printed something for a text the API rejects
                ctx.violation('%s:api-rejects' % line_key(ev['line'], world), 'the shell renders %r, the API rejects it' % ob['text'],
                              case, 'C2S', repr(res_api), raw[:300])
                continue
            exp = world.render_with(ob['s'], ob['text'])
            ctx.case(json.dumps([li, ob['text'], ob['s']]))
            if raw != exp:
                ctx.violation('%s:out' % line_key(ev['line'], world),
                              'output of %r differs from RenderWith(spec settings, API result of %r)' % (ev['line'], ob['text']),
                              case, 'C2S', exp[:1500], raw[:1500])
        else:
            nrej += 1
            if not world.api_rejects(ob['text']):
                ctx.violation('%s:err' % line_key(ev['line'], world), 'the shell fails on %r which the API accepts' % ob['text'],
                              case, 'C2S', 'rendering', errtext)
    ctx.case('c2s-lines', n=nev)
    ctx.traces += tid
    ctx.leg('C2S', ledgers=nledgers, sessions=tid, events=nev, rejected_lines=len(rejected), render_obligations=nren,
            reject_obligations=nrej, what='random sessions <= %d lines over generated ledgers' % maxlen)
    if not nren or not nrej:
        raise MachineryError('vacuity: no render/reject obligation was emitted')


# ---- entry points ----------------------------------------------------------------------------------------------------------
def spec_constants(ctx):
    from harness.core import MachineryError
    res = ctx.tlc('Gen_Shell', 'Gen_ShellMain.cfg', leg='GEN-main', workers=1)
    consts = [p for p in res.printed if 'queries' in p]
    mains = [p for p in res.printed if 'dest' in p]
    if len(consts) != 1 or len(mains) != 16:
        raise MachineryError('Gen_ShellMain: expected 1 constants line and 16 option sets, got %d / %d' % (len(consts), len(mains)))
    return consts[0], mains


def verify_assumptions(ctx, consts, world):
    """what the spec takes as given about the inputs must agree with the public API"""
    from beanquery import parser, shell
    from harness.core import MachineryError
    if sorted(consts['formats']) != sorted(shell.FORMATS):
        raise MachineryError('Formats of the spec %s, render plugins %s' % (consts['formats'], sorted(shell.FORMATS)))
    if consts['fields'] != FIELDS or [f.name for f in dataclasses.fields(shell.Settings)] != FIELDS:
        ctx.violation('settings:fields', 'the nine settings', {'kind': 'fields'}, 'S2C', FIELDS,
                      [f.name for f in dataclasses.fields(shell.Settings)])
    for q in consts['queries']:
        text = q['pre'] + q['post']
        try:
            st = parser.parse(text)
        except Exception as ex:  # noqa
            raise MachineryError('query directive %r does not parse: %r' % (text, ex))
        kind = type(st).__name__.lower()
        fc = getattr(st, 'from_clause', None)
        frm = 'none' if not isinstance(fc, parser.ast.From) else ('close' if fc.close else 'noclose')
        if (kind, frm) != (q['kind'], q['from']):
            raise MachineryError('query %s: spec says %s/%s, the parser %s/%s' % (q['name'], q['kind'], q['from'], kind, frm))
    for t in consts['bad']:
        if not world.api_rejects(t):
            raise MachineryError('BadStmts: the API accepts %r' % t)
    names = sorted(e.name for e in world.entries if type(e).__name__ == 'Query')
    if names != sorted(q['name'] for q in consts['queries']):
        raise MachineryError('ledger query directives %s' % names)
    # every render setting must matter for at least one statement of the alphabet (else the comparison is blind to it)
    base = ['b:false', 'b:false', 's:text', 'b:true', 's:', 'b:false', 'b:true', 'b:false', 'b:false']
    stmts = [ln for ln in consts['lines'] if ln.strip() and line_key(ln, world).startswith('statement:')
             and ln.strip()[0] in IDENT and not world.api_rejects(ln.strip())]
    flips = {'boxed': 'b:true', 'expand': 'b:true', 'format': 's:csv', 'narrow': 'b:false', 'nullvalue': 's:NULL',
             'numberify': 'b:true', 'spaced': 'b:true', 'unicode': 'b:true'}
    for name, v in flips.items():
        vec = list(base)
        vec[FIELDS.index(name)] = v
        if not any(world.render_with(vec, s.strip()) != world.render_with(base, s.strip()) for s in stmts):
            raise MachineryError('vacuity: setting %s changes the rendering of no statement of the alphabet' % name)


def run(ctx):
    from harness.core import MachineryError
    try:
        _run(ctx)
    except Machinery as ex:
        raise MachineryError(str(ex)) from ex


def _run(ctx):
    from harness.core import MachineryError
    ctx.rule = ('S2C: every history of <= 2/3 command lines over the 71/32-letter alphabets (each a distinct sequence) plus '
                'simulated 12-line histories; non-trivial = some line changes a setting, prints, or errs.  C2S: recorded lines of '
                'random sessions (<= 40 lines, generated ledgers and query directives), plus one evaluation per discharged '
                'render obligation (distinct (ledger, text, settings))')
    ctx.assumptions += [
        'batch (non-interactive) mode: BQLShell(None, StringIO()) + attach(entries) + onecmd, as shell_test.py drives it; main() via CliRunner',
        'lines hold printable ASCII without tabs, line terminators or backslashes; quotes only as balanced shell quotes around a word',
        'RenderWith is instantiated by the driver: conn.execute + numberify_results + query_render.render_text/render_csv '
        'called with the settings of the SPEC state; `(empty)` for a text result without rows',
        'the deprecation warning of bare commands is not part of the property (Python shows it once per process)',
        'error messages are compared as a class (an "error:" line on stderr / a beanquery.Error raised by a statement), `.set` echoes exactly',
        'PRINT statements, .help/.errors/.history/.exit and `.run *` are outside the checked domain',
        'TLC 1.8, Json/IOUtils community modules, CPython 3.12, click CliRunner']
    legs = getattr(ctx, 'only_legs', None)
    nproc = min(ctx.pick(8, 14), os.cpu_count() or 4)

    # ---- MC
    if not legs or 'MC' in legs:
        res = ctx.tlc('MC_Shell', 'MC_Shell.cfg', leg='MC', coverage=True,
                      must_cover=('StartWith', 'Main', 'Empty', 'Query', 'SetCmd', 'Run', 'Tables', 'Describe', 'Explain', 'Unknown'))
        if res.violated:
            ctx.violation('spec:' + ','.join(res.violated), 'TLC violates the property on the mechanism',
                          {'kind': 'spec', 'behaviour': res.behaviour[:3000]}, 'MC')
        ctx.tlc('MC_Shell', 'MC_Shell_shipped_attr.cfg', leg='MC-nonvacuity', expect_violation='InvalidChangesNothing', workers=2)
        ctx.tlc('MC_Shell', 'MC_Shell_shipped_q.cfg', leg='MC-nonvacuity', expect_violation='MainQuiet', workers=2)

    # ---- S2C
    consts, mains = spec_constants(ctx)
    ledger_text = LEDGER_BASE + query_directives(consts['queries'])
    world_args = (ledger_text, consts['queries'])
    world = World(*world_args)
    if world.errors:
        raise MachineryError('fixed ledger has errors: %s' % world.errors[:2])
    verify_assumptions(ctx, consts, world)
    if not legs or 'S2C' in legs:
        check_main(ctx, mains, consts['mainquery'])
        cfgs = ['Gen_Shell1.cfg', 'Gen_Shell2q.cfg'] if ctx.quick else ['Gen_Shell1.cfg', 'Gen_Shell2.cfg', 'Gen_Shell3.cfg']
        seen_k = {}
        for cfg in cfgs:
            res = ctx.tlc('Gen_Shell', cfg, leg='GEN')
            cases = []
            for p in res.printed:
                if 'hist' not in p:
                    continue
                cases.append((p['f'], p['m'], p['hist']))
                lines = [h['line'] for h in p['hist']]
                ctx.case(json.dumps([p['f'], p['m'], lines]), nontrivial=any(h['k'] != 'none' or h['err'] != 'none' for h in p['hist'])
                         or len(set(map(tuple, (h['s'] for h in p['hist'])))) > 1)
                for h in p['hist']:
                    seen_k[h['k'] + '/' + h['err']] = seen_k.get(h['k'] + '/' + h['err'], 0) + 1
            if cases:
                ctx.sample({'leg': 'S2C', 'f': cases[0][0], 'm': cases[0][1],
                            'history': [[h['line'], h['s'], h['err'], h['k']] for h in cases[len(cases) // 3][2]]})
            replay_histories(ctx, world_args, cases, nproc, 'histories_' + cfg.replace('.cfg', ''))
            ctx.traces += len(cases)
        # simulated deeper histories: -simulate num is per worker; the emitting invariant fires for every successor of
        # the last state (one per letter); keep a few siblings per walk
        nsim = ctx.pick(640, 8000)
        w = ctx.pick(4, 8)
        keep = ctx.pick(8, 10)
        nletters = len(consts['lines'])
        res = ctx.tlc('Gen_Shell', 'Gen_ShellSim.cfg', leg='GEN-sim', simulate='num=%d' % max(1, nsim // (w * keep)), depth=14,
                      seed=ctx.seed, workers=w)
        groups = {}
        for p in res.printed:
            if 'hist' in p:
                groups.setdefault(json.dumps([p['f'], p['m']] + [h['line'] for h in p['hist'][:-1]]), []).append(p)
        cases = []
        for g in sorted(groups):
            sib = groups[g]
            ctx.rng.shuffle(sib)
            for p in sib[:keep]:
                cases.append((p['f'], p['m'], p['hist']))
                ctx.case(json.dumps([p['f'], p['m'], [h['line'] for h in p['hist']]]))
                for h in p['hist']:
                    seen_k[h['k'] + '/' + h['err']] = seen_k.get(h['k'] + '/' + h['err'], 0) + 1
        if not cases:
            raise MachineryError('simulation produced no history')
        replay_histories(ctx, world_args, cases, nproc, 'simulated_histories')
        ctx.traces += len(cases)
        ctx.leg('S2C', expected_classes=seen_k, walks=len(groups), alphabet=nletters)
        for need in ('render/none', 'none/raise', 'none/error', 'show/none', 'echo/none', 'tables/none', 'explain/none',
                     'describe/none', 'runlist/none', 'none/none'):
            if not seen_k.get(need):
                raise MachineryError('vacuity: no replayed step expected %s' % need)

    # ---- C2S
    if not legs or 'C2S' in legs:
        c2s(ctx, nledgers=ctx.pick(12, 90), per_ledger=ctx.pick(6, 8), maxlen=40, nproc=nproc)
    ctx.exhaustive = False


def replay(ctx, rep):
    case = rep['case']
    kind = case.get('kind')
    if kind == 'hist':
        consts, _ = spec_constants(ctx)
        world = World(LEDGER_BASE + query_directives(consts['queries']), consts['queries'])
        bad = replay_history(world, case['f'], case['m'], case['hist'])
        for b in bad:
            print('replay: step %d (%r): %s expected %r observed %r' % (b[0], case['hist'][b[0]]['line'], b[1], b[2], b[3]))
        print('replay:', 'MISMATCH reproduced' if bad else 'no mismatch')
        return 1 if bad else 0
    if kind == 'session':
        world = World(case['ledger'], case['queries'])
        sh = world.make_shell(case['f'], case['m'])
        o = None
        for line in case['lines']:
            o = observe(sh, line)
        e = case['expected']
        step = {'line': case['lines'][-1], 's': e['exp_s'], 'err': e['exp_err'], 'k': e['exp_k'], 'a': e['exp_a'],
                'lines': e['exp_lines']}
        bad = check_step(world, step, o)
        for b in bad:
            print('replay: %r: %s expected %r observed %r' % (step['line'], b[0], b[1], b[2]))
        print('replay:', 'MISMATCH reproduced' if bad else 'no mismatch')
        return 1 if bad else 0
    if kind == 'main':
        consts, mains = spec_constants(ctx)
        check_main(ctx, [case['case']], consts['mainquery'])
        bad = bool(ctx.violations or ctx.known_hits)
        print('replay:', 'MISMATCH reproduced' if bad else 'no mismatch')
        return 1 if bad else 0
    print('replay: case kind not replayable standalone; re-run the check')
    return 2
