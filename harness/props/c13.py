"""C13 -- FROM ... OPEN ON d CLOSE [ON e] CLEAR presents the ledger as a period report preserving balances
(spec/Summarize.tla).

legs: MC   TLC checks mechanism (conversions; transfer; summarize | truncate; conversions | transfer, then the filter) =>
           the declarative period-report clauses for all small ledgers, all 8 clause subsets, CLOSE bare / dated, dates
           before / inside / after / equal to entry dates.  Non-vacuity: CLEAR before CLOSE, CLEAR before and after CLOSE,
           CLOSE before OPEN, filter before the clauses, and the compile step as shipped before the repair 41a2136 (OPEN +
           bare CLOSE crashed with TypeError) must each be rejected by TLC.
           Nested statements  ... FROM <clauses> WHERE account IN (SELECT account FROM <filter> <clauses>): the mechanism
           compiles both FROM clauses (table.update with the clauses written in each), prepares the table of the subquery
           and then the statement's own; ScopeInv: the FROM clause of the subquery presents the period report of ITS OWN
           clauses (all declarative clauses, every clause subset incl. the empty one) and the statement returns the rows of
           its own report the subquery selects.  Non-vacuity: a subquery inheriting the clauses of the enclosing statement
           when its FROM clause has none, and a statement ranging over the table of its subquery, must be rejected.
           Entry points (doors): the statement arrives through the DB-API, the shell (typed / bean-query command line) or as a
           named query run with .run; the shell's parse hook (action Hook, shell.py BQLShell.parse) rewrites the parsed FROM
           clause before the compiler sees it.  All invariants are stated of Presented(clauses written, door): the clauses
           written, through every door (.run adds CLOSE ON <date of the query directive> to a FROM clause without CLOSE).
           Non-vacuity: a hook that rebuilds the FROM clause without CLEAR, and a hook that overrides a written CLOSE, must be
           rejected.
      S2C  TLC emits (ledger, clauses, filter) with what the statement determines of the returned rows (original postings
           kept, totals of the non-Equity positions, value at cost of all rows, every transaction balanced); the driver
           builds the ledger with beancount.core.data, runs SELECT / BALANCES / JOURNAL through the API and PRINT through
           the shell (output re-read with beancount's parser) and compares the projections.  Nested statements (SELECT and
           BALANCES; subqueries whose selection the statement determines: no clause + any filter, clauses + a filter that
           passes no synthetic transaction, CLOSE before OPEN inside the subquery) are emitted and compared the same way.
           Door cases (every clause subset x shell / .run with the directive dated before, on, after the entries) go through
           BQLShell.onecmd -- the statement text, or `.run NAME` of a query directive holding it -- for SELECT, BALANCES and
           JOURNAL; the rows are taken where the shell fetches them from its connection (rendering is C16's).
      C2S  the beancount example ledger and seeded random ledgers (price conversions, lots at cost, decimals) are run
           through several (d, e, clauses) configurations each; the ledger's postings and the returned rows are logged
           and Trace_Summarize makes TLC evaluate the declarative clauses on every logged case (totals of the full ledger
           are computed by the spec from the logged postings).  Nested statements over pairs of the configurations run on
           the same ledger are logged too; TLC judges them (ScopeOK) against the rows logged for the statement's clauses
           and for the subquery's clauses.  Statements given through the shell and as named queries are logged with their door;
           TLC judges them as the report of the clauses they present there.
"""
import collections
import datetime
import decimal
import io
import json
import os
import re

from harness.core import MachineryError

D = decimal.Decimal
BASE = 1000000
DAY0 = datetime.date(2020, 1, 1)
LOT_DATE = datetime.date(2019, 12, 31)
SYNTH = ('S', 'T', 'C')
KNOWN_BARE = 'from:open+bare-close:TypeError'       # the defect repaired by /repo 41a2136; reported under this key if it returns

COLUMNS = ('entry, date, flag, narration, account, number, currency, cost_number, cost_currency, cost_date, '
           'cost_label, price')


def day(k):
    """model date k -> calendar date (10 days apart so that d - 1 never collides with an entry date)"""
    return DAY0 + datetime.timedelta(days=(k - 1) * 10)


def model_date(d):
    n = (d - DAY0).days
    return n // 10 + 1 if n % 10 == 0 else None


# ---- the environment: options, connection, parsed statements ------------------------------------------------------
_OPTIONS = None


def options():
    global _OPTIONS
    if _OPTIONS is None:
        from beancount import loader
        _, errors, opts = loader.load_string('option "title" "c13"\noption "operating_currency" "USD"\n')
        if errors:
            raise MachineryError('cannot build the options map: %r' % (errors,))
        _OPTIONS = opts
    return _OPTIONS


def connect(entries):
    import beanquery
    return beanquery.connect('beancount:', entries=entries, errors=[], options=options())


_PARSED = {}


def parsed(text):
    from beanquery import parser
    st = _PARSED.get(text)
    if st is None:
        st = _PARSED[text] = parser.parse(text)
    return st


def filter_text(f, datefn):
    n, a = f['n'], f['a']
    return {'none': '', 'orig': "flag = '*'", 'synth': "flag != '*'", 'nott': "narration != 'x%d'" % a,
            'onlyt': "narration = 'x%d'" % a, 'ge': 'date >= %s' % (datefn(a).isoformat() if n == 'ge' else ''),
            'lt': 'date < %s' % (datefn(a).isoformat() if n == 'lt' else '')}[n]


def from_clause(c, datefn=day):
    """c = {open: 0|d, close: -1|0|e, clear: bool, filter: {n, a}} -> the text of the FROM clause ('' if nothing)"""
    parts = []
    f = filter_text(c['filter'], datefn)
    if f:
        parts.append(f)
    if c['open'] > 0:
        parts.append('OPEN ON %s' % datefn(c['open']).isoformat())
    if c['close'] == 0:
        parts.append('CLOSE')
    elif c['close'] > 0:
        parts.append('CLOSE ON %s' % datefn(c['close']).isoformat())
    if c['clear']:
        parts.append('CLEAR')
    return ('FROM ' + ' '.join(parts)) if parts else ''


HEADS = {'select': 'SELECT ' + COLUMNS, 'balances': 'BALANCES', 'journal': 'JOURNAL', 'print': 'PRINT'}
NO_FILTER = {'n': 'none', 'a': 0}
PLAIN = {'open': 0, 'close': -1, 'clear': False, 'filter': NO_FILTER}
NO_SUB = {'on': False, 'c': PLAIN}
TMPL_CLAUSES = 'OPEN ON 2000-01-01 CLOSE ON 2000-01-02 CLEAR'


def sub_of(x):
    """the subquery descriptor of a generated case / a trace event ({'on': False, ..} = a plain statement)"""
    return x.get('sub') or NO_SUB


def same_clauses(a, b):
    return (a['open'], a['close'], a['clear']) == (b['open'], b['close'], b['clear'])


def has_clauses(c):
    return c['open'] > 0 or c['close'] >= 0 or bool(c['clear'])


def tmpl_from_text(f, datefn):
    """the FROM clause of a template: the filter expression (a placeholder date for the date comparisons) and all three
    clauses, to be overwritten by fill_from"""
    if f['n'] in ('ge', 'lt'):
        ft = 'date %s 2000-01-03' % ('>=' if f['n'] == 'ge' else '<')
    else:
        ft = filter_text(f, datefn)
    return ('FROM %s %s' % (ft, TMPL_CLAUSES)).replace('  ', ' ')


def fill_from(frm, c, datefn):
    """template From node -> the From node of clauses c (None if c writes no FROM clause at all)"""
    import dataclasses
    f = c['filter']
    expr = frm.expression
    if f['n'] in ('ge', 'lt'):          # one template per comparison, the date constant filled in
        expr = dataclasses.replace(expr, right=dataclasses.replace(expr.right, value=datefn(f['a'])))
    if expr is None and not has_clauses(c):
        return None
    return dataclasses.replace(frm, expression=expr, open=datefn(c['open']) if c['open'] > 0 else None,
                               close=True if c['close'] == 0 else (datefn(c['close']) if c['close'] > 0 else None),
                               clear=True if c['clear'] else None)


def statement(kind, c, datefn=day, as_text=True, sub=None):
    """the statement for clauses c: its text, or (as_text=False) an AST made from a template parsed once per filter
    expression whose OPEN / CLOSE / CLEAR fields are filled in (TatSu needs 20-50 ms per text).
    sub (on): the statement is nested -- <head> FROM <c> WHERE account IN (SELECT account FROM <sub.c>): every FROM clause
    with its own filter expression and its own subset of the clauses (the subquery always has a FROM clause)"""
    import dataclasses
    nested = bool(sub and sub['on'])
    fc = from_clause(c, datefn)
    text = ('%s %s' % (HEADS[kind], fc)).strip()
    if nested:
        ifc = from_clause(sub['c'], datefn)
        if not ifc:
            raise MachineryError('a subquery without FROM clause is outside the property: %r' % (sub,))
        text += ' WHERE account IN (SELECT account %s)' % ifc
    if as_text or (not fc and not nested):
        return text, text
    if not nested:
        tmpl = parsed('%s %s' % (HEADS[kind], tmpl_from_text(c['filter'], datefn)))
        return dataclasses.replace(tmpl, from_clause=fill_from(tmpl.from_clause, c, datefn)), text
    tmpl = parsed('%s %s WHERE account IN (SELECT account %s)' % (
        HEADS[kind], tmpl_from_text(c['filter'], datefn), tmpl_from_text(sub['c']['filter'], datefn)))
    inner = tmpl.where_clause.right
    inner = dataclasses.replace(inner, from_clause=fill_from(inner.from_clause, sub['c'], datefn))
    return dataclasses.replace(tmpl, from_clause=fill_from(tmpl.from_clause, c, datefn),
                               where_clause=dataclasses.replace(tmpl.where_clause, right=inner)), text


# ---- ledgers --------------------------------------------------------------------------------------------------------
def make_txn(date, narration, postings, flag='*'):
    """postings: [(account, number, currency, cost|None, price|None)] with cost = (number, currency, date, label),
    price = (number, currency)"""
    from beancount.core import amount, data, position
    ps = []
    for acct, num, cur, cost, price in postings:
        ps.append(data.Posting(acct, amount.Amount(D(num), cur),
                               position.Cost(D(cost[0]), cost[1], cost[2], cost[3]) if cost else None,
                               amount.Amount(D(price[0]), price[1]) if price else None, None, None))
    return data.Transaction(data.new_metadata('<c13>', 0), date, flag, None, narration, data.EMPTY_SET, data.EMPTY_SET, ps)


def build_model_ledger(ledger, keys):
    """abstract ledger emitted by TLC -> beancount transactions"""
    out = []
    for tx in ledger:
        ps = []
        for p in tx['ps']:
            kt = keys[p['k'] - 1]
            cost = (kt['kn'], kt['vc'], LOT_DATE, None) if kt['lot'] else None
            price = (p['pn'], p['pcur']) if p['pn'] else None
            ps.append((kt['a'], p['u'][0], kt['c'], cost, price))
        out.append(make_txn(day(tx['date']), 'x%d' % tx['t'], ps, tx['flag']))
    return out


# ---- projection of postings / rows ----------------------------------------------------------------------------------
def lot_of(cost_number, cost_currency, cost_date, cost_label):
    if cost_number is None:
        return ''
    return '%s %s %s %s' % (format(norm(cost_number), 'f'), cost_currency, cost_date, cost_label or '')


def norm(x):
    """Decimal -> canonical Decimal (no exponent noise, no negative zero)"""
    x = D(x)
    return x.normalize() + 0 if x else D(0)


def project(g, date, flag, narration, account, number, currency, cn, cc, cd, cl, price):
    lot = lot_of(cn, cc, cd, cl)
    v = number * cn if cn is not None else number
    if cn is not None:
        w, wc = v, cc
    elif price is not None:
        w, wc = number * price.number, price.currency
    else:
        w, wc = number, currency
    m = re.fullmatch(r'x(\d+)', narration or '')
    return {'g': g, 't': int(m.group(1)) if m and flag not in SYNTH else 0, 'date': date, 'flag': flag,
            'a': account, 'c': currency, 'lot': lot, 'u': norm(number), 'v': norm(v), 'vc': cc if cn is not None else currency,
            'w': norm(w), 'wc': wc, 'px': ('%s %s' % (norm(price.number), price.currency)) if price is not None else ''}


def rows_of_entries(entries):
    """flatten transactions (the ledger itself, or re-parsed PRINT output) into projected rows"""
    out = []
    g = 0
    from beancount.core import data
    for e in entries:
        if not isinstance(e, data.Transaction):
            continue
        g += 1
        for p in e.postings:
            c = p.cost
            out.append(project(g, e.date, e.flag, e.narration, p.account, p.units.number, p.units.currency,
                               getattr(c, 'number', None), getattr(c, 'currency', None), getattr(c, 'date', None),
                               getattr(c, 'label', None), p.price))
    return out


def rows_of_select(rows):
    out = []
    gid = {}
    for r in rows:
        e = r[0]
        g = gid.setdefault(id(e), len(gid) + 1)
        out.append(project(g, *r[1:]))
    return out


def rows_of_print(text):
    """PRINT output -> rows, through beancount's parser (syntax only: no booking, no validation)"""
    from beancount.parser import parser as bparser
    from beancount.core import data
    entries, errors, _ = bparser.parse_string(text)
    if errors:
        return None, ['%s' % (e.message,) for e in errors][:3]
    out = []
    g = 0
    for e in entries:
        if not isinstance(e, data.Transaction):
            continue
        g += 1
        for p in e.postings:
            cs = p.cost
            cn = cc = cd = cl = None
            if cs is not None:
                if getattr(cs, 'number_total', None) is not None or cs.number_per is None or not isinstance(cs.number_per, D):
                    return None, ['cost specification not per-unit: %r' % (cs,)]
                cn, cc, cd, cl = cs.number_per, cs.currency, cs.date, cs.label
            out.append(project(g, e.date, e.flag, e.narration, p.account, p.units.number, p.units.currency,
                               cn, cc, cd, cl, p.price))
    return out, None


class Observed:
    """what one statement returned, projected; err = exception class name on the error path"""
    def __init__(self, rows=None, err=None, msg=''):
        self.rows = rows
        self.err = err
        self.msg = msg


def rows_of_journal(fetched):
    """JOURNAL rows: date, flag, payee, narration, account, position, balance -> rows without price (weight unknown)"""
    out = []
    for (date, flag, payee, narration, account, pos, balance) in fetched:
        c = pos.cost
        r = project(0, date, flag, narration, account, pos.units.number, pos.units.currency,
                    getattr(c, 'number', None), getattr(c, 'currency', None), getattr(c, 'date', None),
                    getattr(c, 'label', None), None)
        r['balance'] = totals_of_inventory(balance)
        out.append(r)
    return out


def totals_of_inventory(inv):
    t = {}
    for pos in inv:
        c = pos.cost
        k = (pos.units.currency, lot_of(getattr(c, 'number', None), getattr(c, 'currency', None),
                                        getattr(c, 'date', None), getattr(c, 'label', None)))
        t[k] = norm(t.get(k, D(0)) + pos.units.number)
    return {k: v for k, v in t.items() if v}


def rows_of_balances(fetched):
    """BALANCES rows: account, sum(position) -> {(account, currency, lot): units}"""
    tot = {}
    for account, inv in fetched:
        for (c, lot), u in totals_of_inventory(inv).items():
            tot[(account, c, lot)] = norm(tot.get((account, c, lot), D(0)) + u)
    return tot


PROJECTIONS = {'select': rows_of_select, 'balances': rows_of_balances, 'journal': rows_of_journal}


# ---- entry points (doors): the DB-API, the shell (a statement typed at the prompt / given on the bean-query command line:
# BQLShell.onecmd), a named query of the ledger run with .run (the statement is the text of a query directive)
API = {'ep': 'api', 'q': 0}
SHELL = {'ep': 'shell', 'q': 0}


def door_of(x):
    return x.get('door') or API


def door_key(via, door):
    return via if door['ep'] == 'api' else '%s@%s' % (via, door['ep'])


class _TapCursor:
    """the cursor the shell renders from; keeps the rows it handed out (the rendering itself is C16's)"""
    def __init__(self, cur):
        self._cur = cur
        self.rows = None

    @property
    def description(self):
        return self._cur.description

    def fetchall(self):
        self.rows = self._cur.fetchall()
        return self.rows

    def __iter__(self):
        self.rows = self._cur.fetchall()
        return iter(self.rows)

    def __getattr__(self, name):
        return getattr(self._cur, name)


class _Tap:
    """stands between the shell and its connection: everything is delegated; the rows of the last execute() are kept, and
    parse() of a text the driver has already built the syntax tree of (a fresh tree per call: the shell may rewrite what it
    parsed) skips TatSu (20-100 ms per statement)"""
    def __init__(self, conn):
        self._conn = conn
        self.cursor = None
        self.trees = {}

    def __getattr__(self, name):
        return getattr(self._conn, name)

    def parse(self, text):
        st = self.trees.pop(text, None)
        return st if st is not None else self._conn.parse(text)

    def execute(self, st, *args, **kwargs):
        self.cursor = None
        self.cursor = _TapCursor(self._conn.execute(st, *args, **kwargs))
        return self.cursor


_DOOR_SHELL = None


def fetch_through(conn, st, text, door, datefn):
    """the rows the statement yields when given through the door (st: text or a syntax tree of it built for this call)"""
    global _DOOR_SHELL
    if door['ep'] == 'api':
        return conn.execute(parsed(st) if isinstance(st, str) else st).fetchall()
    from beanquery import shell
    from beancount.core import data
    if _DOOR_SHELL is None:
        _DOOR_SHELL = shell.BQLShell(None, io.StringIO(), format='csv')
    sh = _DOOR_SHELL
    tap = sh.context = _Tap(conn)
    sh.outfile = io.StringIO()
    if not isinstance(st, str):
        tap.trees[text] = st
    try:
        if door['ep'] == 'shell':
            sh.onecmd(text)
        elif door['ep'] == 'run':
            sh.queries = {'c13': data.Query(data.new_metadata('<c13>', 0), datefn(door['q']), 'c13', text)}
            sh.onecmd('.run c13')
        else:
            raise MachineryError('unknown entry point %r' % (door,))
    finally:
        sh.queries = {}
    if tap.cursor is None or tap.cursor.rows is None:
        raise MachineryError('the shell did not execute %r' % (text,))
    return tap.cursor.rows


def run_statement(conn, via, st, text=None, door=API, datefn=None):
    """SELECT / BALANCES / JOURNAL through a door -> Observed (projected rows, or the exception class on the error path)"""
    import beanquery
    try:
        return Observed(PROJECTIONS[via](fetch_through(conn, st, text, door, datefn)))
    except MachineryError:
        raise
    except beanquery.CompilationError as ex:
        return Observed(err='CompilationError', msg=str(ex))
    except beanquery.ParseError as ex:
        return Observed(err='ParseError', msg=str(ex))
    except Exception as ex:  # noqa
        return Observed(err=type(ex).__name__, msg=str(ex))


def run_select(conn, st, text=None, door=API, datefn=None):
    return run_statement(conn, 'select', st, text, door, datefn)


def run_journal(conn, st, text=None, door=API, datefn=None):
    return run_statement(conn, 'journal', st, text, door, datefn)


def run_balances(conn, st, text=None, door=API, datefn=None):
    return run_statement(conn, 'balances', st, text, door, datefn)


_SHELL = None


def run_print(conn, st, text=None, door=SHELL, datefn=None):
    """PRINT through the shell in batch mode (outfile = buffer); the output is re-read with beancount's parser"""
    if door['ep'] == 'run':
        raise MachineryError('PRINT as a named query is outside the check')
    global _SHELL
    from beanquery import shell
    import beanquery
    if _SHELL is None:
        _SHELL = shell.BQLShell(None, io.StringIO())
    sh = _SHELL
    sh.context = conn
    sh.outfile = io.StringIO()
    try:
        if isinstance(st, str):
            sh.onecmd(st)
        else:
            sh.on_Print(st)
    except beanquery.CompilationError as ex:
        return Observed(err='CompilationError', msg=str(ex))
    except Exception as ex:  # noqa
        return Observed(err=type(ex).__name__, msg=str(ex))
    text = sh.outfile.getvalue()
    rows, errs = rows_of_print(text)
    if rows is None:
        return Observed(err='PrintNotReadable', msg='; '.join(errs))
    return Observed(rows)


RUNNERS = {'select': run_select, 'balances': run_balances, 'journal': run_journal, 'print': run_print}


# ---- comparisons (S2C) ------------------------------------------------------------------------------------------------
def num(pair):
    return norm(D(pair[0]) + D(pair[1]) / BASE)


def totals(rows):
    t = collections.defaultdict(D)
    for r in rows:
        t[(r['a'], r['c'], r['lot'])] += r['u']
    return {k: norm(v) for k, v in t.items() if v}


def values(rows):
    t = collections.defaultdict(D)
    for r in rows:
        t[r['vc']] += r['v']
    return {k: norm(v) for k, v in t.items() if v}


def unbalanced(rows):
    t = collections.defaultdict(D)
    for r in rows:
        t[(r['g'], r['wc'])] += r['w']
    return sorted(str(k) for k, v in t.items() if v)


def model_lot(kt):
    return '' if not kt['lot'] else '%s %s %s ' % (kt['kn'], kt['vc'], LOT_DATE)


def root_of(account):
    return {'Assets': 'A', 'Liabilities': 'L', 'Equity': 'Q', 'Income': 'I', 'Expenses': 'X'}.get(account.split(':')[0], '?')


def expect_of(case, keys):
    """the spec's expectation in the driver's vocabulary"""
    kept = []
    for t, date, flag, k, u, px in case['kept']:
        kt = keys[k - 1]
        kept.append((t, day(date), flag, kt['a'], kt['c'], model_lot(kt), num(u), px))
    tot = {}
    for k, pair in enumerate(case['tot'], 1):
        kt = keys[k - 1]
        if kt['r'] != 'Q' and num(pair):
            tot[(kt['a'], kt['c'], model_lot(kt))] = num(pair)
    val = {cur: num(pair) for cur, pair in case['val'] if num(pair)}
    return kept, tot, val


def kept_of(rows, with_price=True):
    return [(r['t'], r['date'], r['flag'], r['a'], r['c'], r['lot'], r['u'], r['px'] if with_price else None)
            for r in rows if r['flag'] not in SYNTH]


def case_key(case):
    """clauses of the statement [/ in(<clauses of the subquery>:<its filter>)]"""
    sub = sub_of(case)
    k = clause_key(case['c'])
    if sub['on']:
        k += '/in(%s:%s)' % (clause_key(sub['c']), sub['c']['filter']['n'])
    return k


def clause_key(c):
    s = []
    if c['open'] > 0:
        s.append('open')
    if c['close'] == 0:
        s.append('bare-close')
    elif c['close'] > 0:
        s.append('close')
    if c['clear']:
        s.append('clear')
    return '+'.join(s) or 'plain'


def judge_s2c(ctx, case, keys, via, obs, leg='S2C'):
    """compare one observation with the spec's expectation; returns True if it conforms"""
    c = case['c']
    ck = case_key(case)
    nested = sub_of(case)['on']
    info = {'case': case, 'via': via}
    kind = via                              # what the statement is; via: the statement @ the door it was given through
    via = door_key(via, door_of(case))
    if case['status'] == 'rejected':
        if obs.err == 'CompilationError':
            return True
        ctx.violation('from:%s:%s:close-before-open-accepted' % (via, ck), 'CLOSE date before OPEN date must be a CompilationError',
                      info, leg, 'CompilationError', obs.err or 'rows')
        return False
    if obs.err is not None:
        if obs.err == 'TypeError' and c['open'] > 0 and c['close'] == 0 and "'>' not supported" in obs.msg:
            ctx.violation(KNOWN_BARE, 'OPEN with a bare CLOSE must compile', info, leg, 'rows', '%s: %s' % (obs.err, obs.msg))
            return False
        ctx.violation('from:%s:%s:%s' % (via, ck, obs.err), 'statement must execute', info, leg, 'rows', '%s: %s' % (obs.err, obs.msg))
        return False
    kept, tot, val = expect_of(case, keys)
    ok = True
    if kind == 'balances':
        if case['cmp']:
            got = {k: v for k, v in obs.rows.items() if root_of(k[0]) != 'Q'}
            if got != tot:
                ctx.violation('totals:%s:%s:%s' % (via, ck, c['filter']['n']), 'totals of the Assets/Liabilities/Income/Expenses positions',
                              info, leg, fmt(tot), fmt(got))
                ok = False
        return ok
    rows = obs.rows
    with_price = kind != 'journal'
    exp_kept = kept if with_price else [k[:7] + (None,) for k in kept]
    if kept_of(rows, with_price) != exp_kept:
        ctx.violation('kept:%s:%s:%s' % (via, ck, c['filter']['n']), 'original postings inside [d, e), unchanged and in order',
                      info, leg, fmt(exp_kept), fmt(kept_of(rows, with_price)))
        ok = False
    if case['cmp']:
        got = {k: v for k, v in totals(rows).items() if root_of(k[0]) != 'Q'}
        if got != tot:
            ctx.violation('totals:%s:%s:%s' % (via, ck, c['filter']['n']), 'totals of the Assets/Liabilities/Income/Expenses positions',
                          info, leg, fmt(tot), fmt(got))
            ok = False
        if not nested and values(rows) != val:       # a WHERE clause picks Equity rows by account: value not determined
            ctx.violation('equity:%s:%s:%s' % (via, ck, c['filter']['n']), 'value at cost of all rows (difference carried by Equity)',
                          info, leg, fmt(val), fmt(values(rows)))
            ok = False
    phases = [{'S': 1, 'C': 3, 'T': 4}.get(r['flag'], 2) for r in rows]
    if phases != sorted(phases):
        ctx.violation('layout:%s:%s:%s' % (via, ck, c['filter']['n']),
                      'fixed order OPEN, CLOSE, CLEAR: opening balances (S), the period, conversions (C), transfers (T)',
                      info, leg, 'S* original* C* T*', ''.join(r['flag'] for r in rows))
        ok = False
    if with_price and not nested:                    # ... and picks postings out of the transactions
        ub = unbalanced(rows)
        if ub:
            ctx.violation('balance:%s:%s:%s' % (via, ck, c['filter']['n']), 'every returned transaction balances by weight',
                          info, leg, [], ub)
            ok = False
    if kind == 'journal':
        # the register's last running balance is the sum of the rows (C12 / C14 own the running balance itself)
        if rows:
            run = collections.defaultdict(D)
            for r in rows:
                run[(r['c'], r['lot'])] += r['u']
            run = {k: norm(v) for k, v in run.items() if v}
            if rows[-1]['balance'] != run:
                ctx.violation('journal-balance:%s:%s' % (ck, c['filter']['n']), 'JOURNAL running balance = sum of the rows',
                              info, leg, fmt(run), fmt(rows[-1]['balance']))
                ok = False
    return ok


def fmt(x):
    if isinstance(x, dict):
        return {str(k): str(v) for k, v in sorted(x.items(), key=str)}
    if isinstance(x, (list, tuple)):
        return [str(i) for i in x]
    return str(x)


def check_ledger_projection(ctx, case, keys, entries):
    """the driver's projection of the ledger it built must be the spec's own v / w / wc / px (ties the two vocabularies)"""
    rows = rows_of_entries(entries)
    i = 0
    for tx in case['ledger']:
        for p in tx['ps']:
            r = rows[i]
            i += 1
            kt = keys[p['k'] - 1]
            exp = (kt['a'], kt['c'], model_lot(kt), num(p['u']), num(p['v']), kt['vc'], num(p['w']), p['wc'], p['px'])
            got = (r['a'], r['c'], r['lot'], r['u'], r['v'], r['vc'], r['w'], r['wc'], r['px'])
            if exp != got:
                raise MachineryError('ledger projection differs from the spec: %r vs %r' % (exp, got))


def replay_case(ctx, case, keys, vias, leg='S2C', as_text=True):
    entries = build_model_ledger(case['ledger'], keys)
    check_ledger_projection(ctx, case, keys, entries)
    conn = connect(entries)
    ok = True
    for via in vias:
        st, text = statement(via, case['c'], day, as_text or via == 'print', sub_of(case))   # PRINT always as text through the shell
        obs = RUNNERS[via](conn, st, text, door_of(case) if via != 'print' else SHELL, day)
        ok = judge_s2c(ctx, case, keys, via, obs, leg) and ok
    return ok


# ---- S2C in worker processes ------------------------------------------------------------------------------------------
class _Collector:
    """stands in for ctx inside a worker process: records the violations, the parent reports them"""
    def __init__(self):
        self.items = []

    def violation(self, key, clause, case, leg='S2C', expected=None, observed=None):
        self.items.append((key, clause, case, leg, expected, observed))
        return key == KNOWN_BARE


def _s2c_worker(args):
    cases, keys, (print_every, bj_every), offset = args
    col = _Collector()
    n_stmt = collections.Counter()
    for i, case in enumerate(cases):
        vias = ['select']
        through = door_of(case)['ep']
        if sub_of(case)['on']:                    # JOURNAL and PRINT have no WHERE clause
            if (i + offset) % (bj_every // 2) == 0:
                vias.append('balances')
        elif through != 'api':                    # the shell's parse hook handles SELECT, BALANCES and JOURNAL: all three
            if (i + offset) % 4 == 0:
                vias += ['balances', 'journal']
        else:
            if (i + offset) % print_every == 0:
                vias.append('print')
            if (i + offset) % bj_every == 0:          # BALANCES / JOURNAL re-parse their SELECT template on every call (~0.1 s)
                vias += ['balances', 'journal']
        # TatSu needs ~0.1 s per SELECT text: one case in 16 goes through the text (nested, 0.15 s: one in 48)
        as_text = (i + offset) % (48 if sub_of(case)['on'] else 16) == 0
        replay_case(col, case, keys, vias, as_text=as_text)
        for v in vias:
            n_stmt[v] += 1
            if through != 'api':
                n_stmt['%s@%s' % (v, through)] += 1
        n_stmt['as_text'] += as_text or 'print' in vias
    return col.items, dict(n_stmt)


def s2c(ctx, cases, keys, every, procs):
    import multiprocessing as mp
    chunks = [cases[i::procs] for i in range(procs)]
    jobs = [(ch, keys, every, i) for i, ch in enumerate(chunks) if ch]
    if procs > 1:
        with mp.get_context('fork').Pool(len(jobs)) as pool:
            results = pool.map(_s2c_worker, jobs)
    else:
        results = [_s2c_worker(j) for j in jobs]
    stmts = collections.Counter()
    for items, n in results:
        stmts.update(n)
        for (key, clause, case, leg, exp, obs) in items:
            ctx.violation(key, clause, case, leg, exp, obs)
    return dict(stmts)


# ---- C2S: record real executions ----------------------------------------------------------------------------------------
def to_pair(x):
    """Decimal -> [hi, lo] with x = hi + lo / BASE exactly, or None if it does not fit"""
    s = D(x) * BASE
    if s != s.to_integral_value():
        return None
    hi, lo = divmod(int(s), BASE)
    if abs(hi) >= 2 ** 31 - 2:
        return None
    return [hi, lo]


class KeyTable:
    def __init__(self):
        self.index = {}
        self.rows = []

    def key(self, r):
        k = (r['a'], r['c'], r['lot'])
        i = self.index.get(k)
        if i is None:
            i = self.index[k] = len(self.rows) + 1
            self.rows.append([r['a'], root_of(r['a']), r['c'], r['lot'], r['vc']])
        return i


def trace_rows(rows, kt):
    """projected rows -> the trace vocabulary; None if a number is outside the model's domain"""
    out = []
    for r in rows:
        u, v, w = to_pair(r['u']), to_pair(r['v']), to_pair(r['w'])
        if u is None or v is None or w is None:
            return None
        out.append({'t': r['t'], 'date': r['date'].toordinal(), 'flag': r['flag'], 'g': r['g'], 'k': kt.key(r),
                    'u': u, 'v': v, 'w': w, 'wc': r['wc'], 'px': r['px']})
    return out


def ordinal_date(n):
    return datetime.date.fromordinal(n)


def example_ledger(seed, begin, end):
    """the beancount example ledger (realistic: payroll, investments with lots, price conversions, pads, balances);
    narrations are replaced by x<i> so that every original transaction is identifiable in SELECT and PRINT output"""
    import random
    from beancount import loader
    from beancount.core import data
    from beancount.scripts import example
    state = random.getstate()
    random.seed(seed)
    try:
        buf = io.StringIO()
        example.write_example_file(datetime.date(1980, 5, 12), begin, end, True, buf)
    finally:
        random.setstate(state)
    entries, errors, opts = loader.load_string(buf.getvalue())
    out = []
    i = 0
    for e in entries:
        if isinstance(e, data.Transaction):
            i += 1
            e = e._replace(narration='x%d' % i)
        out.append(e)
    return out, opts


ACCOUNTS = ['Assets:Bank:Checking', 'Assets:Bank:Savings', 'Assets:Broker:Cash', 'Assets:Broker:Stock', 'Liabilities:Card',
            'Liabilities:Loan', 'Income:Salary', 'Income:Gains', 'Expenses:Food', 'Expenses:Rent', 'Expenses:Travel',
            'Equity:Opening-Balances', 'Equity:Owner']


def random_ledger(rng, ntx, span):
    """seeded random ledger: 2-3 currencies, price conversions, lots at cost bought and sold, decimals; every transaction
    balances exactly by weight"""
    from beancount.core import data
    d0 = datetime.date(2021, 1, 1) + datetime.timedelta(days=rng.randrange(0, 300))
    dates = sorted(d0 + datetime.timedelta(days=rng.randrange(0, span)) for _ in range(ntx))
    entries = [data.Open(data.new_metadata('<c13>', 0), d0 - datetime.timedelta(days=1), a, None, None) for a in ACCOUNTS]
    lots = []
    q2 = lambda lo, hi: D(rng.randrange(lo * 100, hi * 100)) / 100   # noqa
    cash = lambda: rng.choice(['Assets:Bank:Checking', 'Assets:Bank:Savings', 'Assets:Broker:Cash'])  # noqa
    for i, date in enumerate(dates, 1):
        kind = rng.choice(['pay', 'spend', 'spend', 'fx', 'buy', 'sell', 'fund', 'card', 'split', 'kind'])
        cur = rng.choice(['USD', 'USD', 'EUR', 'CAD'])
        ps = []
        if kind == 'pay':
            x = q2(100, 5000)
            ps = [(cash(), x, cur, None, None), ('Income:Salary', -x, cur, None, None)]
        elif kind == 'spend':
            x = q2(1, 300)
            ps = [(rng.choice(['Expenses:Food', 'Expenses:Rent', 'Expenses:Travel']), x, cur, None, None), (cash(), -x, cur, None, None)]
        elif kind == 'card':
            x = q2(1, 300)
            ps = [(rng.choice(['Expenses:Food', 'Expenses:Travel']), x, cur, None, None), ('Liabilities:Card', -x, cur, None, None)]
        elif kind == 'fund':
            x = q2(100, 9000)
            ps = [(cash(), x, cur, None, None), (rng.choice(['Equity:Opening-Balances', 'Equity:Owner', 'Liabilities:Loan']), -x, cur, None, None)]
        elif kind == 'split':
            x, y = q2(1, 200), q2(1, 200)
            ps = [('Expenses:Food', x, cur, None, None), ('Expenses:Travel', y, cur, None, None), (cash(), -(x + y), cur, None, None)]
        elif kind == 'fx':
            y = q2(10, 900)
            p = q2(1, 3)
            other = rng.choice([c for c in ('USD', 'EUR', 'CAD') if c != cur])
            ps = [(cash(), y, other, None, (p, cur)), (cash(), -(y * p), cur, None, None)]
        elif kind in ('buy', 'kind') or not lots:
            n = D(rng.randrange(1, 40000)) / rng.choice([1, 10, 1000])
            c = q2(5, 400)
            com = rng.choice(['HOOL', 'VTI'])
            lot = (c, 'USD', date if rng.random() < 0.8 else date - datetime.timedelta(days=3), rng.choice([None, None, 'lot%d' % i]))
            lots.append((com, n, lot))
            src = 'Income:Salary' if kind == 'kind' else 'Assets:Broker:Cash'
            if kind == 'kind' and rng.random() < 0.5:
                ps = [('Assets:Broker:Stock', n, com, lot, None), ('Income:Salary', -n, com, lot, None)]   # a lot on Income
            else:
                ps = [('Assets:Broker:Stock', n, com, lot, None), (src, -(n * c), 'USD', None, None)]
        else:
            j = rng.randrange(len(lots))
            com, n, lot = lots[j]
            sold = n if rng.random() < 0.5 else (n / 2).quantize(D('0.001'))
            if sold == 0:
                sold = n
            p = q2(5, 400)
            lots[j] = (com, n - sold, lot)
            if lots[j][1] == 0:
                lots.pop(j)
            ps = [('Assets:Broker:Stock', -sold, com, lot, (p, 'USD')), ('Assets:Broker:Cash', sold * p, 'USD', None, None),
                  ('Income:Gains', -(sold * p - sold * lot[0]), 'USD', None, None)]
        entries.append(make_txn(date, 'x%d' % i, ps, rng.choice(['*', '*', '*', '!'])))
        if rng.random() < 0.1:
            from beancount.core import amount
            entries.append(data.Price(data.new_metadata('<c13>', 0), date, 'EUR', amount.Amount(q2(1, 2), 'USD')))
    entries.sort(key=data.entry_sortkey)
    return entries


def pick_configs(rng, entries, n, with_rejected=True):
    """(open, close, clear) configurations around the ledger's dates: before / on an entry date / between / after, d = e,
    bare CLOSE, every clause subset, and a CLOSE date before the OPEN date"""
    from beancount.core import data
    dates = sorted({e.date for e in entries if isinstance(e, data.Transaction)}) or [datetime.date(2021, 1, 1)]
    first, last = dates[0], dates[-1]

    def some_date():
        r = rng.random()
        if r < 0.1:
            return first - datetime.timedelta(days=rng.randrange(1, 40))
        if r < 0.2:
            return last + datetime.timedelta(days=rng.randrange(1, 40))
        if r < 0.3:
            return rng.choice([first, last, last + datetime.timedelta(days=1)])
        if r < 0.7:
            return rng.choice(dates)
        return rng.choice(dates) + datetime.timedelta(days=rng.choice([-1, 1]))
    out = []
    subsets = [(o, c, cl) for o in (0, 1) for c in (-1, 0, 1) for cl in (False, True)]
    rng.shuffle(subsets)
    while len(out) < n:
        for o, c, cl in subsets:
            d = some_date() if o else None
            e = some_date() if c == 1 else None
            if d and e and e < d and rng.random() < 0.8:
                d, e = e, d
            if d and e and rng.random() < 0.1:
                e = d
            out.append({'open': d.toordinal() if d else 0, 'close': e.toordinal() if e else c, 'clear': cl,
                        'filter': {'n': 'none', 'a': 0}})
            if len(out) >= n:
                break
    return out


def presented(c, door):
    """driver-side bookkeeping only (which recorded case has the same clauses; TLC judges with Summarize!Presented)"""
    if door['ep'] == 'run' and c['close'] < 0 and (has_clauses(c) or c['filter']['n'] != 'none'):
        return dict(c, close=door['q'])
    return c


def record_ledger(ctx, f, lid, entries, opts, configs, exact, print_every, filter_every, counters, n_nested=0, n_doors=0):
    """run the configurations on one ledger; write the 'ledger' line and the 'case' lines; returns the number of lines.
    n_nested: that many nested statements  SELECT .. FROM <co> WHERE account IN (SELECT account FROM <fi> <ci>)  with co, ci
    drawn from the configurations run before on this ledger (and the empty clause subset): TLC judges them against the
    rows recorded for co and for ci.
    n_doors: that many statements given through the shell (typed / command line) or run as a named query (.run, the query
    directive dated on / around the ledger's dates), with the clauses of the configurations run before; TLC judges them as
    the report of the clauses they present there"""
    import beanquery
    rng = ctx.rng
    kt = KeyTable()
    conn = beanquery.connect('beancount:', entries=entries, errors=[], options=opts)
    lp = trace_rows(rows_of_entries(entries), kt)
    if lp is None:
        ctx.skipped += 1
        return 0
    lines = []

    def one(c, via, sub=NO_SUB, door=API):
        as_text = counters['statements'] % 20 == 0          # every 20th statement as text, the others as filled-in ASTs
        if via == 'print':
            door = SHELL
        st, fc = statement(via, c, ordinal_date, as_text, sub)
        obs = RUNNERS[via](conn, st, fc, door, ordinal_date)
        counters['statements'] += 1
        counters['as_text'] += as_text
        counters['nested'] += bool(sub['on'])
        counters['door:' + door['ep']] += via != 'print'
        ev = {'ev': 'case', 'lid': lid, 'id': counters['id'], 'c': c, 'sub': sub, 'door': door, 'via': via, 'err': obs.err or '',
              'msg': obs.msg[:120], 'rows': [], 'text': fc}
        counters['id'] += 1
        if obs.err is None:
            rows = trace_rows(obs.rows, kt)
            if rows is None:
                ctx.skipped += 1
                return None
            ev['rows'] = rows
        lines.append(ev)
        return ev

    dates = sorted({r['date'] for r in lp}) or [737791]

    def some_filter(names):
        fn = rng.choice(names)
        return {'n': fn, 'a': 0 if fn in ('none', 'orig', 'synth') else rng.choice(dates) if fn in ('ge', 'lt') else rng.randrange(1, 6)}
    if n_nested and not any(same_clauses(c, PLAIN) for c in configs):
        configs = configs + [dict(PLAIN)]                 # the empty clause subset: the ledger itself
    based, refused = [], []
    for n, c in enumerate(configs):
        ev = one(c, 'select')
        if ev is not None and ev['err'] == 'CompilationError' and c['open'] > c['close'] > 0:
            refused.append(c)
        if ev is None or ev['err']:
            continue
        based.append(c)
        if n % print_every == 0:
            one(c, 'print')
        if n % filter_every == 0:
            for fn in rng.sample(['orig', 'synth', 'ge', 'lt', 'nott', 'onlyt'], 2):
                a = rng.choice(dates) if fn in ('ge', 'lt') else rng.randrange(1, 6)
                one(dict(c, filter={'n': fn, 'a': a}), rng.choice(['select', 'select', 'print']))
    filters = ['orig', 'synth', 'ge', 'lt', 'nott', 'onlyt']
    for n in range(n_nested if based else 0):
        co = rng.choice(based)
        r = rng.random()
        ci = dict(PLAIN) if r < 0.4 else rng.choice(refused) if r < 0.45 and refused else rng.choice(based)
        fi = some_filter(filters if not has_clauses(ci) else filters + ['none', 'none', 'none'])
        fo = some_filter(['none', 'none', 'none'] + filters)
        one(dict(co, filter=fo), 'select', {'on': True, 'c': dict(ci, filter=fi)})
    around = dates + [dates[0] - 7, dates[-1] + 1, dates[-1] + 30]
    for n in range(n_doors if based else 0):
        c = rng.choice(based)
        if rng.random() < 0.5:
            door = SHELL
        elif c['close'] > 0 and rng.random() < 0.6:       # the query directive carries the CLOSE date the statement leaves out
            door = {'ep': 'run', 'q': c['close']}
            c = dict(c, close=-1)
        else:
            door = {'ep': 'run', 'q': rng.choice(around)}
        # a filter expression is judged against the recorded unfiltered case of the clauses presented
        flt = some_filter(filters) if rng.random() < 0.35 else NO_FILTER
        if not any(same_clauses(presented(dict(c, filter=flt), door), b) for b in based):
            flt = NO_FILTER
        one(dict(c, filter=flt), 'select', NO_SUB, door)
    f.write(json.dumps({'ev': 'ledger', 'lid': lid, 'exact': exact, 'kt': kt.rows, 'lp': lp, 'id': -1}) + '\n')
    for ev in lines:
        f.write(json.dumps(ev) + '\n')
    return 1 + len(lines)


def validate_trace(ctx, path, nlines, what):
    res = ctx.tlc('Trace_Summarize', 'Trace_Summarize.cfg', leg='C2S', workers=1, env={'TRACE_FILE': path},
                  timeout=ctx.pick(600, 3600), jvm=('-Xss64m',))
    rejected = [p for p in res.printed if isinstance(p, dict) and p.get('verdict') == 'rejected']
    with open(path) as f:
        lines = f.read().split('\n')
    ncases = sum(1 for x in lines if x.startswith('{"ev": "case"'))
    for rj in rejected:
        ev = json.loads(lines[rj['line'] - 1])
        c = ev['c']
        failed = rj['failed']
        if failed == ['err:TypeError'] and c['open'] > 0 and c['close'] == 0 and "'>' not supported" in ev['msg']:
            key = KNOWN_BARE
        else:
            key = 'trace:%s:%s:%s:%s' % (door_key(ev['via'], door_of(ev) if ev['via'] != 'print' else API), case_key(ev),
                                         c['filter']['n'], ','.join(failed))
        # the ledger line of that case, for the replay file
        led = next(json.loads(x) for x in lines if x.startswith('{"ev": "ledger"') and json.loads(x)['lid'] == ev['lid'])
        small = len(led['lp']) <= 400
        ctx.violation(key, 'recorded case rejected by the specification: ' + ','.join(failed),
                      {'trace_case': {k: v for k, v in ev.items() if k != 'rows' or small},
                       'ledger': led if small else {'lid': led['lid'], 'postings': len(led['lp'])}, 'what': what}, 'C2S',
                      'accepted', failed)
    if res.violated:
        raise MachineryError('Trace_Summarize: %s' % res.violated)
    if res.post_failed or res.depth - 1 != nlines:
        raise MachineryError('trace not consumed: depth %d, lines %d (%s)' % (res.depth, nlines, res.errors[:2]))
    ctx.traces += ncases - len(rejected)
    return ncases, len(rejected)


def c2s(ctx):
    path = ctx.path('summarize_trace.ndjson')
    counters = collections.Counter()
    nlines = 0
    nled = 0
    with open(path, 'w') as f:
        # the example ledger
        for i in range(ctx.pick(1, 3)):
            begin = datetime.date(2018 + i, 1, 1)
            end = begin + datetime.timedelta(days=ctx.pick(300, 700))
            entries, opts = example_ledger(ctx.seed + i, begin, end)
            configs = pick_configs(ctx.rng, entries, ctx.pick(8, 16))
            nled += 1
            nlines += record_ledger(ctx, f, nled, entries, opts, configs, False, ctx.pick(4, 4), ctx.pick(4, 4), counters,
                                    n_nested=ctx.pick(4, 12), n_doors=ctx.pick(6, 16))
        n_example = counters['id']
        # seeded random ledgers
        for i in range(ctx.pick(32, 500)):
            entries = random_ledger(ctx.rng, ctx.rng.choice([0, 1, 3, 8, 20, 40, 60]), ctx.rng.choice([5, 30, 120]))
            configs = pick_configs(ctx.rng, entries, ctx.pick(12, 16))
            nled += 1
            nlines += record_ledger(ctx, f, nled, entries, options(), configs, True, 3, 3, counters, n_nested=ctx.pick(5, 8),
                                    n_doors=ctx.pick(4, 8))
    with open(path) as f:
        for line in f:
            if line.startswith('{"ev": "case"'):
                ev = json.loads(line)
                if ev['rows']:
                    ctx.sample({'leg': 'C2S', 'from': ev['text'], 'via': ev['via'], 'rows': len(ev['rows']), 'first_rows': ev['rows'][:2]})
                    break
    if not counters['door:shell'] or not counters['door:run']:
        raise MachineryError('vacuity: no recorded statement through the shell / as a named query')
    ctx.case('c2s', n=counters['id'])
    ncases, nrej = validate_trace(ctx, path, nlines, 'example ledger + random ledgers')
    ctx.leg('C2S', ledgers=nled, cases=ncases, example_ledger_cases=n_example, statements=counters['statements'],
            submitted_as_text=counters['as_text'], nested_statements=counters['nested'],
            through_the_shell=counters['door:shell'], run_as_named_query=counters['door:run'],
            rejected=nrej, lines=nlines)


# ---- the check ------------------------------------------------------------------------------------------------------------
# every run of the mechanism is a chain of <= 10 states: a LIFO state queue keeps a few hundred states in memory instead of
# a whole breadth-first level (millions of states in the thorough tier); the search stays exhaustive
LIFO = {'dfs': True, 'jvm': ('-Xmx4g',)}
NESTED_STEPS = ('SubCollect', 'ApplyWhere')
HOOK_STEPS = ('Hook',)
STEPS = ('Arrives', 'Compile', 'OpenConversions', 'OpenTransfer', 'OpenSummarize', 'CloseTruncate', 'CloseConversions',
         'ClearTransfer', 'ApplyFilter')


def run(ctx):
    only = getattr(ctx, 'only_legs', None)
    ctx.rule = ('S2C: one case = (ledger, OPEN arg, CLOSE arg, CLEAR, filter, entry point) emitted by TLC, distinct by construction; '
                'non-trivial = at least one clause present and a non-empty ledger; C2S: one case = one statement run on an '
                'example / random ledger, judged by TLC')
    ctx.assumptions += [
        'original transactions are told from synthetic ones by the flags S / T / C (no ledger transaction carries them)',
        'position totals are per (account, currency, lot); values at cost and weights are exact decimals scaled by 10^6',
        '"the difference being carried by Equity accounts" is read as: valued at cost, the Equity rows offset all other rows '
        'exactly when CLOSE is present, and up to the unconverted remainder of the transactions of the period otherwise',
        '"the clauses apply in the fixed order OPEN, CLOSE, CLEAR" is observed as the layout of the rows: opening balances (S), '
        'the transactions of the period, the conversions entry of CLOSE (C), the transfers of CLEAR (T)',
        'the filter expression refers to transaction-level attributes (date, flag, narration)',
        '"every subset of the three clauses ... combined with any FROM filter expression" is read per FROM clause: a FROM clause '
        'standing in a subquery presents the report of the clauses written in it (the ledger itself for the empty subset), '
        'independently of the clauses of the enclosing statement; a subquery WITHOUT any FROM clause is outside the '
        'statement (never generated)',
        '"every subset of the three clauses" holds whichever entry point the statement is given through: typed into the shell / '
        'given on the bean-query command line it presents exactly the clauses written; a named query run with .run whose FROM '
        'clause has no CLOSE presents them with CLOSE ON <date of its query directive> (the anchor shell.py "default close date '
        'for named queries"); PRINT as a named query is not generated (the hook does not touch PRINT; the statement is silent)',
        'TLC 1.8, Json/IOUtils/SequencesExt community modules, beancount 3.x summarize as installed',
    ]
    # ---- MC
    if not only or 'MC' in only:
        res = ctx.tlc('MC_Summarize', ctx.pick('MC_Summarize.cfg', 'MC_Summarize_thorough.cfg'), leg='MC', **LIFO)
        if res.violated:
            ctx.violation('spec:' + ','.join(res.violated), 'TLC violates the period-report clauses on the mechanism',
                          {'behaviour': res.behaviour[:4000]}, 'MC')
        if not ctx.quick:
            r = ctx.tlc('MC_Summarize', 'MC_Summarize_filters.cfg', leg='MC', **LIFO)
            if r.violated:
                ctx.violation('spec:' + ','.join(r.violated), 'TLC violates the period-report clauses on the mechanism',
                              {'behaviour': r.behaviour[:4000]}, 'MC')
        # the small runs, three at a time (4 TLC workers each)
        def holds(cfg, leg, **kw):
            r = ctx.tlc('MC_Summarize', cfg, leg=leg, **kw)
            if r.violated:
                ctx.violation('spec:' + ','.join(r.violated), 'TLC violates the period-report clauses on the mechanism',
                              {'behaviour': r.behaviour[:4000]}, 'MC')
            return r

        def refuted(cfg, inv, **kw):
            r = ctx.tlc('MC_Summarize', cfg, leg='MC-nonvacuity', workers=4, **kw)
            if not r.violated or (inv and inv not in r.violated):
                raise MachineryError('non-vacuity run %s: expected a counterexample%s, got %s' % (
                    cfg, ' to ' + inv if inv else '', r.violated))
            return r
        jobs = [
            # nested statements: a FROM clause in a subquery presents the report of ITS OWN clauses (ScopeInv), for every clause
            # subset of the statement x every clause subset of the subquery (the empty one included) x filters
            (holds, (ctx.pick('MC_Summarize_nested.cfg', 'MC_Summarize_nested_thorough.cfg'), 'MC'),
             dict(workers=ctx.pick(6, 16), **LIFO)),
            # per-action coverage (vacuity) on small instances: -coverage triples the cost of the big runs
            (holds, ('MC_Summarize_cover.cfg', 'MC-coverage'), dict(must_cover=STEPS, workers=4)),
            (holds, ('MC_Summarize_nested_cover.cfg', 'MC-coverage'), dict(must_cover=STEPS + NESTED_STEPS, workers=4)),
            (refuted, ('MC_Summarize_clearfirst.cfg', 'IncomeInv'), {}), (refuted, ('MC_Summarize_clearalso.cfg', 'LayoutInv'), {}),
            (refuted, ('MC_Summarize_closefirst.cfg', None), {}), (refuted, ('MC_Summarize_filterfirst.cfg', None), {}),
            (refuted, ('MC_Summarize_shipped.cfg', 'CompileInv'), {}),
            # the subquery inherits the clauses of the enclosing statement when its FROM clause has none; the enclosing
            # statement ranges over the table of the subquery
            (refuted, ('MC_Summarize_inherit.cfg', 'ScopeInv'), dict(dfs=True)),
            (refuted, ('MC_Summarize_norestore.cfg', None), dict(dfs=True)),
            # entry points: DB-API / shell / .run (query directive dated 1..5) x every clause subset; the parse hook of the shell
            (holds, (ctx.pick('MC_Summarize_doors.cfg', 'MC_Summarize_doors_thorough.cfg'), 'MC'),
             dict(workers=ctx.pick(6, 16), **LIFO)),
            (holds, ('MC_Summarize_doors_cover.cfg', 'MC-coverage'), dict(must_cover=STEPS + HOOK_STEPS, workers=4)),
            # the hook rebuilds the FROM clause and forgets CLEAR; the hook overrides a CLOSE that is written
            (refuted, ('MC_Summarize_rebuilt.cfg', 'IncomeInv'), {}), (refuted, ('MC_Summarize_override.cfg', None), {}),
        ]
        import concurrent.futures
        with concurrent.futures.ThreadPoolExecutor(3) as pool:
            futs = [pool.submit(fn, *a, **kw) for fn, a, kw in jobs]
            results = [fu.result() for fu in futs]
        if results[0].depth < 14:
            raise MachineryError('vacuity: the nested run is no deeper than a plain statement (depth %d)' % results[0].depth)
    # ---- S2C
    if not only or 'S2C' in only:
        keys = ctx.tlc('Gen_Summarize', 'Gen_SummarizeKeys.cfg', leg='GEN', workers=1).printed[0]['keys']
        res = ctx.tlc('Gen_Summarize', ctx.pick('Gen_Summarize.cfg', 'Gen_SummarizeThorough.cfg'), leg='GEN', **LIFO)
        if res.violated:
            ctx.violation('spec:gen:' + ','.join(res.violated), 'the generator run violates an invariant',
                          {'behaviour': res.behaviour[:4000]}, 'MC')
        cases = [p for p in res.printed if isinstance(p, dict) and 'ledger' in p]
        if not cases:
            raise MachineryError('the generator emitted no case')
        seen = collections.Counter()
        for case in cases:
            c = case['c']
            nontrivial = bool(case['ledger']) and (c['open'] > 0 or c['close'] >= 0 or c['clear'])
            sub = sub_of(case)
            door = door_of(case)
            ctx.case(json.dumps([[[t['date'], [[p['k'], p['u'][0], p['pn']] for p in t['ps']]] for t in case['ledger']], c,
                                 sub['c'] if sub['on'] else 0, [door['ep'], door['q']]], sort_keys=True), nontrivial)
            if door['ep'] != 'api':
                seen['door:' + door['ep']] += 1
                seen['door:%s:%s' % (door['ep'], clause_key(c))] += 1
                seen['door:%s:%s' % (door['ep'], case['status'])] += 1
                continue
            if sub['on']:
                seen['nested'] += 1
                seen['nested:' + ('rejected' if case['status'] == 'rejected' else
                                  'own-clauses' if has_clauses(sub['c']) else 'filter-only')] += 1
                seen['nested-in:' + clause_key(c)] += 1
                continue
            seen[clause_key(c)] += 1
            seen['filter:' + c['filter']['n']] += 1
            seen['status:' + case['status']] += 1
        for need in ('plain', 'open', 'close', 'bare-close', 'clear', 'open+close', 'open+bare-close', 'open+clear', 'close+clear',
                     'bare-close+clear', 'open+close+clear', 'open+bare-close+clear', 'status:rejected', 'filter:ge',
                     'nested:filter-only', 'nested:own-clauses', 'nested:rejected', 'nested-in:plain', 'nested-in:open',
                     'nested-in:close+clear', 'nested-in:open+close+clear') + tuple(
                         'door:%s:%s' % (ep, k) for ep in ('shell', 'run') for k in (
                             'plain', 'open', 'close', 'bare-close', 'clear', 'open+close', 'open+bare-close', 'open+clear',
                             'close+clear', 'bare-close+clear', 'open+close+clear', 'open+bare-close+clear', 'rejected')):
            if not seen[need]:
                raise MachineryError('vacuity: no generated case with %s' % need)
        ctx.sample({'leg': 'S2C', 'case': {k: cases[len(cases) // 2][k] for k in ('c', 'status', 'kept', 'tot', 'val')},
                    'ledger': [[t['date'], [[p['k'], p['u'][0]] for p in t['ps']]] for t in cases[len(cases) // 2]['ledger']]})
        stmts = s2c(ctx, cases, keys, ctx.pick((3, 40), (2, 10)), ctx.pick(8, 16))
        ctx.traces += len(cases)
        ctx.leg('S2C', cases=len(cases), statements=stmts, by_clause={k: v for k, v in seen.items()})
    # ---- C2S
    if not only or 'C2S' in only:
        c2s(ctx)
    ctx.exhaustive = False


def replay(ctx, rep):
    case = rep['case']
    if 'case' in case and 'via' in case:
        keys = ctx.tlc('Gen_Summarize', 'Gen_SummarizeKeys.cfg', leg='GEN', workers=1).printed[0]['keys']
        ok = replay_case(ctx, case['case'], keys, [case['via']])
        print('replay:', 'no mismatch' if ok else 'MISMATCH reproduced (%s)' % rep.get('key'))
        return 0 if ok else 1
    if 'trace_case' in case:
        ev = case['trace_case']
        print('replay: FROM clause %r via %s on ledger %s; re-run the check to have TLC judge it' % (
            ev.get('text'), ev.get('via'), case['ledger'].get('lid')))
        return 2
    print('replay: case kind not replayable standalone; re-run the check')
    return 2
