"""C14 -- BALANCES / JOURNAL / PRINT equal their SELECT expansions; PRINT is lossless (spec/Statements.tla).

legs: MC   TLC runs the statement machine of Statements.tla (rewrite into the template SELECT, row scan, group store,
           finalize, stable sort, hidden targets; PRINT: compile against the entries table, scan, keep truthy rows) on
           every small ledger x statement shape and checks that what it delivers is the DECLARATIVE meaning
           (per-account sums in type-then-name order; register with running balance of the matching postings; the
           directives whose FROM expression is TRUE).  Four deliberately broken expansions must be rejected.
           A posting row has two objects behind it, the posting and its transaction, and BOTH have a flag: postings
           of the pool carry flags of their own (other than / equal to their transaction's); the register and the
           column `flag` in FROM / WHERE mean the transaction's (posting_flag the posting's).  A mechanism that reads
           `flag` from the posting first must be rejected.
           A row of the entries table stands for a directive of ANY type: the columns flag, payee, narration, tags, links
           are the TRANSACTION's (NULL on every other row), while notes and documents carry tags and links of their own
           (directive pool: what the directive carries; DirRow: what the columns mean).  PRINT filters include
           'x' IN tags / links, IS [NOT] NULL and NOT over them (NOT NULL is TRUE); a mechanism whose column accessor
           hands out the attribute of whatever directive has one of that name must be rejected.
           StatementsSession.tla is the grain above: connections with their registered table objects and SESSIONS
           (sequences of statements, each deriving its table by update() = shallow copy and scanning prepare());
           invariant: every statement is evaluated on (ledger of its connection, its OWN clauses) whatever ran
           before.  Three mechanisms that keep state across statements must be rejected.  A step also carries its
           ROUTE -- typed (Connection.execute / the shell prompt) or stored in the ledger by a query directive and
           submitted with the shell's `.run <name>`, where BQLShell.parse(text, default_close_date) sits between the
           text and the compiler: PRINT is evaluated on its own clauses on every route (a stored BALANCES / JOURNAL
           without CLOSE may be closed at the date of its query directive: the statement is silent about that shell
           feature, both admitted).  A shell that applies the default closing date to PRINT too must be rejected.
           has_account(p) is about EVERY account a directive names (a pad names two: the filters select an account that
           only a pad names, as the account the amount is taken from); a mechanism that looks at one account attribute
           of a directive that is not a transaction must be rejected.  A FROM clause with several of OPEN / CLOSE / CLEAR
           means their application one after the other (Statements!ClauseChain; the version of StatementsSession is
           the ledger plus the chain of single clauses); a prepare() that computes OPEN ON d CLOSE ON e by a routine of
           its own must be rejected.
      S2C  TLC prints, per statement shape, the SHORT statement and the EXPANDED SELECT as token sequences and, per
           (ledger, shape), the rows the specification requires.  The driver builds the ledger, executes both texts
           through Connection.execute, requires identical rows and descriptions and equality with the spec's rows.
           PRINT goes through BQLShell; the output is re-read with beancount.parser.parser.parse_string, projected to
           an abstract form and compared, directive by directive, with the entries the spec says must be kept.
           Sessions: TLC emits every session of 2 (thorough: 3) statements over kinds x {no FROM, FROM expression,
           each clause, all clauses}; the driver runs each on ONE shell / connection and requires, per statement,
           what the same statement returns on a connection that executed nothing else.  Every step is emitted typed
           AND stored: a stored statement lives in a ledger FILE the shell loads itself, is submitted as `.run <name>`
           and must write what one of the statement texts the spec admits writes when typed at the prompt of a shell
           that loaded the same file and executed nothing else.  A statement with several clauses must also return what
           the statement with the LAST of them returns on the ledger the clauses before it give (chain / last from TLC).
      C2S  the Beancount example ledger and random ledgers: every shape of the big table (filters x OPEN / CLOSE / CLEAR
           subsets x summary functions x account patterns) is run short vs expanded (rows + description equal) and the
           observed rows are logged next to the summarised posting / directive table (both read off the directives
           attribute by attribute, never through the columns the statements use; random ledgers have postings with
           flags, prices and metadata of their own); TLC (Trace_Statements) judges
           every line with the operators of the specification.  All statements of a ledger run on ONE shell /
           connection (groups in seeded random order, then a stratified random session with repeated statements);
           every summarised table the lines are judged against is obtained on a connection of its own that executes
           nothing else, so a result that depends on the history of the connection is rejected by TLC.  The table of a
           clause COMBINATION is composed: one clause at a time (the chain TLC prints with the shape), each on a connection
           of its own attached to what the clauses before it gave -- what the code makes of OPEN + CLOSE + CLEAR met in one
           FROM clause is judged against the composition of the single clauses.  Random ledgers hold pad (two accounts),
           balance, event and close directives next to transactions, notes, documents and prices.  On some
           ledgers a further session runs on a shell that loads the ledger from a file in which every PRINT statement
           is stored by a query directive: each is submitted as `.run <name>` and judged by TLC like a typed one.
"""
import collections
import copy
import datetime
import decimal
import io
import itertools
import json
import os
import re
import time

from harness.core import MachineryError

D = decimal.Decimal
INT_MAX = 2 ** 31 - 1
JVM = ('-Xmx4g', '-Xss64m')
ALPHABET = set('-0123456789:ABCDEFGHIJKLMNOPQRSTUVWXYZ_abcdefghijklmnopqrstuvwxyz')
CONSTS = dict(Headers='HeadersDef', Shapes='ShapesDef', PrintShapes='PrintShapesDef')


# ---------------------------------------------------------------------------------------------------------------
# small helpers
def ymd(d):
    return d.year * 10000 + d.month * 100 + d.day


def from_ymd(n):
    return datetime.date(n // 10000, (n // 100) % 100, n % 100)


class OutOfDomain(Exception):
    pass


_PARSED = {}
_ORIG_PARSE = None
_COPY_PARSED = [False]


def install_parse_memo():
    """TatSu needs 30-100 ms per statement and transform_balances / transform_journal re-parse their template on every
    execution.  Inside the replay loops beanquery.parser.parse is memoised by text (compilation does not modify the
    AST of these statements); a sample of every batch is additionally executed with the original parser."""
    global _ORIG_PARSE
    import beanquery.parser as bqp
    if _ORIG_PARSE is None:
        _ORIG_PARSE = bqp.parse

        def cached_parse(text, *a, **kw):
            if a or kw:
                return _ORIG_PARSE(text, *a, **kw)
            r = _PARSED.get(text)
            if r is None:
                r = _PARSED[text] = _ORIG_PARSE(text)
            # BQLShell.parse() writes the default closing date of `.run` into the AST it is handed: where stored
            # statements are run the memo hands out copies (the real parser returns a new AST at every call)
            return copy.deepcopy(r) if _COPY_PARSED[0] else r
        bqp.parse = cached_parse


def uninstall_parse_memo():
    global _ORIG_PARSE
    import beanquery.parser as bqp
    if _ORIG_PARSE is not None:
        bqp.parse = _ORIG_PARSE
        _ORIG_PARSE = None


def _parse_worker(text):
    """parse one statement text and, for BALANCES / JOURNAL, compile it once on an empty ledger so that the template
    text transform_balances / transform_journal builds for it is parsed as well; returns the new memo entries"""
    install_parse_memo()
    before = set(_PARSED)
    try:
        import beanquery.parser as bqp
        ast = bqp.parse(text)
        if text.startswith(('BALANCES', 'JOURNAL')):
            connect([]).execute(ast)
    except Exception:  # noqa  (the statement will raise again, and be reported, where it is executed)
        pass
    return [(k, v) for k, v in _PARSED.items() if k not in before]


def preparse(texts, procs=8):
    """parse the distinct statement texts of a batch in worker processes (the ASTs pickle) and seed the memo"""
    import concurrent.futures as cf
    import multiprocessing
    todo = sorted(t for t in set(texts) if t not in _PARSED)
    if len(todo) < 24:
        return
    # longest first: a JOURNAL template takes several times longer than a BALANCES statement
    todo.sort(key=lambda t: (not t.startswith('JOURNAL'), -len(t)))
    with cf.ProcessPoolExecutor(procs, mp_context=multiprocessing.get_context('fork')) as ex:
        for pairs in ex.map(_parse_worker, todo, chunksize=3):
            for k, v in pairs:
                _PARSED.setdefault(k, v)


class copying_memo:
    """inside: the parse memo returns a private copy of the AST at every call"""

    def __enter__(self):
        self.saved = _COPY_PARSED[0]
        _COPY_PARSED[0] = True

    def __exit__(self, *a):
        _COPY_PARSED[0] = self.saved


class unpatched_parser:
    def __enter__(self):
        import beanquery.parser as bqp
        self.saved = bqp.parse
        if _ORIG_PARSE is not None:
            bqp.parse = _ORIG_PARSE

    def __exit__(self, *a):
        import beanquery.parser as bqp
        bqp.parse = self.saved


_OPTIONS = None


def default_options():
    global _OPTIONS
    if _OPTIONS is None:
        from beancount import loader
        _, _, _OPTIONS = loader.load_string('')
    return _OPTIONS


def connect(entries, options=None):
    import beanquery
    return beanquery.connect('beancount:', entries=entries, errors=[], options=options or default_options())


def text_of(tokens):
    return ' '.join(tokens)


# ---------------------------------------------------------------------------------------------------------------
# projections: Python values -> the spec's vocabulary
def int_of(x, scale=0):
    v = D(x).scaleb(scale)
    if v != v.to_integral_value():
        raise OutOfDomain('not an integer in minor units: %s (scale %d)' % (x, scale))
    v = int(v)
    if abs(v) > INT_MAX:
        raise OutOfDomain('beyond 32 bits: %s' % x)
    return v


NOCOST = [0, '', 0]


def proj_cost(cost, kscale=0):
    if cost is None:
        return list(NOCOST)
    if getattr(cost, 'label', None) is not None:
        raise OutOfDomain('labelled lot')
    if cost.number is None or cost.date is None:
        raise OutOfDomain('incomplete cost')
    return [int_of(cost.number, kscale), cost.currency, ymd(cost.date)]


def proj_lot(x, scales=None, kscale=0):
    """Position / Amount / Posting -> [currency, cost, number]; numbers scaled to integers per currency"""
    from beancount.core import amount
    if isinstance(x, amount.Amount):
        units, cost = x, None
    else:
        units, cost = x.units, x.cost
    sc = (scales or {}).get(units.currency, 0)
    return [units.currency, proj_cost(cost, kscale), int_of(units.number, sc)]


def proj_inv(inv, scales=None, kscale=0):
    return sorted(proj_lot(p, scales, kscale) for p in inv)


def opt(s):
    return [] if s is None else [s]


def norm_name(name):
    """column names are derived from the source text: compare modulo blanks, case and doubled parentheses
    (the BALANCES template yields `SUM((position))` when no summary function is given)"""
    s = re.sub(r'\s+', '', name).lower()
    while '((' in s and '))' in s:
        s2 = re.sub(r'\(\(([^()]*)\)\)', r'(\1)', s)
        if s2 == s:
            break
        s = s2
    return s


def proj_desc(desc):
    return [[norm_name(c.name), getattr(c.datatype, '__name__', repr(c.datatype))] for c in desc]


def run_stmt(conn, text):
    """execute through the public API; returns (description projection, rows) or ('EXC', message)"""
    import beanquery.parser as bqp
    try:
        cur = conn.execute(bqp.parse(text))
        return proj_desc(cur.description), cur.fetchall()
    except Exception as ex:  # noqa
        return 'EXC:%s' % type(ex).__name__, str(ex)[:200]


def proj_balances_rows(rows, scales=None, kscale=0):
    return [[r[0], proj_inv(r[1], scales, kscale)] for r in rows]


def proj_journal_rows(rows, scales=None, kscale=0):
    return [[ymd(r[0]), opt(r[1]), opt(r[2]), opt(r[3]), r[4], proj_lot(r[5], scales, kscale), proj_inv(r[6], scales, kscale)]
            for r in rows]


def canon_spec_rows(kind, rows):
    """the spec prints inventories as sets (arbitrary order): sort them"""
    if kind == 'balances':
        return [[r[0], sorted(r[1])] for r in rows]
    return [[r[0], r[1], r[2], r[3], r[4], r[5], sorted(r[6])] for r in rows]


# ---------------------------------------------------------------------------------------------------------------
# S2C, postings: ledgers built from the spec's pool
def build_pool_ledger(tables, led):
    from beancount.core import data, amount, position
    entries = []
    last = None
    for n, k in enumerate(led):
        item = tables['pool'][k - 1]
        h = tables['headers'][item['txn'] - 1]
        if last != item['txn']:
            entries.append(data.Transaction({'filename': '<c14>', 'lineno': n + 1}, from_ymd(h['date']), h['flag'][0],
                                            h['payee'][0] if h['payee'] else None, h['narration'][0],
                                            frozenset(), frozenset(), []))
            last = item['txn']
        cur, cost, num = item['lot']
        c = None if cost == NOCOST else position.Cost(D(cost[0]), cost[1], from_ymd(cost[2]), None)
        # a posting may carry a flag of its own, next to the flag of its transaction
        entries[-1].postings.append(data.Posting(item['account'], amount.Amount(D(num), cur), c, None,
                                                 item['pflag'][0] if item['pflag'] else None, None))
    return entries


def check_pair(ctx, conn, shape, key, case, leg, want_rows=None):
    """short statement vs expansion (rows, description); optionally against the rows the spec requires.
    Returns the raw rows of the short statement, or None when it raised."""
    short, expanded = text_of(shape['short']), text_of(shape['expanded'])
    d1, r1 = run_stmt(conn, short)
    d2, r2 = run_stmt(conn, expanded)
    case = dict(case, short=short, expanded=expanded)
    if isinstance(d1, str) or isinstance(d2, str):
        if isinstance(d1, str) and isinstance(d2, str) and d1 == d2:
            ctx.violation('%s:raises:%s' % (key, d1), 'statement and expansion both raise', case, leg,
                          'rows', [d1, r1])
        else:
            ctx.violation('%s:raises' % key, 'statement / expansion raise differently', case, leg,
                          [d2, r2 if isinstance(d2, str) else 'rows'], [d1, r1 if isinstance(d1, str) else 'rows'])
        return None
    if d1 != d2:
        ctx.violation('%s:description' % key, 'description of the statement differs from its expansion', case, leg, d2, d1)
    if r1 != r2:
        ctx.violation('%s:rows-vs-expansion' % key, 'rows of the statement differ from its expansion', case, leg,
                      [str(r) for r in r2[:6]], [str(r) for r in r1[:6]])
    if want_rows is not None:
        try:
            got = proj_balances_rows(r1) if shape['kind'] == 'balances' else proj_journal_rows(r1)
        except OutOfDomain as ex:
            ctx.skipped += 1
            return r1
        want = canon_spec_rows(shape['kind'], want_rows)
        if got != want:
            ctx.violation('%s:rows-vs-spec' % key, 'rows differ from the declarative meaning', case, leg, want, got)
    return r1


def shape_key(shape):
    k = shape['kind']
    if shape['f'] != 'none':
        k += ':' + shape['f']
    if shape.get('clauses'):
        k += ':clauses'
    return k


def replay_posting_cases(ctx, tables, cases, what):
    by_ledger = collections.defaultdict(list)
    for c in cases:
        by_ledger[tuple(c['l'])].append(c)
    n = 0
    for led, cs in by_ledger.items():
        conn = connect(build_pool_ledger(tables, led))
        for c in cs:
            shape = tables['shapes'][c['s'] - 1]
            key = shape_key(shape)
            nontrivial = len(c['rows']) > 0 and (shape['filtered'] or shape['f'] != 'none')
            ctx.case([led, c['s']], nontrivial)
            check_pair(ctx, conn, shape, key, {'ledger': list(led), 'shape': c['s'], 'table': 'postings'}, 'S2C', c['rows'])
            ctx.traces += 1
            n += 1
            if n <= 2:
                ctx.sample({'leg': 'S2C', 'ledger': list(led), 'short': text_of(shape['short']),
                            'expanded': text_of(shape['expanded']), 'rows': c['rows']})
    ctx.leg('S2C', **{what: n})
    return n


# ---------------------------------------------------------------------------------------------------------------
# PRINT: concrete directives of the spec's directive pool, the shell, the projection of (re-read) directives
def catalog():
    """id -> concrete directive.  The abstract attributes (type, date, flag, payee, narration, accounts) are those of
    MC_Statements!DirPoolAll -- verified against the table TLC prints (abstract_dir)."""
    from beancount.core import data, amount, position
    A = amount.Amount

    def m(n, **kw):
        d = {'filename': '<c14>', 'lineno': n}
        d.update(kw)
        return d

    def P(acc, num, cur, cost=None, price=None, flag=None, meta=None):
        return data.Posting(acc, A(D(num), cur), cost, price, flag, meta)
    return {
        1: data.Open(m(1), datetime.date(2020, 1, 1), 'Assets:Bank', ['USD', 'HOO'], data.Booking.FIFO),
        2: data.Transaction(m(2, ref='x-17', when=datetime.date(2020, 1, 4), qty=D('2.50')), datetime.date(2020, 1, 5), '*',
                            'Shop', 'Food', frozenset({'trip', 'a-b'}), frozenset({'inv-1'}),
                            [P('Assets:Bank', '-5.00', 'USD', meta={'note': 'card'}), P('Expenses:Food', '5.00', 'USD', flag='!')]),
        3: data.Transaction(m(3), datetime.date(2020, 1, 5), '!', None, 'Buy', frozenset(), frozenset(),
                            [P('Assets:Broker', '2', 'HOO', position.Cost(D('3.10'), 'USD', datetime.date(2020, 1, 5), None),
                               price=A(D('3.25'), 'USD')),
                             P('Assets:Broker', '1.5', 'HOO', position.Cost(D('3'), 'USD', datetime.date(2019, 12, 31), 'lot-a')),
                             P('Assets:Bank', '-10.70', 'USD')]),
        4: data.Price(m(4), datetime.date(2020, 1, 5), 'HOO', A(D('3.25'), 'USD')),
        5: data.Balance(m(5), datetime.date(2020, 2, 1), 'Assets:Bank', A(D('-15.70'), 'USD'), None, None),
        # notes and documents carry tags and links of their own (the columns tags / links are the transaction's)
        6: data.Note(m(6), datetime.date(2020, 2, 1), 'Assets:Bank', 'called the bank', frozenset({'trip'}), frozenset({'inv-1'})),
        7: data.Pad(m(7), datetime.date(2020, 3, 1), 'Assets:Bank', 'Equity:Open'),
        8: data.Transaction(m(8), datetime.date(2021, 2, 10), '*', 'Job', 'Pay', frozenset(), frozenset({'pay-2021'}),
                            [P('Assets:Bank', '7', 'USD'), P('Income:Job', '-7', 'USD')]),
        9: data.Close(m(9), datetime.date(2021, 3, 1), 'Expenses:Food'),
        10: data.Commodity(m(10, name='Hooli'), datetime.date(2020, 1, 1), 'HOO'),
        11: data.Event(m(11), datetime.date(2020, 3, 1), 'location', 'Paris, France'),
        12: data.Query(m(12), datetime.date(2020, 3, 1), 'assets', "SELECT account, sum(position) WHERE account ~ 'Assets'"),
        13: data.Document(m(13), datetime.date(2021, 1, 1), 'Assets:Bank', '/tmp/c14-statement.pdf', frozenset({'a-b'}), frozenset()),
        14: data.Custom(m(14), datetime.date(2021, 1, 1), 'budget', [_custom_value('monthly'), _custom_value(D('45.30'))]),
        15: data.Open(m(15), datetime.date(2020, 1, 1), 'Expenses:Food', None, None),
    }


def _custom_value(v):
    from beancount.parser import grammar
    VT = getattr(grammar, 'ValueType', None)
    if VT is None:
        VT = collections.namedtuple('ValueType', 'value dtype')
    return VT(v, type(v))


def own_set(e, field):
    """the set of tags / links the directive CARRIES: [] when its type has no such field (or it is None), [[..]] otherwise.
    Which rows of the entries table show it in the column of that name is for the specification to say (DirRow)"""
    v = getattr(e, field, None) if field in getattr(e, '_fields', ()) else None
    return [] if v is None else [sorted(v)]


def abstract_dir(e):
    """the attributes the filters look at, in the spec's vocabulary: [type, date, flag, payee, narration, accounts,
    tags, links]"""
    from beancount.core import data, getters
    txn = isinstance(e, data.Transaction)
    return [type(e).__name__.lower(), ymd(e.date), opt(e.flag) if txn else [], opt(e.payee) if txn else [],
            opt(e.narration) if txn else [], sorted(getters.get_entry_accounts(e)), own_set(e, 'tags'), own_set(e, 'links')]


def dnum(x):
    return None if x is None else format(D(x).normalize(), 'f')


def pval(v):
    from beancount.core import amount
    import enum
    if isinstance(v, D):
        return ['dec', dnum(v)]
    if isinstance(v, amount.Amount):
        return ['amount', dnum(v.number), v.currency]
    if isinstance(v, datetime.date):
        return ['date', ymd(v)]
    if isinstance(v, (set, frozenset)):
        return sorted(v) if v else None       # an absent and an empty tag / link set are the same directive
    if isinstance(v, enum.Enum):
        return ['enum', v.name]
    if isinstance(v, (list, tuple)) and not hasattr(v, '_fields'):
        return [pval(x) for x in v] if v else None
    if hasattr(v, '_fields'):
        return [type(v).__name__] + [pval(getattr(v, f)) for f in v._fields]
    if isinstance(v, type):
        return ['type', v.__name__]
    return v


def pmeta(meta):
    if not meta:
        return []
    return sorted([k, pval(v)] for k, v in meta.items() if k not in ('filename', 'lineno') and not k.startswith('__'))


def pcost(c):
    """Cost (booked) and CostSpec (as parsed) field by field"""
    if c is None:
        return None
    if hasattr(c, 'number_per'):
        if c.number_total is not None or c.merge:
            return ['costspec-total-or-merge', dnum(c.number_per), dnum(c.number_total), c.currency, bool(c.merge)]
        return [dnum(c.number_per), c.currency, ymd(c.date) if c.date else None, c.label]
    return [dnum(c.number), c.currency, ymd(c.date) if c.date else None, c.label]


def proj_entry(e):
    from beancount.core import data
    name = type(e).__name__
    if isinstance(e, data.Transaction):
        return [name, ymd(e.date), e.flag, e.payee, e.narration, pval(e.tags), pval(e.links), pmeta(e.meta),
                [[p.account, pval(p.units), pcost(p.cost), pval(p.price), p.flag, pmeta(p.meta)] for p in e.postings]]
    # diff_amount of a balance assertion is not part of the directive as written: the loader's balance check fills it
    # in when the assertion fails (printed as a comment), the syntax cannot carry it
    fields = [f for f in e._fields if f not in ('meta', 'date') and not (name == 'Balance' and f == 'diff_amount')]
    vals = []
    for f in fields:
        v = getattr(e, f)
        if name == 'Custom' and f == 'values':
            v = [[pval(x.value), getattr(x.dtype, '__name__', str(x.dtype))] for x in v]
        else:
            v = pval(v)
        vals.append([f, v])
    return [name, ymd(e.date), pmeta(e.meta), vals]


class PrintShell:
    """BQLShell in batch mode writing to a StringIO, as beanquery/shell_test.py drives it"""

    def __init__(self, filename=None):
        """filename: the ledger file the shell loads itself (as `bean-query <filename>` does; its `query` directives
        become the named queries of `.run`); None: the ledger is attached afterwards with attach()"""
        from beanquery import shell
        self.out = io.StringIO()
        self.sh = shell.BQLShell(filename, self.out, no_errors=True)

    def attach(self, entries, options=None):
        opts = options or default_options()
        self.sh.context.options.clear()
        self.sh.context.errors.clear()
        self.sh.context.attach('beancount:', entries=entries, errors=[], options=opts)

    def run(self, text):
        self.out.seek(0)
        self.out.truncate()
        self.sh.onecmd(text)
        return self.out.getvalue()


def reread(text):
    """syntax only: the Beancount parser, in the order of the printed text"""
    from beancount.parser import parser as bparser
    entries, errors, _ = bparser.parse_string(text)
    entries = sorted(entries, key=lambda e: e.meta['lineno'])
    return entries, errors


def match_kept(printed, originals):
    """indices (1-based) of the original directives the re-read ones are equal to, in order; None when a re-read
    directive equals no remaining original"""
    kept = []
    j = 0
    for pe in printed:
        while j < len(originals) and originals[j] != pe:
            j += 1
        if j == len(originals):
            return None
        kept.append(j + 1)
        j += 1
    return kept


def print_case(ctx, psh, entries, projs, shape, key, case, leg, command=None):
    """run PRINT through the shell (typed at the prompt, or the command line `command` that submits it); returns the
    kept indices (or None after reporting a violation)"""
    text = text_of(shape['short'])
    case = dict(case, statement=text)
    if command is not None:
        case['submitted_as'] = command
    try:
        out = psh.run(command or text)
    except Exception as ex:  # noqa
        ctx.violation('%s:raises:%s' % (key, type(ex).__name__), 'PRINT raises', case, leg, 'output', str(ex)[:200])
        return None
    try:
        back, errors = reread(out)
    except Exception as ex:  # noqa
        ctx.violation('%s:unparsable' % key, 'PRINT output crashes the Beancount parser', case, leg, 'directives', str(ex)[:200])
        return None
    if errors:
        ctx.violation('%s:syntax' % key, 'PRINT output is not valid Beancount syntax', dict(case, output=out[:1500]), leg,
                      'no errors', [str(getattr(e, 'message', e))[:120] for e in errors[:3]])
        return None
    pb = [proj_entry(e) for e in back]
    kept = match_kept(pb, projs)
    if kept is None:
        # which directive was not reproduced?
        odd = next((p for p in pb if p not in projs), pb[0] if pb else None)
        ctx.violation('%s:lossless:%s' % (key, odd[0] if odd else '?'),
                      're-read PRINT output holds a directive equal to none of the ledger (or out of order)',
                      dict(case, output=out[:1500]), leg, 'a directive of the ledger', odd)
        return None
    return kept


def replay_print_cases(ctx, tables, cases, what):
    cat = catalog()
    # the concrete catalog carries exactly the abstract attributes of the spec's pool
    for d in tables['dirpool']:
        a = abstract_dir(cat[d['id']])
        want = [d['type'], d['date'], d['flag'], d['payee'], d['narration'], sorted(d['accounts']),
                [sorted(x) for x in d['tags']], [sorted(x) for x in d['links']]]
        if a != want:
            raise MachineryError('directive catalog out of step with DirPoolAll: id %d %s vs %s' % (d['id'], a, want))
    psh = PrintShell()
    by_ledger = collections.defaultdict(list)
    for c in cases:
        by_ledger[tuple(c['l'])].append(c)
    n = 0
    for led, cs in by_ledger.items():
        entries = [cat[tables['dirpool'][k - 1]['id']] for k in led]
        projs = [proj_entry(e) for e in entries]
        psh.attach(entries)
        for c in cs:
            shape = tables['printshapes'][c['s'] - 1]
            ctx.case(['print', led, c['s']], len(c['rows']) not in (0, len(led)))
            case = {'ledger': list(led), 'shape': c['s'], 'table': 'entries'}
            kept = print_case(ctx, psh, entries, projs, shape, 'print', case, 'S2C')
            ctx.traces += 1
            n += 1
            if kept is not None and kept != c['rows']:
                ctx.violation('print:kept', 'PRINT keeps other directives than those whose FROM expression is TRUE',
                              dict(case, statement=text_of(shape['short']), types=[p[0] for p in projs]), 'S2C', c['rows'], kept)
            if n == 1:
                ctx.sample({'leg': 'S2C', 'directives': [p[0] for p in projs], 'statement': text_of(shape['short']),
                            'kept': c['rows']})
    ctx.leg('S2C', **{what: n})
    return n


# ---------------------------------------------------------------------------------------------------------------
# C2S: ledgers
def example_ledger(ctx, years):
    """beancount.scripts.example, seeded"""
    import random
    from beancount import loader
    from beancount.scripts import example
    state = random.getstate()
    random.seed(ctx.seed)
    try:
        f = io.StringIO()
        begin = datetime.date(2021 - years, 1, 1)
        example.write_example_file(datetime.date(1980, 5, 12), begin, datetime.date(2021, 4, 1), True, f)
    finally:
        random.setstate(state)
    entries, errors, options = loader.load_string(f.getvalue())
    return entries, options, len(errors)


ACCOUNTS = ['Assets:US:BofA:Checking', 'Assets:US:BofA', 'Assets:US:Vanguard:VBMPX', 'Assets:US:Vanguard:Cash',
            'Assets:Checking', 'Liabilities:US:Chase:Slate', 'Liabilities:AccountsPayable', 'Equity:Opening-Balances',
            'Equity:Assets', 'Income:US:Babble:Salary', 'Income:Food', 'Expenses:Food:Restaurant', 'Expenses:Food:Groceries',
            'Expenses:Home:Rent', 'Expenses:Assets', 'Expenses:Food']
PAYEES = [None, None, 'Kin Soy', 'Kin Soy', 'Goba Goba', 'BANK FEES', 'kin soy', 'Onion Market',
          'A payee whose name is deliberately much longer than forty-eight characters', 'Chase:Slate']
NARRS = ['Eating out with Joe', 'Eating out alone', 'Payroll', '', 'Buying groceries', 'Buy shares of VBMPX', 'eating OUT',
         'A narration that goes on and on, well beyond the eighty characters that the journal register allows for it, and more',
         'Paying the rent']
# tags and links: transactions have them -- and so do notes and documents
TAGS = [frozenset(), frozenset(), frozenset(), frozenset({'trip'}), frozenset({'trip', 'food'}), frozenset({'food'})]
LINKS = [frozenset(), frozenset(), frozenset({'inv-1'}), frozenset({'inv-1', 'inv-2'})]
PAD_SOURCES = ['Equity:Opening-Balances', 'Equity:Opening-Balances', 'Equity:Assets', 'Liabilities:US:Chase:Slate']


def random_ledger(rng, ntxn):
    from beancount.core import data, amount, position
    entries = []
    n = 0
    for a in ACCOUNTS:
        n += 1
        entries.append(data.Open({'filename': '<r>', 'lineno': n}, datetime.date(2019, 1, 1), a, None, None))
    day = datetime.date(2019, 6, 1)
    for _ in range(ntxn):
        day += datetime.timedelta(days=rng.choice([0, 0, 1, 3, 17, 45]))
        n += 1
        posts = []
        for _ in range(rng.choice([1, 2, 2, 2, 3, 4])):
            acc = rng.choice(ACCOUNTS)
            r = rng.random()
            if r < 0.6:
                units = amount.Amount(D(rng.randint(-50000, 50000)) / 100 or D(1), 'USD')
                cost = None
            elif r < 0.75:
                units = amount.Amount(D(rng.randint(-300, 300)) / 10 or D(2), rng.choice(['EUR', 'VACHR']))
                cost = None
            else:
                units = amount.Amount(D(rng.randint(-40, 40)) / 2 or D(3), rng.choice(['VBMPX', 'RGAGX']))
                cost = position.Cost(D(rng.choice([100, 105, 1105, 120])) / 10, 'USD',
                                     rng.choice([day, datetime.date(2019, 6, 1), datetime.date(2020, 2, 3)]), None)
            # what a posting can carry besides account, units and cost: a flag of its own (a transaction has one
            # too), a price annotation, metadata (a transaction has its own)
            pflag = rng.choice([None, None, None, None, '!', '!', '*'])
            price = amount.Amount(D(rng.choice([125, 110, 90])) / 100, 'USD') if cost is None and units.currency != 'USD' \
                and rng.random() < 0.3 else None
            pmeta_ = rng.choice([None, None, None, {'note': 'to be checked'}, {'flag': 'P', 'ref': 'a-17'}])
            posts.append(data.Posting(acc, units, cost, price, pflag, pmeta_))
        entries.append(data.Transaction({'filename': '<r>', 'lineno': n}, day, rng.choice(['*', '*', '*', '!']),
                                        rng.choice(PAYEES), rng.choice(NARRS), rng.choice(TAGS), rng.choice(LINKS), posts))
        if rng.random() < 0.2:
            n += 1
            entries.append(data.Note({'filename': '<r>', 'lineno': n}, day, rng.choice(ACCOUNTS), 'a note',
                                     rng.choice(TAGS), rng.choice(LINKS)))
        if rng.random() < 0.15:
            n += 1
            entries.append(data.Document({'filename': '<r>', 'lineno': n}, day, rng.choice(ACCOUNTS), '/tmp/c14-statement.pdf',
                                         rng.choice(TAGS), rng.choice(LINKS)))
        if rng.random() < 0.1:
            n += 1
            entries.append(data.Price({'filename': '<r>', 'lineno': n}, day, 'VBMPX', amount.Amount(D('11.5'), 'USD')))
        # the other directives that name accounts: a pad names TWO (the account it pads and the one the amount is
        # taken from -- often an account no transaction of the ledger touches), a balance assertion one; an event none
        if rng.random() < 0.15:
            n += 1
            entries.append(data.Pad({'filename': '<r>', 'lineno': n}, day, rng.choice(ACCOUNTS[:7]), rng.choice(PAD_SOURCES)))
        if rng.random() < 0.1:
            n += 1
            entries.append(data.Balance({'filename': '<r>', 'lineno': n}, day, rng.choice(ACCOUNTS),
                                        amount.Amount(D(rng.randint(-5000, 5000)) / 100, 'USD'), None, None))
        if rng.random() < 0.05:
            n += 1
            entries.append(data.Event({'filename': '<r>', 'lineno': n}, day, 'location', rng.choice(['Paris', 'New York'])))
    n += 1
    entries.append(data.Close({'filename': '<r>', 'lineno': n}, day, 'Income:Food'))
    return entries


def named_ledger(ctx, tables, name):
    """the ledgers of the recorded runs are functions of (seed, tier, name): a replay rebuilds them"""
    import random
    if name == 'pool':
        led = tuple(sorted(range(1, len(tables['pool']) + 1), key=lambda k: tables['pool'][k - 1]['txn']))
        return build_pool_ledger(tables, led), None, 0
    if name.startswith('random-'):
        rng = random.Random(ctx.seed * 1000 + int(name.split('-')[1]))
        return random_ledger(rng, rng.choice([3, 8, 20, 40])), None, 0
    if name == 'example':
        return example_ledger(ctx, ctx.pick(1, 2))
    raise MachineryError('unknown ledger %s' % name)


def plain_ascii(s):
    return s is None or (all(32 <= ord(c) < 127 for c in s) and '\\' not in s and '"' not in s)


def decimals(x):
    e = D(x).normalize().as_tuple().exponent
    return max(0, -e)


def clause_kwargs(fc):
    """OPEN / CLOSE / CLEAR of a FROM clause as BeanTable.update arguments (what Compiler._compile_from passes)"""
    def d(s):
        return datetime.date(*map(int, s.split('-')))
    kw = {'open': d(fc['open'][0]) if fc['open'] else None}
    ck = fc['close']['k']
    kw['close'] = None if ck == 'none' else (True if ck == 'bare' else d(fc['close']['d']))
    kw['clear'] = True if fc['clear'] else None
    return kw


def clause_text(fc):
    t = []
    if fc['open']:
        t += ['OPEN', 'ON', fc['open'][0]]
    if fc['close']['k'] == 'bare':
        t += ['CLOSE']
    elif fc['close']['k'] == 'on':
        t += ['CLOSE', 'ON', fc['close']['d']]
    if fc['clear']:
        t += ['CLEAR']
    return ' '.join(t)


class Recorder:
    """writes the ndjson trace; keeps, per line, what is needed to report a rejected line"""

    def __init__(self, ctx, path):
        self.ctx = ctx
        self.f = open(path, 'w')
        self.lines = 0
        self.info = {}
        self.judged = 0

    def write(self, obj, info=None):
        self.lines += 1
        obj['id'] = self.lines
        self.f.write(json.dumps(obj) + '\n')
        if info is not None:
            self.info[self.lines] = info
            self.judged += 1

    def close(self):
        self.f.close()


SUMMARY = {'none': lambda pos: pos}


def summarised(entries, options, table, chain):
    """the entry list after the clauses of a FROM clause, by the specification's reading of a clause COMBINATION
    (Statements!ClauseChain, printed by TLC with every statement shape): the single clauses one after the other, OPEN
    then CLOSE then CLEAR, each applied (BeanTable.prepare with that one clause -- taken as given, C13 judges it) on a
    connection of its own attached to the entry list the clauses before it gave.  What the code makes of the
    combination when it meets all the clauses in one FROM clause is what the statements under observation show."""
    cur = entries
    for step in chain:
        cur = list(connect(cur, options).tables[table].update(**clause_kwargs(step)).prepare())
    return list(cur)


def posting_table(summarised_entries, f):
    """the summarised posting table with the summary function applied, read off the DIRECTIVES: the transactions of the
    entry list after OPEN / CLOSE / CLEAR (summarised(): single clauses taken as given, combinations composed) and their
    postings, attribute by attribute.  No column of the postings table is involved -- the columns are what BALANCES / JOURNAL and their
    expansions go through, so a table obtained through them cannot tell what a column should have returned.
    rows: (date, flag, payee, narration of the transaction; account, [f of] position, accounts of the transaction,
    currency, flag of the posting)"""
    from beancount.core import convert, data, position
    if len(SUMMARY) == 1:
        SUMMARY.update(units=convert.get_units, cost=convert.get_cost)
    fn = SUMMARY[f]
    rows = []
    for e in summarised_entries:
        if not isinstance(e, data.Transaction):
            continue
        accounts = {p.account for p in e.postings}
        for p in e.postings:
            rows.append((e.date, e.flag, e.payee, e.narration, p.account, fn(position.Position(p.units, p.cost)), accounts,
                         p.units.currency, p.flag))
    return rows


def scale_table(rows):
    """per-currency decimal scale so that every number is an integer; total per currency must fit 32 bits"""
    from beancount.core import amount
    scales = collections.defaultdict(int)
    kscale = 0
    for r in rows:
        x = r[5]
        units = x if isinstance(x, amount.Amount) else x.units
        scales[units.currency] = max(scales[units.currency], decimals(units.number))
        cost = None if isinstance(x, amount.Amount) else x.cost
        if cost is not None:
            kscale = max(kscale, decimals(cost.number))
    totals = collections.defaultdict(int)
    for r in rows:
        x = r[5]
        units = x if isinstance(x, amount.Amount) else x.units
        totals[units.currency] += abs(int_of(units.number, scales[units.currency]))
    for cur, t in totals.items():
        if t > INT_MAX:
            raise OutOfDomain('sum of %s beyond 32 bits at scale %d' % (cur, scales[cur]))
    return dict(scales), kscale


def table_in_domain(rows):
    for r in rows:
        if not (plain_ascii(r[2]) and plain_ascii(r[3])):
            raise OutOfDomain('non-ASCII payee / narration')
        for a in [r[4]] + list(r[6]):
            if not set(a) <= ALPHABET or a.split(':')[0] not in ('Assets', 'Liabilities', 'Equity', 'Income', 'Expenses'):
                raise OutOfDomain('account outside the alphabet of the model: %s' % a)


class Session:
    """one BQLShell = one connection (shell.context) for a whole sequence of statements: PRINT goes through the shell's
    dispatcher, BALANCES / JOURNAL / SELECT through execute() of the same connection"""

    def __init__(self, entries, options=None, filename=None):
        self.psh = PrintShell(filename)
        if filename is None:
            self.psh.attach(entries, options)
        self.conn = self.psh.sh.context


def stored_ledger(path, entries, stored, qdate):
    """the ledger with the statements `stored` (name -> text) kept in it by `query` directives dated qdate, written to
    `path` and loaded back the way the shell loads it: returns (entries, options, filename)"""
    from beancount import loader
    from beancount.core import data
    from beancount.parser import printer
    qs = []
    for n, (name, text) in enumerate(sorted(stored.items())):
        if '"' in text or '\\' in text or '"' in name:
            raise MachineryError('statement not storable in a query directive: %r' % text)
        qs.append(data.Query({'filename': '<stored>', 'lineno': 100000 + n}, qdate, name, text))
    with open(path, 'w') as f:
        printer.print_entries(list(entries) + qs, file=f)
    loaded, errors, options = loader.load_file(path)
    names = {e.name: e.query_string for e in loaded if isinstance(e, data.Query) and e.meta.get('filename') == path}
    if any(names.get(k) != v for k, v in stored.items()):
        raise MachineryError('stored statements did not survive the ledger file %s' % path)
    return loaded, options, path


def group_key(s):
    """statements judged against the same summarised table"""
    if s['kind'] == 'print':
        return ('dirs', 'none', clause_text(s['from']))
    return ('posts', s['f'], clause_text(s['from']))


class Oracle:
    """the summarised posting / directive tables of one ledger, per (summary function, OPEN / CLOSE / CLEAR).  Each is
    obtained on a connection of its own that executes nothing else: the tables TLC judges the recorded rows against
    must not share state with the connection under observation."""

    def __init__(self, entries, options):
        self.entries, self.options = entries, options
        self.cache = {}

    def get(self, s):
        key = group_key(s)
        o = self.cache.get(key)
        if o is None:
            o = self.cache[key] = (self.directives if key[0] == 'dirs' else self.postings)(s)
        return o

    def directives(self, s):
        summ = summarised(self.entries, self.options, 'entries', s['chain'])
        o = {'summarised': summ, 'projs': [proj_entry(e) for e in summ], 'in_domain': True}
        try:
            o['dirs'] = dirs = [abstract_dir(e) for e in summ]
            for d in dirs:
                if not all(plain_ascii(x) for x in d[3] + d[4]):
                    raise OutOfDomain('non-ASCII')
                for a in d[5]:
                    if not set(a) <= ALPHABET:
                        raise OutOfDomain('account alphabet')
                if not all(plain_ascii(x) for o_ in d[6] + d[7] for x in o_):
                    raise OutOfDomain('non-ASCII')
        except OutOfDomain:
            o['in_domain'] = False
        return o

    def postings(self, s):
        rows = posting_table(summarised(self.entries, self.options, 'postings', s['chain']), s['f'])
        o = {'in_domain': True}
        try:
            table_in_domain(rows)
            o['scales'], o['kscale'] = scales, kscale = scale_table(rows)
            o['posts'] = [[ymd(r[0]), opt(r[1]), opt(r[2]), opt(r[3]), r[4], proj_lot(r[5], scales, kscale),
                           sorted(set(r[6]) | {r[4]}), r[7], opt(r[8])] for r in rows]
        except OutOfDomain:
            o['in_domain'] = False
        return o


def grouped_order(rng, shapes, picks):
    """the picked shapes, statements judged against the same table next to each other, the groups in random order
    (a statement without FROM clause may come before or after those with OPEN / CLOSE / CLEAR)"""
    groups = collections.defaultdict(list)
    for si in picks:
        groups[group_key(shapes[si])].append(si)
    keys = sorted(groups)
    rng.shuffle(keys)
    return [si for k in keys for si in groups[k]]


def from_class(s):
    return 'clauses' if s['clauses'] else ('expr' if s['from']['present'] else 'absent')


def session_order(rng, shapes, picks, k):
    """a stratified random session: per statement kind and per class of FROM clause (absent / expression only / with
    OPEN, CLOSE or CLEAR) k statements, every one of them executed twice, in random order"""
    order = []
    for kind in ('print', 'balances', 'journal'):
        for cls in ('absent', 'expr', 'clauses'):
            pool_ = [i for i in picks if shapes[i]['kind'] == kind and from_class(shapes[i]) == cls]
            order += 2 * rng.sample(pool_, min(k, len(pool_)))
    rng.shuffle(order)
    return order


def stored_big_ledger(ctx, big, entries, name):
    """the ledger `name` with every PRINT statement of the big table stored in it by a query directive (dated in the
    middle of the ledger), as a file: (loaded entries, options, filename, {shape index: query name})"""
    names = {i: 'q%d' % (i + 1) for i in range(len(big)) if big[i]['kind'] == 'print'}
    dates = sorted(e.date for e in entries)
    loaded, options, path = stored_ledger(ctx.path('c14_stored_%s.beancount' % name), entries,
                                          {nm: text_of(big[i]['short']) for i, nm in names.items()}, dates[len(dates) // 2])
    return loaded, options, path, names


def record_session(ctx, rec, name, oracle, shapes, order, tag, filename=None, run_names=None):
    """run the statements `order` (indices into shapes) one after the other on ONE shell / connection attached to the
    ledger: short vs expansion in Python, observed rows into the trace, next to the summarised table of the oracle.
    filename / run_names: the shell loads the ledger file itself and the statements whose index is in run_names are
    submitted as `.run <name>` (they are stored in the file by query directives); the trace line does not say how a
    statement was submitted -- what it returns is a function of (ledger, statement)"""
    sess = Session(oracle.entries, oracle.options, filename)
    run_names = run_names or {}
    current = {'dirs': None, 'posts': None}
    nrun = 0
    for n, si in enumerate(order):
        s = shapes[si]
        key = group_key(s)
        o = oracle.get(s)
        case = {'ledger': name, 'shape': si + 1, 'pass': tag, 'history': [i + 1 for i in order[:n]]}
        info = {'ledger': name, 'shape': si + 1, 'pass': tag, 'nth': n + 1, 'statement': text_of(s['short']), 'kind': s['kind'],
                'clauses': s['clauses'], '_order': order}
        ctx.case(['c2s', tag, name, n if tag == 'session' else 0, si], True)
        if s['kind'] == 'print':
            if not o['in_domain']:
                ctx.skipped += 1
                continue
            if current['dirs'] != key:
                rec.write({'k': 'dirs', 'dirs': o['dirs']})
                current['dirs'] = key
            command = ('.run ' + run_names[si]) if si in run_names else None
            if command:
                info['submitted_as'] = command
            kept = print_case(ctx, sess.psh, o['summarised'], o['projs'], s, 'print' + (':clauses' if s['clauses'] else ''), case, 'C2S',
                              command)
            nrun += 1
            if kept is None:
                continue
            rec.write({'k': 'print', 'from': s['from']['expr'], 'kept': kept}, dict(info, ndirs=len(o['dirs']), kept=kept[:40]))
            continue
        if o['in_domain'] and current['posts'] != key:
            rec.write({'k': 'ledger', 'posts': o['posts']})
            current['posts'] = key
        r1 = check_pair(ctx, sess.conn, s, shape_key(s), case, 'C2S')
        nrun += 1
        if r1 is None:
            continue
        if not o['in_domain']:
            ctx.skipped += 1
            continue
        try:
            if s['kind'] == 'balances':
                obs = proj_balances_rows(r1, o['scales'], o['kscale'])
                line = {'k': 'balances', 'from': s['from']['expr'], 'where': s['where'], 'rows': obs}
            else:
                obs = [[x[0], x[1], x[2], x[3], x[4], [x[5]], x[6]] for x in proj_journal_rows(r1, o['scales'], o['kscale'])]
                line = {'k': 'journal', 'from': s['from']['expr'], 'acct': s['acct'], 'rows': obs}
        except OutOfDomain:
            ctx.skipped += 1
            continue
        rec.write(line, dict(info, nposts=len(o['posts']), rows=obs[:12]))
    return nrun


def unfiltered_print_roundtrip(ctx, psh, entries, name):
    """an unfiltered PRINT of a ledger that loads cleanly must load back to equal directives (full loader)"""
    from beancount import loader
    from beancount.core import compare
    out = psh.run('PRINT')
    back, errors, _ = loader.load_string(out)
    same, missing1, missing2 = compare.compare_entries(entries, back)
    ctx.case(['print-loader', name], True)
    ctx.traces += 1
    if errors or not same:
        ctx.violation('print:loader-roundtrip', 'unfiltered PRINT does not load back to equal directives',
                      {'ledger': name}, 'C2S', 'equal directives, no errors',
                      {'errors': [str(e.message)[:100] for e in errors[:3]], 'missing': [str(e)[:200] for e in (missing1 + missing2)[:3]]})
    ctx.leg('C2S', unfiltered_print_full_loader=1)


def validate_trace(ctx, rec, path):
    res = ctx.tlc('Trace_Statements', 'Trace_Statements.cfg', leg='C2S', workers=1, env={'TRACE_FILE': path},
                  timeout=ctx.pick(900, 3600), jvm=JVM)
    rejected = [p for p in res.printed if isinstance(p, dict) and p.get('verdict') == 'rejected']
    for rj in rejected:
        info = rec.info.get(rj['line'], {})
        key = '%s:%s' % (info.get('kind', '?') + (':clauses' if info.get('clauses') else ''), rj['clause'])
        case = {k: v for k, v in info.items() if k != '_order'}
        if '_order' in info:      # what the connection executed before (a replay runs it again)
            case['history'] = [i + 1 for i in info['_order'][:info['nth'] - 1]]
        ctx.violation(key, 'recorded rows are not what the specification requires (clause %s)' % rj['clause'],
                      dict(case, line=rj['line']), 'C2S', 'clause %s holds' % rj['clause'], info.get('rows', info.get('kept')))
    if res.violated:
        ctx.violation('trace-invariant:%s' % ','.join(res.violated), 'invariant fails on a recorded trace',
                      {'behaviour': res.behaviour[:2000]}, 'C2S')
    elif res.post_failed or res.depth - 1 != rec.lines:
        raise MachineryError('trace not consumed: depth %d, lines %d (%s)' % (res.depth, rec.lines, res.errors[:2]))
    ctx.traces += rec.judged - len(rejected)
    ctx.leg('C2S', trace_lines=rec.lines, judged_by_tlc=rec.judged, rejected=len(rejected))


# ---------------------------------------------------------------------------------------------------------------
# S2C replays are spread over worker processes: a worker records what it would tell the context, the parent applies it
class Collector:
    def __init__(self, quick):
        self.calls = []
        self.traces = 0
        self.skipped = 0
        self.quick = quick

    def violation(self, *a, **kw):
        self.calls.append(('violation', a, kw))
        return False

    def case(self, *a, **kw):
        self.calls.append(('case', a, kw))

    def sample(self, *a, **kw):
        self.calls.append(('sample', a, kw))

    def leg(self, *a, **kw):
        self.calls.append(('leg', a, kw))

    def pick(self, q, t):
        return q if self.quick else t


_JOB = {}


def _replay_chunk(args):
    kind, idx = args
    col = Collector(_JOB['quick'])
    cases = _JOB['chunks'][idx]
    if kind == 'postings':
        replay_posting_cases(col, _JOB['tables'], cases, _JOB['what'])
    else:
        replay_print_cases(col, _JOB['tables'], cases, _JOB['what'])
    return col.calls, col.traces, col.skipped


def parallel_replay(ctx, tables, cases, kind, what, procs=6):
    import concurrent.futures as cf
    import multiprocessing
    if len(cases) < 400:
        return (replay_posting_cases if kind == 'postings' else replay_print_cases)(ctx, tables, cases, what)
    by_ledger = collections.defaultdict(list)
    for c in cases:
        by_ledger[tuple(c['l'])].append(c)
    chunks = [[] for _ in range(procs * 3)]
    for n, (led, cs) in enumerate(sorted(by_ledger.items())):
        chunks[n % len(chunks)].extend(cs)
    chunks = [c for c in chunks if c]
    _JOB.update(tables=tables, chunks=chunks, what=what, quick=ctx.quick)
    with cf.ProcessPoolExecutor(procs, mp_context=multiprocessing.get_context('fork')) as ex:
        for calls, traces, skipped in ex.map(_replay_chunk, [(kind, i) for i in range(len(chunks))]):
            ctx.traces += traces
            ctx.skipped += skipped
            for name, a, kw in calls:
                getattr(ctx, name)(*a, **kw)
    _JOB.clear()


# ---------------------------------------------------------------------------------------------------------------
# S2C, sessions (spec/StatementsSession.tla): TLC emits the sessions and, per statement, the version of the entry list
# it must be evaluated on: (ledger of its connection, its own clauses)
SESSION_LEDGERS = {1: 'pool', 2: 'random-0'}


def session_tables(ctx, cfg='Gen_StatementsSession.cfg'):
    res = ctx.tlc('StatementsSession', cfg, leg='GEN-sessions', workers=1, jvm=JVM, timeout=ctx.pick(600, 1800))
    shapes = [p['shapes'] for p in res.printed if isinstance(p, dict) and p.get('k') == 'shapes']
    sessions = [p for p in res.printed if isinstance(p, dict) and p.get('k') == 'session']
    if len(shapes) != 1 or not sessions:
        raise MachineryError('session generator: %d shape tables, %d sessions' % (len(shapes), len(sessions)))
    # route "run": the name and the date of the query directive that stores the statement in the ledger
    head = [p for p in res.printed if isinstance(p, dict) and p.get('k') == 'shapes'][0]
    for sh, name in zip(shapes[0], head['names']):
        sh['name'], sh['qdate'] = name, head['qdate']
    return shapes[0], sessions


def session_result(sess, shape):
    text = text_of(shape['short'])
    if shape['kind'] == 'print':
        try:
            return ['print', sess.psh.run(text)]
        except Exception as ex:  # noqa
            return ['EXC:%s' % type(ex).__name__, str(ex)[:200]]
    return list(run_stmt(sess.conn, text))


def show_result(r):
    if r[0] == 'print':
        return r[1][:600]
    if isinstance(r[0], str):
        return r
    return [str(x)[:200] for x in r[1][:8]]


def run_result(sess, command):
    """what the shell writes for one command line (a statement typed at the prompt, or `.run <name>`)"""
    try:
        return ['text', sess.psh.run(command)]
    except Exception as ex:  # noqa
        return ['EXC:%s' % type(ex).__name__, str(ex)[:200]]


def replay_sessions(ctx, tables, sshapes, sessions, what, leg='S2C'):
    with copying_memo():
        return _replay_sessions(ctx, tables, sshapes, sessions, what, leg)


def _replay_sessions(ctx, tables, sshapes, sessions, what, leg):
    """every statement of a session, executed on the one shell / connection of its connection index, must return what
    the same statement returns on a connection that has executed nothing else (the driver's realisation of
    `evaluated on the version (ledger, own clauses)`).

    Routes: a step on route "run" is submitted as `.run <name>` -- the statement is stored in the ledger by a query
    directive, the shell loads the ledger FILE itself -- and what the shell writes must be what it writes for one of
    the statement texts the specification admits (for PRINT: its own text and nothing else), typed at the prompt of a
    shell that loaded the same file and executed nothing else.  Sessions without such a step run on a shell with the
    ledger attached, as before."""
    ledgers, fresh = {}, {}

    def ledger(c, stored=False):
        if (c, False) not in ledgers:
            ledgers[c, False] = named_ledger(ctx, tables, SESSION_LEDGERS[c])[:2]
        if stored and (c, True) not in ledgers:
            date = datetime.date(*map(int, sshapes[0]['qdate'].split('-')))
            ledgers[c, True] = stored_ledger(ctx.path('c14_stored_%d_%d.beancount' % (os.getpid(), c)), ledgers[c, False][0],
                                             {sh['name']: text_of(sh['short']) for sh in sshapes}, date)
        return ledgers[c, stored]

    def fresh_result(c, n, stored):
        if (c, n, stored) not in fresh:
            fresh[c, n, stored] = session_result(Session(*ledger(c, stored)), sshapes[n - 1])
        return fresh[c, n, stored]

    def fresh_text(c, text):
        if (c, text) not in fresh:
            fresh[c, text] = run_result(Session(*ledger(c, True)), text)
        return fresh[c, text]
    composed = {}

    def composition(c, n, stored, want):
        """a statement with several clauses (shape['chain'], from the specification) against the statement with the LAST
        of them only (shape['last']) on a connection attached to the entry list the clauses before it give -- once per
        (ledger, statement)"""
        shape = sshapes[n - 1]
        chain = shape.get('chain') or []
        if len(chain) < 2 or (c, n, stored) in composed:
            return
        composed[c, n, stored] = True
        entries, options = ledger(c, stored)[:2]
        before = summarised(entries, options, 'entries' if shape['kind'] == 'print' else 'postings', chain[:-1])
        got = session_result(Session(before, options), dict(shape, short=shape['last']))
        ctx.case(['session-composition', c, n, stored], True)
        ctx.traces += 1
        if got != want:
            ctx.violation('session:%s:clauses:composition' % shape['kind'],
                          'a statement with several of OPEN / CLOSE / CLEAR returns something else than the statement with '
                          'the last of them on the ledger the clauses before it give',
                          {'ledger': SESSION_LEDGERS[c], 'statement': text_of(shape['short']), 'chain': chain,
                           'last': text_of(shape['last']), 'stored_ledger': stored}, leg, show_result(got), show_result(want))
    nsess = nstmt = nrun = 0
    t0 = time.time()
    for se in sessions:
        conns = {}
        texts = [('.run %s    [%s]' % (sshapes[st['s'] - 1]['name'], text_of(sshapes[st['s'] - 1]['short']))) if st.get('r') == 'run'
                 else text_of(sshapes[st['s'] - 1]['short']) for st in se['steps']]
        stored = any(st.get('r') == 'run' for st in se['steps'])
        for k, st in enumerate(se['steps']):
            c, n, route = st['c'], st['s'], st.get('r', 'typed')
            shape = sshapes[n - 1]
            admitted = se['want'][k]
            if (not admitted or any(w['ledger'] != c for w in admitted) or admitted[0]['cl'] != shape['own']
                    or admitted[0]['stmt'] != shape['short'] or (route != 'run' and len(admitted) != 1)):
                raise MachineryError('session %s: the specification wants step %d on %s -- not a version the driver can '
                                     'realise' % (se['steps'], k + 1, admitted))
            if c not in conns:
                conns[c] = Session(*ledger(c, stored))
            nstmt += 1
            ctx.case(['session', [[x['c'], x['s'], x.get('r', 'typed')] for x in se['steps'][:k + 1]]],
                     (k > 0 and shape['clauses']) or route == 'run')
            if route == 'run':
                nrun += 1
                got = run_result(conns[c], '.run ' + shape['name'])
                wants = [fresh_text(c, text_of(w['stmt'])) for w in admitted]
                if wants[0][0].startswith('EXC'):
                    ctx.skipped += 1
                    continue
                if got not in wants:
                    ctx.violation('session:%s%s:route-run' % (shape['kind'], ':clauses' if shape['clauses'] else ''),
                                  'a statement stored in the ledger and submitted with .run writes something else than '
                                  'the statement (with the clauses the specification admits) typed at the prompt of a '
                                  'shell that executed nothing else',
                                  {'session': se, 'step': k + 1, 'statements': texts, 'admitted': [text_of(w['stmt']) for w in admitted],
                                   'ledgers': {str(c_): SESSION_LEDGERS[c_] for c_ in conns}}, leg,
                                  [w[1][:600] for w in wants], show_result(['print', got[1]]) if got[0] == 'text' else got)
                continue
            got = session_result(conns[c], shape)
            want = fresh_result(c, n, stored)
            if isinstance(want[0], str) and want[0].startswith('EXC'):
                ctx.skipped += 1
                continue
            composition(c, n, stored, want)
            if got != want:
                ctx.violation('session:%s%s:history' % (shape['kind'], ':clauses' if shape['clauses'] else ''),
                              'a statement returns something else after other statements on its connection than on a '
                              'connection that executed nothing else',
                              {'session': se, 'step': k + 1, 'statements': texts,
                               'ledgers': {str(c_): SESSION_LEDGERS[c_] for c_ in conns}}, leg,
                              show_result(want), show_result(got))
        ctx.traces += 1
        nsess += 1
        if nsess in (200, 1000):
            ctx.sample({'leg': leg, 'session': texts, 'connections': [st['c'] for st in se['steps']]})
    ctx.leg(leg, **{what: nsess, what + '_statements': nstmt, what + '_statements_submitted_with_run': nrun,
               what + '_clause_compositions': len(composed)})
    if hasattr(ctx, 'log'):
        ctx.log('%s: %d sessions (%d statements, %d of them stored and submitted with .run) replayed in %.1fs'
                % (leg, nsess, nstmt, nrun, time.time() - t0))
    return nsess


def load_tables(ctx):
    res = ctx.tlc('Gen_Statements', 'Gen_StatementsTab.cfg', leg='GEN-tables', workers=1, jvm=JVM)
    if len(res.printed) != 1:
        raise MachineryError('expected one table object, got %d' % len(res.printed))
    return res.printed[0]


def direct_cases(ctx, tables):
    """statements on the full pool ledger with the ORIGINAL parser (no memoisation): ties the two routes together"""
    led = tuple(sorted(range(1, len(tables['pool']) + 1), key=lambda k: tables['pool'][k - 1]['txn']))
    conn = connect(build_pool_ledger(tables, led))
    shapes = tables['shapes']
    picks = list(range(0, len(shapes), ctx.pick(17, 3)))
    n = 0
    with unpatched_parser():
        for si in picks:
            s = shapes[si]
            check_pair(ctx, conn, s, shape_key(s) + ':direct', {'ledger': list(led), 'shape': si + 1, 'parser': 'original'}, 'S2C')
            ctx.case(['direct', si], True)
            ctx.traces += 1
            n += 1
    ctx.leg('S2C', executed_with_original_parser=n)


def run_session_mc(ctx, routes=False):
    """routes=False: two connections, every statement typed; routes=True: one connection, every statement typed or
    stored in the ledger and submitted with .run"""
    cfgs = ('MC_StatementsSessionR.cfg', 'MC_StatementsSessionR4.cfg') if routes else ('MC_StatementsSession.cfg', 'MC_StatementsSession4.cfg')
    res = ctx.tlc('StatementsSession', ctx.pick(*cfgs), leg='MC',
                  jvm=JVM, timeout=ctx.pick(600, 3000), workers=ctx.pick(2, 8),
                  must_cover=ctx.pick(('SCompile', 'SExecute'), ()))
    if res.violated:
        ctx.violation('spec:session:' + ','.join(res.violated), 'a statement of a session is not evaluated on its own version '
                      'of the ledger', {'behaviour': res.behaviour[:3000]}, 'MC')


def run(ctx):
    ctx.rule = ('S2C: (ledger, statement shape) pairs emitted by TLC with the rows the spec requires; non-trivial = the '
                'statement has a filter / pattern / summary function and returns at least one row (PRINT: keeps some but '
                'not all directives); C2S: (ledger, shape of the big table) pairs on the example ledger and on random '
                'ledgers, judged by TLC against the summarised posting / directive table; sessions: one statement of a '
                'TLC-emitted / random sequence executed on one connection, non-trivial when it has OPEN / CLOSE / CLEAR '
                'and is not the first, or when it is submitted as a stored query (.run)')
    ctx.assumptions += [
        'account patterns are literal or ^prefix patterns over [-0-9:A-Za-z_]; the case-insensitive search of the code is modelled',
        'numbers are integers in minor units (< 2^31) per currency; other cases are skipped and counted',
        'column names are compared modulo blanks, case and doubled parentheses (they derive from the source text)',
        'the entry list after ONE of OPEN / CLOSE / CLEAR is taken as given (BeanTable.prepare with that one clause, on a '
        'connection of its own that executes nothing else): C13 judges it; "after OPEN/CLOSE/CLEAR" with several clauses is '
        'read as their application one after the other in that order (Statements!ClauseChain; C13 states the order, the C14 '
        'statement does not spell it out), so the table of a combination is composed from single-clause steps; the posting table TLC judges against is read off those directives '
        '(transaction: date, flag, payee, narration; posting: account, units, cost, own flag), the summary function '
        'applied with beancount.core.convert.get_units / get_cost',
        'the flag of the register (and the column flag in FROM / WHERE) is the flag of the transaction, as the column '
        'documents; the flag a posting carries itself is posting_flag',
        'the columns tags / links of the entries table are the set of tags / links of the transaction, as the columns '
        'document: NULL for every other directive, also for notes and documents (which have tags and links of their own); '
        'the trace records what each directive carries, the specification (DirRow) says what the columns show',
        'has_account(p) is TRUE when any account the directive names matches (beancount.core.getters.get_entry_accounts: '
        'postings of a transaction, account of open/close/balance/note/document, account AND source_account of a pad)',
        'diff_amount of a balance directive (filled in by the loader when the assertion fails) is not part of the directive '
        'as written and is not compared in the PRINT round trip',
        'NOT NULL is TRUE (BQL\'s NULL-aware NOT, as property C01 states it)',
        'a result is a function of (ledger, statement): the statements of a ledger share one shell / connection and what '
        'ran before must not matter (StatementsSession.tla); S2C sessions compare with a connection that executed nothing else',
        'what a statement returns does not depend on how it is submitted (typed, or stored in the ledger by a query '
        'directive and run with the shell command .run); the one admitted exception is the default closing date (= date of '
        'the query directive) the shell gives a stored BALANCES / JOURNAL whose FROM clause has no CLOSE -- never a PRINT',
        'stored-query sessions run on ledgers written with beancount.parser.printer and loaded back by the shell '
        '(beancount.loader): the loaded directives are the ledger on both sides of every comparison',
        'MAXWIDTH is the identity on strings that fit and have no blank runs; longer ones only have their length checked',
        'beanquery.parser.parse is memoised by text inside the replay loops (TatSu: 30-100 ms per statement, the templates '
        'are re-parsed on every execution); a sample runs with the original parser',
        'TLC 1.8, Json/IOUtils community modules, CPython 3.12, Beancount 3.2.x (printer and parser trusted for PRINT)',
    ]
    only = getattr(ctx, 'only_legs', None)

    def want(leg):
        return not only or leg in only
    # ---- MC
    if want('MC'):
        import concurrent.futures as cf
        # the seven non-vacuity runs (small, they stop at the first counterexample) run next to the exhaustive one
        with cf.ThreadPoolExecutor(12) as pool:
            futs = [pool.submit(ctx.tlc, 'MC_Statements', 'MC_Statements_%s.cfg' % v, leg='MC-nonvacuity',
                                expect_violation='DenoteIsMeaning', workers=2, jvm=JVM)
                    for v in ('no_where', 'order_by_name', 'balance_raw', 'print_keeps_null', 'flag_of_posting',
                              'attr_of_any_directive', 'single_account_attribute')]
            # sessions: results do not depend on what a connection (or another one) executed before; mechanisms that
            # keep state across statements on the table object / the registered object / the class are rejected, and so
            # is a shell that applies the default closing date of `.run` to a stored PRINT, and a prepare() that computes
            # OPEN ON d CLOSE ON e by a routine of its own instead of OPEN, then CLOSE
            futs += [pool.submit(ctx.tlc, 'StatementsSession', 'MC_StatementsSession_%s.cfg' % v, leg='MC-nonvacuity',
                                 expect_violation='Independent', workers=2, jvm=JVM)
                     for v in ('memo_on_object', 'update_in_place', 'memo_on_class', 'run_closes_any', 'fused_period')]
            futs.append(pool.submit(run_session_mc, ctx))
            futs.append(pool.submit(run_session_mc, ctx, True))
            for cfg in ctx.pick(('MC_Statements.cfg',), ('MC_Statements4.cfg', 'MC_Statements4b.cfg')):
                res = ctx.tlc('MC_Statements', cfg, leg='MC', jvm=JVM, timeout=ctx.pick(900, 3000), workers=ctx.pick(12, 16),
                              must_cover=('Rewrite', 'CompilePrint', 'Scan', 'Finalize', 'Order', 'Strip', 'PrintScan', 'PrintEmit'))
                if res.violated:
                    ctx.violation('spec:' + ','.join(res.violated), 'the expansion does not denote the declarative meaning',
                                  {'behaviour': res.behaviour[:3000]}, 'MC')
            for f in futs:
                f.result()
    tables = load_tables(ctx)
    install_parse_memo()
    try:
        # ---- S2C
        if want('S2C'):
            res = ctx.tlc('Gen_Statements', ctx.pick('Gen_Statements.cfg', 'Gen_Statements3.cfg'), leg='GEN', jvm=JVM,
                          timeout=ctx.pick(900, 3000))
            cases = res.printed
            ctx.log('S2C: %d cases emitted' % len(cases))
            sshapes, sessions = session_tables(ctx, 'Gen_StatementsSession.cfg')
            preparse([text_of(sh[k]) for sh in tables['shapes'] + tables['printshapes'] + sshapes for k in ('short', 'expanded')])
            parallel_replay(ctx, tables, [c for c in cases if c['t'] == 'postings'], 'postings', 'posting_cases')
            parallel_replay(ctx, tables, [c for c in cases if c['t'] == 'entries'], 'entries', 'print_cases')
            nsim = ctx.pick(1500, 40000)
            w = 4
            res = ctx.tlc('Gen_Statements', 'Gen_StatementsSim.cfg', leg='GEN-sim', simulate='num=%d' % max(1, nsim // (w * 5)),
                          depth=7, seed=ctx.seed, workers=w, jvm=JVM)
            cases = res.printed
            ctx.log('S2C: %d simulated cases emitted' % len(cases))
            parallel_replay(ctx, tables, [c for c in cases if c['t'] == 'postings'], 'postings', 'simulated_posting_cases')
            parallel_replay(ctx, tables, [c for c in cases if c['t'] == 'entries'], 'entries', 'simulated_print_cases')
            direct_cases(ctx, tables)
            replay_sessions(ctx, tables, sshapes, sessions, 'sessions')
            if not ctx.quick:
                for cfg, what in (('Gen_StatementsSession3.cfg', 'sessions_of_3'), ('Gen_StatementsSession2c.cfg', 'sessions_2_connections')):
                    replay_sessions(ctx, tables, sshapes, session_tables(ctx, cfg)[1], what)
        # ---- C2S
        if want('C2S'):
            big = tables['bigshapes']
            path = ctx.path('statements_trace.ndjson')
            rec = Recorder(ctx, path)
            psh = PrintShell()
            rng = ctx.rng
            nrun = 0
            # small: the whole pool as one ledger, every shape of the big table (this is where every clause subset runs)
            allidx = list(range(len(big)))
            if ctx.quick:
                # stratified: every PRINT shape (cheap to parse), and per statement kind as many shapes with as
                # without OPEN / CLOSE / CLEAR; one seeded subset used on every ledger (parsing a text costs 30-100 ms)
                subset = [i for i in allidx if big[i]['kind'] == 'print']
                for kind in ('balances', 'journal'):
                    for cl in (False, True):
                        pool_ = [i for i in allidx if big[i]['kind'] == kind and big[i]['clauses'] == cl]
                        subset += rng.sample(pool_, 24)
                subset.sort()
            else:
                subset = allidx
            preparse([text_of(big[i][k]) for i in subset for k in ('short', 'expanded')])
            names = ['pool'] + ['random-%d' % k for k in range(ctx.pick(4, 40))] + ['example']
            nsession = nstored = 0
            stored_names = names[:ctx.pick(3, 12)]
            for name in names:
                entries, options, nerr = named_ledger(ctx, tables, name)
                picks = subset if (ctx.quick or not name.startswith('random')) else sorted(rng.sample(allidx, 200))
                oracle = Oracle(entries, options)
                # all the statements of the ledger on one shell / connection, the groups in random order ...
                nrun += record_session(ctx, rec, name, oracle, big, grouped_order(rng, big, picks), 'groups')
                if name != 'example':
                    # ... and a stratified random session on another one (the tables of the example ledger are too
                    # large to be written next to every statement)
                    n = record_session(ctx, rec, name, oracle, big, session_order(rng, big, subset, ctx.pick(3, 5)), 'session')
                    nrun += n
                    nsession += n
                if name in stored_names:
                    # ... and, on a shell that loads the ledger from a file, every PRINT submitted as a stored query
                    # (`.run <name>`), some typed BALANCES / JOURNAL in between
                    loaded, lopts, lpath, run_names = stored_big_ledger(ctx, big, entries, name)
                    others = [i for i in subset if big[i]['kind'] != 'print']
                    order = grouped_order(rng, big, [i for i in subset if big[i]['kind'] == 'print'] + rng.sample(others, 6))
                    with copying_memo():
                        n = record_session(ctx, rec, name, Oracle(loaded, lopts), big, order, 'stored', lpath, run_names)
                    nrun += n
                    nstored += n
                if name == 'example' and not nerr:
                    psh.attach(entries, options)
                    unfiltered_print_roundtrip(ctx, psh, entries, 'example')
            rec.close()
            with open(path) as f:
                first = [json.loads(x) for x in itertools.islice(f, 2)]
            ctx.sample({'leg': 'C2S', 'first_lines': [str(x)[:600] for x in first]})
            ctx.leg('C2S', statements_run=nrun, of_which_in_random_sessions=nsession, of_which_in_sessions_with_stored_print=nstored)
            ctx.log('C2S: %d statements recorded (%d of them in random sessions, %d in sessions whose PRINT statements are stored '
                    'queries submitted with .run), %d trace lines' % (nrun, nsession, nstored, rec.lines))
            validate_trace(ctx, rec, path)
    finally:
        uninstall_parse_memo()
    ctx.exhaustive = False


def replay(ctx, rep):
    case = rep['case']
    tables = load_tables(ctx)
    if case.get('table') == 'postings' or case.get('parser') == 'original':
        shape = tables['shapes'][case['shape'] - 1]
        conn = connect(build_pool_ledger(tables, tuple(case['ledger'])))
        before = len(ctx.violations) + sum(v['n'] for v in ctx.known_hits.values())
        check_pair(ctx, conn, shape, shape_key(shape), case, rep.get('leg', 'S2C'), rep.get('expected') if rep.get('clause', '').endswith('meaning') else None)
        after = len(ctx.violations) + sum(v['n'] for v in ctx.known_hits.values())
        print('replay:', 'MISMATCH reproduced' if after > before else 'no mismatch')
        return 1 if after > before else 0
    if case.get('table') == 'entries':
        before = len(ctx.violations) + sum(v['n'] for v in ctx.known_hits.values())
        replay_print_cases(ctx, tables, [{'l': case['ledger'], 's': case['shape'], 'rows': rep.get('expected') or [], 't': 'entries'}], 'replayed')
        after = len(ctx.violations) + sum(v['n'] for v in ctx.known_hits.values())
        print('replay:', 'MISMATCH reproduced' if after > before else 'no mismatch')
        return 1 if after > before else 0
    if 'session' in case:
        install_parse_memo()
        try:
            sshapes, _ = session_tables(ctx)
            before = len(ctx.violations) + sum(v['n'] for v in ctx.known_hits.values())
            replay_sessions(ctx, tables, sshapes, [case['session']], 'replayed')
            after = len(ctx.violations) + sum(v['n'] for v in ctx.known_hits.values())
        finally:
            uninstall_parse_memo()
        print('replay:', 'MISMATCH reproduced' if after > before else 'no mismatch')
        return 1 if after > before else 0
    if isinstance(case.get('ledger'), str):
        big = tables['bigshapes']
        install_parse_memo()
        try:
            entries, options, _ = named_ledger(ctx, tables, case['ledger'])
            path = ctx.path('replay_trace.ndjson')
            rec = Recorder(ctx, path)
            before = len(ctx.violations) + sum(v['n'] for v in ctx.known_hits.values())
            # what the connection had executed before, then the statement
            order = [i - 1 for i in case.get('history', [])] + [case['shape'] - 1]
            if case.get('pass') == 'stored':
                loaded, lopts, lpath, run_names = stored_big_ledger(ctx, big, entries, case['ledger'])
                with copying_memo():
                    record_session(ctx, rec, case['ledger'], Oracle(loaded, lopts), big, order, 'stored', lpath, run_names)
            else:
                record_session(ctx, rec, case['ledger'], Oracle(entries, options), big, order, case.get('pass', 'groups'))
            rec.close()
            if rec.lines:
                validate_trace(ctx, rec, path)
            after = len(ctx.violations) + sum(v['n'] for v in ctx.known_hits.values())
        finally:
            uninstall_parse_memo()
        print('replay:', 'MISMATCH reproduced' if after > before else 'no mismatch')
        return 1 if after > before else 0
    print('replay: case kind not replayable standalone; re-run the check')
    return 2
