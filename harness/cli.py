"""./check <Cxx> [--tier quick|thorough] [--replay path]   (exit 0 held / 1 violation / 2 machinery failure)"""
import argparse
import importlib
import json
import os
import sys
import traceback

HERE = os.path.dirname(os.path.abspath(__file__))
sys.path.insert(0, os.path.dirname(HERE))

from harness import core  # noqa: E402


def main(argv=None):
    ap = argparse.ArgumentParser()
    ap.add_argument('prop')
    ap.add_argument('--tier', default=os.environ.get('VERIF_TIER', 'quick'), choices=['quick', 'thorough'])
    ap.add_argument('--seed', type=int, default=int(os.environ.get('VERIF_SEED', '20260926') or 0))
    ap.add_argument('--replay', default=None)
    ap.add_argument('--legs', default=None, help='comma list of legs to run (debugging); default all')
    args = ap.parse_args(argv)
    prop = args.prop.upper()
    os.chdir(core.VERIF)
    try:
        core.bootstrap_repo()
        mod = importlib.import_module('harness.props.%s' % prop.lower())
    except (ImportError, core.MachineryError):
        traceback.print_exc()
        print('MACHINERY-FAILURE property=%s no check module' % prop)
        return 2
    ctx = core.Ctx(prop, args.tier, args.seed)
    ctx.only_legs = set(args.legs.split(',')) if args.legs else None
    try:
        core.bootstrap_repo()
        if args.replay:
            with open(args.replay) as f:
                rep = json.load(f)
            if not hasattr(mod, 'replay'):
                print('MACHINERY-FAILURE property=%s has no replay entry' % prop)
                return 2
            rc = mod.replay(ctx, rep)
            ctx.cleanup()
            return rc
        mod.run(ctx)
        return ctx.finish(getattr(mod, 'LEVEL', 'model_checking'))
    except core.MachineryError as ex:
        ctx.cleanup()
        print('MACHINERY-FAILURE property=%s %s' % (prop, ex))
        return 2
    except Exception:
        ctx.cleanup()
        traceback.print_exc()
        print('MACHINERY-FAILURE property=%s unexpected exception in the harness' % prop)
        return 2


if __name__ == '__main__':
    sys.exit(main())
