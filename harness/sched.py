"""Deterministic turn-taking scheduler for threads that execute BQL queries (C20), and the BQL function `pause(tid)`.

Exactly one thread runs at any time.  A thread gives up the turn only (a) inside `pause(..)` -- a BQL function
registered through beanquery's public function registry (`query_env.function`, pass_row=True so that it is evaluated
per row and never folded) -- or (b) when its job ends.  Who gets the turn next is decided by

  * a fixed grant sequence (`order=[1, 2, 1, ...]`: spec -> code replay of a schedule emitted by TLC), or
  * a seeded random choice among the unfinished threads (`rng=`: code -> spec, the grant log is validated by TLC).

Every thread other than the holder is blocked on one condition variable at a gate (start gate or inside pause), so
the choice is made when all candidates are known: the execution is a deterministic function of (jobs, order | seed).
No timing, no switch interval games.  Nothing can block for ever: every wait has a deadline; a missed deadline is a
MachineryError (exit 2).  A schedule that does not fit the run (turn granted to a finished thread, schedule exhausted
while threads are still waiting) is NOT a machinery failure but an observation about the code (`diverged`): the
threads still waiting are released with ScheduleDiverged and the caller reports it.
"""
import threading
import time

from harness.core import MachineryError

_local = threading.local()
_reg_lock = threading.Lock()


class ScheduleDiverged(Exception):
    """the run does not have the pause points the schedule was written for"""


def register():
    """Register `pause(int) -> int` with beanquery (idempotent).  Outside a scheduled thread it returns at once."""
    from beanquery import query_compile, query_env
    with _reg_lock:
        if any(getattr(f, '_verif_pause', False) for f in query_compile.FUNCTIONS.get('pause', [])):
            return

        @query_env.function([int], int, pass_row=True, name='pause')
        def pause(row, tid):
            sched = getattr(_local, 'sched', None)
            if sched is not None:
                sched.pause(tid)
            return tid
        query_compile.FUNCTIONS['pause'][-1]._verif_pause = True


class Scheduler:
    def __init__(self, order=None, rng=None, timeout=30.0):
        if (order is None) == (rng is None):
            raise MachineryError('Scheduler needs exactly one of order= / rng=')
        self.order = list(order) if order is not None else None
        self.rng = rng
        self.timeout = timeout
        self.cv = threading.Condition()
        self.alive = set()
        self.waiting = set()
        self.holder = None
        self.log = []            # the grants, in the order they were made
        self.error = None        # MachineryError
        self.diverged = None     # reason (str)
        self.mismatch = []       # (thread, argument) of pause() calls made with another thread's id
        self.deadline = None

    # ---- internals (lock held) ----------------------------------------------------------------
    def _grant_next(self):
        if self.holder is not None or self.error or self.diverged:
            return
        if not self.alive:
            if self.order is not None and len(self.log) < len(self.order):
                self.diverged = 'all threads finished after %d of %d grants' % (len(self.log), len(self.order))
            return
        if self.order is not None:
            if len(self.log) >= len(self.order):
                self.diverged = 'schedule exhausted after %d grants, threads %s still running' % (
                    len(self.log), sorted(self.alive))
                self.cv.notify_all()
                return
            t = self.order[len(self.log)]
            if t not in self.alive:
                self.diverged = 'grant %d goes to thread %s, which has finished' % (len(self.log) + 1, t)
                self.cv.notify_all()
                return
        else:
            t = self.rng.choice(sorted(self.alive))
        self.holder = t
        self.log.append(t)
        self.cv.notify_all()

    def _fail(self, msg):
        if self.error is None:
            self.error = MachineryError('scheduler: ' + msg)
        self.cv.notify_all()

    def _wait_turn(self, tid):
        self.waiting.add(tid)
        self.cv.notify_all()
        while self.holder != tid:
            if self.error:
                raise self.error
            if self.diverged:
                raise ScheduleDiverged(self.diverged)
            left = self.deadline - time.monotonic()
            if left <= 0:
                self._fail('thread %s waited more than %.0fs for its turn (holder %s, log %s)' % (
                    tid, self.timeout, self.holder, self.log[-20:]))
                raise self.error
            self.cv.wait(min(left, 1.0))
        self.waiting.discard(tid)

    # ---- called from the BQL function -----------------------------------------------------------
    def pause(self, arg):
        tid = getattr(_local, 'tid', None)
        with self.cv:
            if arg != tid:
                self.mismatch.append((tid, arg))
            if self.holder != tid:
                self._fail('thread %s reached a pause point without holding the turn (holder %s)' % (tid, self.holder))
                raise self.error
            self.holder = None
            self.waiting.add(tid)
            self._grant_next()
            self._wait_turn(tid)

    # ---- the run ---------------------------------------------------------------------------------
    def run(self, jobs):
        """jobs: {tid: callable}.  Returns (results {tid: value}, exceptions {tid: exception})."""
        register()
        results, excs = {}, {}
        self.deadline = time.monotonic() + self.timeout
        self.alive = set(jobs)

        def body(tid, fn):
            _local.sched, _local.tid = self, tid
            try:
                with self.cv:
                    self._wait_turn(tid)
                results[tid] = fn()
            except BaseException as ex:  # noqa  (reported by the caller)
                excs[tid] = ex
            finally:
                _local.sched = None
                with self.cv:
                    self.alive.discard(tid)
                    self.waiting.discard(tid)
                    if self.holder == tid:
                        self.holder = None
                    self._grant_next()
                    self.cv.notify_all()

        threads = [threading.Thread(target=body, args=(tid, fn), daemon=True, name='verif-sched-%s' % tid)
                   for tid, fn in sorted(jobs.items())]
        for th in threads:
            th.start()
        with self.cv:
            while self.waiting != self.alive and not self.error:      # start barrier: everybody at the gate
                left = self.deadline - time.monotonic()
                if left <= 0:
                    self._fail('threads %s never reached the start gate' % sorted(self.alive - self.waiting))
                    break
                self.cv.wait(min(left, 1.0))
            self._grant_next()
        for th in threads:
            th.join(max(0.0, self.deadline - time.monotonic()) + 2.0)
            if th.is_alive():
                with self.cv:
                    self._fail('thread %s did not finish within %.0fs' % (th.name, self.timeout))
        if self.error:
            raise self.error
        for tid, ex in excs.items():
            if isinstance(ex, MachineryError):
                raise ex
        return results, excs
