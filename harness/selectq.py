"""Source-level abstract queries (spec/BQLSelect.tla vocabulary) -> beanquery AST / text, execution and comparison.

q = {"targets":[{"e":E,"as":""}], "where":E|{"k":"none"}, "group":[Ref], "having":E|none, "order":[{"r":Ref,"desc":bool}],
     "pivot":[Ref,Ref]|[], "distinct":bool, "limit":-1|n}      Ref = {"k":"idx","i":n} | {"k":"expr","e":E}
"""
import datetime
import decimal

import beanquery
from beanquery.parser import ast

from harness import bql
from harness import tables as ht

TYPEMAP = {'int': int, 'dec': decimal.Decimal, 'str': str, 'date': datetime.date, 'bool': bool, 'obj': object,
           'null': type(None), 'list': list}


def is_none(e):
    return e is None or (isinstance(e, dict) and e.get('k') == 'none')


def ref_ast(r):
    if r['k'] == 'idx':
        return r['i']
    return bql.expr_ast(r['e'])


def ref_text(r):
    if r['k'] == 'idx':
        return str(r['i'])
    return bql.expr_text(r['e'])


def has_sub(q):
    return isinstance(q.get('sub'), dict) and q['sub'].get('k') != 'none'


def query_ast(q, table):
    if has_sub(q):
        table = query_ast(q['sub'], table)
    targets = '*' if q.get('star') else [(bql.expr_ast(t['e']), t['as'] or None) for t in q['targets']]
    where = None if is_none(q['where']) else bql.expr_ast(q['where'])
    group = None
    if q['group']:
        group = ast.GroupBy([ref_ast(r) for r in q['group']], None if is_none(q['having']) else bql.expr_ast(q['having']))
    order = [ast.OrderBy(ref_ast(o['r']), ast.Ordering.DESC if o['desc'] else ast.Ordering.ASC) for o in q['order']] or None
    pivot = ast.PivotBy([ref_ast(r) for r in q['pivot']]) if q['pivot'] else None
    return bql.select_ast(targets, table, where, group, order, pivot, None if q['limit'] < 0 else q['limit'],
                          True if q['distinct'] else None)


def query_text(q, table):
    parts = ['SELECT']
    if q['distinct']:
        parts.append('DISTINCT')
    parts.append('*' if q.get('star') else ', '.join(bql.expr_text(t['e']) + (' AS %s' % t['as'] if t['as'] else '') for t in q['targets']))
    parts.append('FROM (%s)' % query_text(q['sub'], table) if has_sub(q) else 'FROM #%s' % table)
    if not is_none(q['where']):
        parts.append('WHERE ' + bql.expr_text(q['where']))
    if q['group']:
        parts.append('GROUP BY ' + ', '.join(ref_text(r) for r in q['group']))
        if not is_none(q['having']):
            parts.append('HAVING ' + bql.expr_text(q['having']))
    if q['order']:
        parts.append('ORDER BY ' + ', '.join(ref_text(o['r']) + (' DESC' if o['desc'] else ' ASC') for o in q['order']))
    if q['pivot']:
        parts.append('PIVOT BY ' + ', '.join(ref_text(r) for r in q['pivot']))
    if q['limit'] >= 0:
        parts.append('LIMIT %d' % q['limit'])
    return ' '.join(parts)


def q_key(q):
    """structural signature of a query (for distinct accounting)"""
    return '|'.join([
        ('SUB[' + q_key(q['sub']) + ']' if has_sub(q) else '') + ('*' if q.get('star') else '') +
        ','.join(bql.expr_key(t['e']) for t in q['targets']),
        'W:' + ('' if is_none(q['where']) else bql.expr_key(q['where'])),
        'G:' + ','.join(str(r.get('i')) if r['k'] == 'idx' else bql.expr_key(r['e']) for r in q['group']),
        'H:' + ('' if is_none(q['having']) else bql.expr_key(q['having'])),
        'O:' + ','.join((str(o['r'].get('i')) if o['r']['k'] == 'idx' else bql.expr_key(o['r']['e'])) + ('-' if o['desc'] else '+') for o in q['order']),
        'P:' + ','.join(str(r.get('i')) if r['k'] == 'idx' else bql.expr_key(r['e']) for r in q['pivot']),
        'D' if q['distinct'] else '', 'L%d' % q['limit']])


class NoDescription(Exception):
    pass


def run_query(conn, stmt, params=None):
    """returns ('ok', description, rows) | ('rejected', exception) | ('error', exception)"""
    try:
        cur = conn.execute(stmt, params)
        desc, rows = cur.description, cur.fetchall()
        if desc is None:
            # a SELECT that executed has a description (C07 / C10), rows or no rows: report it as a failed execution
            return 'error', NoDescription('cursor.description is None after executing a SELECT (%d rows)' % len(rows)), None
        return 'ok', desc, rows
    except beanquery.ProgrammingError as ex:        # ParseError / CompilationError
        return 'rejected', ex, None
    except Exception as ex:  # noqa
        return 'error', ex, None


def compare_rows(spec_rows, rows):
    """spec_rows: [[ [t,n,d,s], ...], ...]; returns (ok, detail, skipped)"""
    if len(spec_rows) != len(rows):
        return False, 'row count %d != %d' % (len(rows), len(spec_rows)), False
    skipped = False
    for a, (sr, r) in enumerate(zip(spec_rows, rows)):
        if len(sr) != len(r):
            return False, 'row %d arity %d != %d' % (a, len(r), len(sr)), False
        for b, (sv, v) in enumerate(zip(sr, r)):
            ok, sk = bql.same_value(sv, v)
            skipped = skipped or sk
            if not ok:
                return False, 'row %d col %d: expected %s got %r' % (a, b, sv, v), False
    return True, '', skipped


def proj_rows(rows):
    return [[bql.from_py(v) for v in r] for r in rows]


def table_from_code(rowvals, code, name='g'):
    """MC_Select tables: rowvals = 8 x [k,s,v,w] abstract values; code = list of 1-based indexes; p = position"""
    rows = []
    for pos, c in enumerate(code, 1):
        rv = rowvals[c - 1]
        rows.append(tuple(bql.to_py(x) for x in rv) + (pos,))
    return ht.HarnessTable(name, [('k', 'int'), ('s', 'str'), ('v', 'int'), ('w', 'Decimal'), ('p', 'int')], rows)
